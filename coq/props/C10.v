(* C10 - text taken from the input ends up as data, never as code.
   Statements and instantiations only; proofs are in proofs/EscapeProofs.v.  The three tables are
   reflected from parser/base.py, model/pydantic/types.py and model/typed_dict.py on this run. *)
From DMCG Require Import Escape EscapeProofs EscapeTables.
Open Scope N_scope.

(* enum / const / GraphQL enum values: 'translate(enum_table, s)' is one token that evaluates to s,
   and nothing of s is left after the closing quote - for every string s and every continuation *)
Theorem C10_enum_value_roundtrip :
  forall s rest, lex_sq LNorm [] (translate enum_table s ++ 39 :: rest) = Some (s, rest).
Proof. exact (fun s rest => sq_roundtrip enum_table eq_refl s [] rest). Qed.

(* TypedDict keys in the functional syntax *)
Theorem C10_typed_dict_key_roundtrip :
  forall s rest, lex_sq LNorm [] (translate tdkey_table s ++ 39 :: rest) = Some (s, rest).
Proof. exact (fun s rest => sq_roundtrip tdkey_table eq_refl s [] rest). Qed.

(* regex patterns: r'translate(regex_table, s)' is exactly one token whenever every backslash of the
   pattern is followed by a character the table leaves alone (raw_safe); the value is the escaped
   text, which is regex-equivalent, not string-equal (partial: see the known findings for the rest) *)
Theorem C10_pattern_one_token_partial :
  forall s rest, raw_safe regex_table false s = true ->
    lex_raw false [] (translate regex_table s ++ 39 :: rest) = Some (translate regex_table s, rest).
Proof. exact (fun s rest => raw_one_token regex_table eq_refl s [] rest). Qed.

(* the full statement for patterns is false of the code: a backslash followed by a quote ends the literal *)
Theorem C10_pattern_refuted :
  exists s rest, lex_raw false [] (translate regex_table s ++ 39 :: rest)
                 <> Some (translate regex_table s, rest).
Proof. exists [92; 39], [120]. vm_compute. discriminate. Qed.

(* docstrings: the escaped description between the triple quotes is one token, for every description *)
Theorem C10_docstring_one_token :
  forall s rest, lex_tq TQ0 (10 :: doc_enc P0 s ++ close_doc rest) = Some rest.
Proof. exact docstring_one_token. Qed.

(* non-vacuity *)
Example C10_enum_quote_backslash_newline_nul :
  translate enum_table [39; 92; 10; 0; 97] = [92; 39; 92; 92; 92; 110; 92; 120; 48; 48; 97]
  /\ raw_safe regex_table false [94; 92; 100; 43; 39; 36] = true.
Proof. vm_compute. split; reflexivity. Qed.
Example C10_docstring_injection :
  doc_enc P0 [120; 34; 34; 34; 10; 92] = [120; 92; 34; 92; 34; 92; 34; 10; 92; 92].
Proof. vm_compute. reflexivity. Qed.

Print Assumptions C10_enum_value_roundtrip.
Print Assumptions C10_typed_dict_key_roundtrip.
Print Assumptions C10_pattern_one_token_partial.
Print Assumptions C10_pattern_refuted.
Print Assumptions C10_docstring_one_token.
