(* C09 - enumerations keep exactly the schema's set of values.
   U0 and enum_table are reflected from /repo and the running CPython on this run. *)
From Coq Require Import ZArith.
From DMCG Require Import IdentInst IdentProofs Escape EscapeProofs EscapeTables EnumModel EnumProofs.
From DMCG Require C07.
Open Scope N_scope.

(* for every list of JSON scalars, every type keyword, every x-enum-varnames list and every option
   vector with a sane prefix: one member per value in order, member names legal, pairwise distinct and
   never mro *)
Theorem C09_members_legal_distinct :
  forall o t vs varnames excl,
    prefix_ok U0 (o_prefix o) = true ->
    exists l, enum_members U0 enum_table o t varnames excl vs = Some l
      /\ List.length l = List.length vs
      /\ NoDup (map fst l)
      /\ (forall n, In n (map fst l) -> ~ In n excl /\ legal U0 n = true /\ str_eqb n s_mro = false)
      /\ map snd l = map (member_lit enum_table t) vs.
Proof. exact (enum_members_names U0 enum_table C07.C07_tables_ok). Qed.

(* the literal written for each member evaluates (CPython literal lexer model) to exactly the
   schema's value - original JSON type and exact content - for all values, strings of arbitrary
   characters included *)
Theorem C09_values_preserved :
  forall o t varnames vs l,
    parse_enum U0 enum_table o t varnames vs = Some l ->
    prefix_ok U0 (o_prefix o) = true ->
    map (fun p => lit_value (snd p)) l = map Some (enum_values t vs).
Proof. exact (enum_values_preserved U0 enum_table C07.C07_tables_ok eq_refl). Qed.

(* a null entry of a string enum is not a member and makes the type nullable; all other values stay *)
Theorem C09_null_makes_optional :
  forall t vs, enum_nullable t vs = true ->
    forallb (fun v => negb (is_null v)) (enum_values t vs) = true
    /\ (forall v, In v vs -> is_null v = false -> In v (enum_values t vs)).
Proof. exact enum_null_not_member. Qed.

(* literal mode holds exactly the non-null values *)
Theorem C09_literal_mode :
  forall vs v, In v (parse_enum_as_literal vs) <-> In v vs /\ is_null v = false.
Proof. exact literal_mode_values. Qed.

(* the full statement is false of the code for enums without type: string: null becomes a member *)
Theorem C09_null_member_refuted :
  exists l, parse_enum U0 enum_table C07.o_default TNone None [JStr [97]; JNull] = Some l
            /\ In (LRaw JNull) (map snd l).
Proof. eexists. split; [vm_compute; reflexivity | vm_compute; auto]. Qed.

(* find_member compares the escaped literal with the raw default: a default containing a quote in the
   middle is not mapped to its member *)
Theorem C09_default_member_refuted :
  exists l, parse_enum U0 enum_table C07.o_default TString None [JStr [97; 39; 98]] = Some l
            /\ find_member l (JStr [97; 39; 98]) = None.
Proof. eexists. split; vm_compute; reflexivity. Qed.

Example C09_find_member_plain :
  exists l, parse_enum U0 enum_table C07.o_default TString None [JStr [97]; JStr [98; 32; 99]] = Some l
            /\ find_member l (JStr [98; 32; 99]) = Some [98; 95; 99].
Proof. eexists. split; vm_compute; reflexivity. Qed.

Print Assumptions C09_members_legal_distinct.
Print Assumptions C09_values_preserved.
Print Assumptions C09_null_makes_optional.
Print Assumptions C09_literal_mode.
Print Assumptions C09_null_member_refuted.
Print Assumptions C09_default_member_refuted.
