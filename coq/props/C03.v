(* C03 - every instance valid under the schema is accepted by the generated model, and the members of a
   generated class carry the schema's member names as wire names.
   Only statements, instantiations and Print Assumptions here; proofs are in proofs/SchemaProofs.v
   (model: model/Schema.v, integer bounds from model/Constraints.v, member names from model/Ident.v).
   U0 holds the Unicode / keyword / BaseModel-attribute tables reflected on this run. *)
From DMCG Require Import Schema SchemaProofs IdentProofs ConstraintsProofs.
From Coq Require Import List ZArith NArith.
Import ListNotations.
Open Scope N_scope.

Theorem C03_tables_ok : utab_ok U0 = true.
Proof. vm_compute. reflexivity. Qed.

(* for every schema of the modelled sub-language (typed scalars with integer and number bounds in either
   draft style, string lengths, string enums, [T, null], arrays with item counts, maps, anyOf, objects with
   required / additionalProperties false, nested to any depth), every naming option vector that keeps
   aliases, both constraint styles and every JSON value: valid under the schema implies accepted by
   the generated model *)
Theorem C03_valid_accepted :
  forall o fc rq s p v,
    o_noalias o = false -> prefix_ok U0 (o_prefix o) = true ->
    supported s = true -> valid s v = true -> accepts (gen o fc rq p s) v = true.
Proof.
  intros o fc rq s p v Hno HP. apply accept_valid; [exact Hno|]. exact (names_total o C03_tables_ok HP).
Qed.

(* the members of a generated class: pairwise distinct python names, and read by wire name (alias,
   or the python name when there is no alias) they are exactly the schema's member names in order -
   so validating by alias and dumping by alias keeps every key *)
Theorem C03_wire_names :
  forall o fc rq props closed,
    o_noalias o = false -> prefix_ok U0 (o_prefix o) = true ->
    exists fields, gen o fc rq PTop (SObj props closed) = TModel fields closed
      /\ map (fun f => wire (fst f)) fields = map fst props
      /\ NoDup (map (fun f => f_py (fst f)) fields).
Proof. intros o fc rq props closed Hno HP. exact (model_wire_names o fc rq props closed Hno C03_tables_ok HP). Qed.

(* non-vacuity: the default options satisfy the hypotheses; a schema with renamed members, both draft
   styles, a nullable member, nested arrays and a union is supported, and a concrete instance is valid *)
Definition ex_schema : schema :=
  SObj [ (of_string "first-name", (true, SStr (Some 1) None));
         (of_string "class", (false, SNullable (SInt {| c_min := Some 2%Z; c_max := Some 20%Z; c_xmin := XBool true; c_xmax := XNone; c_mult := None |})));
         (of_string "tags", (true, SArr (SArr (SEnum [of_string "a"; of_string "b"]) (Some 1) None) None (Some 2)));
         (of_string "u", (false, SAny [SBool; SMap SNum])) ] true.
Definition ex_value : json :=
  VObj [ (of_string "tags", VArr [VArr [VStr (of_string "b")]]); (of_string "first-name", VStr (of_string "x"));
         (of_string "class", VNull); (of_string "u", VObj [(of_string "k", VInt 3%Z)]) ].
Example C03_hypotheses_hold :
  o_noalias schema_opts = false /\ prefix_ok U0 (o_prefix schema_opts) = true
  /\ supported ex_schema = true /\ valid ex_schema ex_value = true
  /\ accepts (gen schema_opts false false PTop ex_schema) ex_value = true.
Proof. vm_compute. repeat split; reflexivity. Qed.
Example C03_missing_required_rejected :
  accepts (gen schema_opts false false PTop ex_schema) (VObj [(of_string "first-name", VStr (of_string "x"))]) = false.
Proof. vm_compute. reflexivity. Qed.

Print Assumptions C03_tables_ok.
Print Assumptions C03_valid_accepted.
Print Assumptions C03_wire_names.
