(* C06 - each named schema yields exactly one model and every reference lands on it.
   The theorems cover the name-uniqueness loop of ModelResolver and get_relative_path; that every $ref
   is rendered as the class generated for precisely the referenced subschema is decided per document
   by the fingerprinting falsifier (see DESIGN.md, C06 residual). *)
From DMCG Require Import Resolver ResolverProofs.
Open Scope N_scope.

(* _get_unique_name terminates within |taken|+1 rounds and returns a name that is not taken, which is
   the requested name or the requested name plus a number - for every name, every set of taken names,
   both suffix styles *)
Theorem C06_unique_name_terminates_fresh :
  forall camel name taken,
    exists r, get_unique_name (Datatypes.S (List.length taken)) camel name taken = Some r
              /\ mem_str r taken = false
              /\ (r = name \/ exists k, r = ucand camel name k).
Proof. exact get_unique_name_total. Qed.

(* distinct entries get distinct names: names handed out one after the other against the names
   already taken are pairwise distinct and avoid every name taken before - in every order of entries *)
Theorem C06_names_distinct :
  forall camel names taken,
    exists l, assign_unique camel taken names = Some l
      /\ List.length l = List.length names /\ NoDup l /\ (forall x, In x l -> ~ In x taken).
Proof. exact assign_unique_distinct. Qed.

(* relative file references: following get_relative_path(base, target) from base leads to target,
   for all absolute paths *)
Theorem C06_relative_path_roundtrip :
  forall b t, apply_rel b (grp b t false) = t.
Proof. exact relative_path_roundtrip. Qed.

Example C06_collision_names :
  assign_unique true [] [of_string "Pet"; of_string "Pet"; of_string "Pet1"; of_string "Pet"]
  = Some [of_string "Pet"; of_string "Pet1"; of_string "Pet11"; of_string "Pet2"].
Proof. vm_compute. reflexivity. Qed.

Print Assumptions C06_unique_name_terminates_fresh.
Print Assumptions C06_names_distinct.
Print Assumptions C06_relative_path_roundtrip.
