(* C17 - the shape of a GraphQL schema is mirrored by the generated models.
   Theorems about the wrapper-chain unrolling of parse_field on top of the TypeHint model; the member
   lists, enums, unions, scalars and base classes are compared with graphql-core by the falsifier. *)
From DMCG Require Import Gql GqlProofs.
Open Scope N_scope.

(* for every chain of NonNull / List wrappers over a named type (other than Any) and every spelling:
   the rendered annotation has exactly the GraphQL type's list nesting depth and the same nullability
   at every level *)
Theorem C17_list_nesting_and_nullability :
  forall o t, names_ok t = true -> den_hint (type_hint o (field_dt t)) = Some (den_gql t).
Proof. exact field_shape. Qed.

(* a non-null field is required, a nullable one is not (without force-optional) *)
Theorem C17_required_iff_non_null :
  forall t, (forall x, t <> GNonNull (GNonNull x)) -> field_required false t = outer_nonnull t.
Proof. exact required_iff_nonnull. Qed.

Example C17_nested :
  let t := GNonNull (GList (GList (GNonNull (GNamed (of_string "Int"))))) in
  render {| uo := false; sc := false; gc := false |} (field_dt t) = of_string "List[Optional[List[Int]]]"
  /\ field_required false t = true
  /\ render {| uo := true; sc := true; gc := false |} (field_dt (GList (GNamed (of_string "B")))) = of_string "list[B | None] | None".
Proof. vm_compute. repeat split. Qed.

Print Assumptions C17_list_nesting_and_nullability.
Print Assumptions C17_required_iff_non_null.
