(* C11 - no model is lost or duplicated and eager dependencies are defined first.
   Statements only; proofs in proofs/SortProofs.v.  The model (model/SortModels.v) has exactly the
   bounds the code has after the bounded-loop fix, so it is a total function: ordering terminates for
   every dependency graph by construction (structural recursion on the model list, the recursion
   budget and the pass bound). *)
From Coq Require Import Permutation.
From DMCG Require Import SortModels SortProofs SortBasesProofs.
Open Scope N_scope.

(* the emitted models are exactly the models handed in, each once - for every finite graph with two
   edge kinds, every input order and every recursion budget; when the function reports an error
   (None) nothing is claimed, which is the property's "reported error" branch *)
Theorem C11_permutation :
  forall budget ms s u, sort_data_models budget ms = Some (s, u) -> Permutation s ms.
Proof. exact sort_permutation. Qed.

(* every emitted model either has all classes it refers to (bases and member types, itself included)
   strictly before it, or is on the list of models that get a forward-reference resolution call *)
Theorem C11_forward_refs_updated :
  forall budget ms s u, sort_data_models budget ms = Some (s, u) ->
    forall l1 m l2, s = l1 ++ m :: l2 ->
      (forall r, In r (rcs m) -> memN r (keys l1) = true) \/ In (n_path m) u.
Proof. exact sort_forward_refs_updated. Qed.

(* eager dependencies first: every emitted model has each of its base classes - other than itself, among
   the models handed in - strictly before it, for every finite graph with pairwise distinct paths in
   which no model is its own base, every input order and every recursion budget.  (For the models the
   circular phase places, this is the fix-point of the stable sort on the position of the last base.) *)
Theorem C11_bases_first :
  forall budget ms s u,
    NoDup (keys ms) -> (forall m, In m ms -> ~ In (n_path m) (n_bases m)) ->
    sort_data_models budget ms = Some (s, u) ->
    forall l1 m l2, s = l1 ++ m :: l2 ->
      forall b, In b (n_bases m) -> b <> n_path m -> In b (keys ms) -> In b (keys l1).
Proof. exact sort_bases_first. Qed.

(* non-vacuity and the shapes named in the property, by evaluation *)
Definition nd p b r := {| n_path := p; n_bases := b; n_refs := r |}.
Example C11_self_mutual_diamond_cycle :
  (* self loop *) option_map (fun x => (keys (fst x), snd x)) (sort_data_models 1000 [nd 1 [] [1]]) = Some ([1], [1])
  (* order [B, A], A -> {A, B}, B -> {A}: both are updated (was a finding before the fix) *)
  /\ option_map (fun x => (keys (fst x), snd x)) (sort_data_models 1000 [nd 2 [] [1]; nd 1 [] [1; 2]]) = Some ([2; 1], [2; 1])
  (* diamond given most-derived first *)
  /\ option_map (fun x => keys (fst x)) (sort_data_models 1000 [nd 4 [2; 3] []; nd 2 [1] []; nd 3 [1] []; nd 1 [] []]) = Some [1; 2; 3; 4]
  (* inheritance chain inside a member cycle, most-derived first: bases still first *)
  /\ option_map (fun x => keys (fst x)) (sort_data_models 1000 [nd 3 [2] []; nd 2 [1] []; nd 1 [] [3]]) = Some [1; 2; 3]
  (* circular base classes: reported as an error, not a hang *)
  /\ sort_data_models 1000 [nd 1 [2] []; nd 2 [1] []] = None.
Proof. vm_compute. repeat split. Qed.

Print Assumptions C11_permutation.
Print Assumptions C11_forward_refs_updated.
Print Assumptions C11_bases_first.
