(* C16 - a model inferred from sample data accepts that sample.
   Statements only; proofs in proofs/InferProofs.v (model of the genson package: model/Infer.v) and
   proofs/SchemaProofs.v (generated class tree: model/Schema.v). *)
From DMCG Require Import Infer InferProofs Schema SchemaProofs IdentProofs.
From Coq Require Import List ZArith NArith.
Import ListNotations.
Open Scope N_scope.

(* for every JSON value (any nesting, nulls, empty containers, heterogeneous arrays, numbers of either
   kind, any keys): the schema inferred from it admits it *)
Theorem C16_inferred_schema_admits_sample : forall d, valid (to_schema (infer d)) d = true.
Proof. exact infer_valid. Qed.

(* and a schema inferred from several samples still admits the earlier ones *)
Theorem C16_merging_keeps_earlier_samples : forall d1 d2, valid (to_schema (add d2 (infer d1))) d1 = true.
Proof. exact infer_monotone. Qed.

(* the inferred schema is always inside the sub-language of the class-tree model ... *)
Theorem C16_inferred_schema_supported : forall d, supported (to_schema (infer d)) = true.
Proof. exact infer_supported. Qed.

(* ... so the class tree generated for it accepts the sample: for every sample, every naming option
   vector that keeps aliases, both constraint styles and either treatment of required nullable members *)
Theorem C16_tables_ok : utab_ok U0 = true.
Proof. vm_compute. reflexivity. Qed.
Theorem C16_generated_model_accepts_sample :
  forall o fc rq d, o_noalias o = false -> prefix_ok U0 (o_prefix o) = true ->
    accepts (gen o fc rq PTop (to_schema (infer d))) d = true.
Proof.
  intros o fc rq d Hno HP. apply accept_valid; [exact Hno|exact (names_total o C16_tables_ok HP)| |].
  - apply infer_supported.
  - apply infer_valid.
Qed.

(* the members of the generated root class carry the sample's keys as wire names *)
Theorem C16_root_keys :
  forall o fc rq props closed, o_noalias o = false -> prefix_ok U0 (o_prefix o) = true ->
    exists fields, gen o fc rq PTop (SObj props closed) = TModel fields closed
      /\ map (fun f => wire (fst f)) fields = map fst props.
Proof.
  intros o fc rq props closed Hno HP.
  destruct (model_wire_names o fc rq props closed Hno C16_tables_ok HP) as [fields [E [W _]]]. eauto.
Qed.

Example C16_infer_example :
  show_schema (to_schema (infer (VObj [(of_string "a", VArr [VInt 1%Z; VNull; VStr (of_string "x")]); (of_string "b", VObj []);
                                      (of_string "c", VArr [VObj [(of_string "k", VInt 1%Z)]; VObj [(of_string "k", VNull); (of_string "j", VFlt 5%Z)]])])))
  = of_string "J 0 3 97 1 A ~ ~ ? U 2 I ~ ~ ~ ~ ~ S ~ ~ 98 1 M Y 99 1 A ~ ~ J 0 2 107 1 ? I ~ ~ ~ ~ ~ 106 0 N".
Proof. vm_compute. reflexivity. Qed.

Print Assumptions C16_inferred_schema_admits_sample.
Print Assumptions C16_merging_keeps_earlier_samples.
Print Assumptions C16_inferred_schema_supported.
Print Assumptions C16_tables_ok.
Print Assumptions C16_generated_model_accepts_sample.
Print Assumptions C16_root_keys.
