(* C15 - equivalent inputs produce the same models.
   Statements only; proofs in proofs/SchemaProofs.v and proofs/ConstraintsProofs.v.  InputTables holds
   the definition-set paths and the input-type inference steps reflected from the source on this run.
   JSON text versus the equivalent YAML text is not a theorem: the loader is PyYAML (C extension or
   pure Python), compared with json.loads by the correspondence check only. *)
From Coq Require Import String List.
From DMCG Require Import Constraints ConstraintsProofs Schema SchemaProofs InputTables.
Import ListNotations.

(* draft-4 boolean exclusive flags or the equivalent numeric form: for every schema of the modelled
   sub-language (flags anywhere, independently per bound, nested to any depth), every naming option
   vector, both constraint styles and every position, the generated class tree is the same *)
Theorem C15_draft_spelling_same_tree :
  forall o fc rq s p, gen o fc rq p (to_d6 s) = gen o fc rq p s.
Proof. exact gen_draft_invariant. Qed.

(* the record-level facts behind it: the three flag combinations normalise to their numeric form, and
   normalising is idempotent *)
Theorem C15_draft4_draft6_records :
  forall mn mx mu,
  cnormalize {| c_min := Some mn; c_max := Some mx; c_xmin := XBool true; c_xmax := XBool true; c_mult := mu |}
  = cnormalize {| c_min := None; c_max := None; c_xmin := XNum mn; c_xmax := XNum mx; c_mult := mu |}
  /\ cnormalize {| c_min := Some mn; c_max := Some mx; c_xmin := XBool false; c_xmax := XBool false; c_mult := mu |}
     = cnormalize {| c_min := Some mn; c_max := Some mx; c_xmin := XNone; c_xmax := XNone; c_mult := mu |}
  /\ cnormalize {| c_min := Some mn; c_max := Some mx; c_xmin := XBool true; c_xmax := XBool false; c_mult := mu |}
     = cnormalize {| c_min := None; c_max := Some mx; c_xmin := XNum mn; c_xmax := XNone; c_mult := mu |}.
Proof. exact draft4_draft6_same. Qed.
Theorem C15_normalize_idempotent :
  forall c c', cnormalize c = Some c' -> cnormalize c' = Some c'.
Proof. exact cnormalize_idem. Qed.

(* where definition sets are looked up: both JSON Schema keys are walked, OpenAPI walks
   components.schemas, and the raw loop of the OpenAPI parser reads the same two keys; the input type
   is inferred by testing for OpenAPI first, then JSON Schema, then raw data (reflected tables) *)
Definition smem (x : string) (l : list string) : bool := existsb (String.eqb x) l.
Theorem C15_definition_paths :
  smem "#/definitions" js_schema_paths = true /\ smem "#/$defs" js_schema_paths = true
  /\ oa_schema_paths = ["#/components/schemas"]%string /\ oa_raw_keys = ["components"; "schemas"]%string.
Proof. vm_compute. repeat split; reflexivity. Qed.
Theorem C15_inference_order :
  infer_steps = ["is_openapi(text) -> InputFileType.OpenAPI"; "is_schema(text) -> InputFileType.JsonSchema"; "InputFileType.Json"]%string.
Proof. vm_compute. reflexivity. Qed.

Example C15_to_d6_changes_something :
  to_d6 (SInt {| c_min := Some 2%Z; c_max := Some 20%Z; c_xmin := XBool true; c_xmax := XBool false; c_mult := None |})
  = SInt {| c_min := None; c_max := Some 20%Z; c_xmin := XNum 2%Z; c_xmax := XNone; c_mult := None |}.
Proof. vm_compute. reflexivity. Qed.

Print Assumptions C15_draft_spelling_same_tree.
Print Assumptions C15_draft4_draft6_records.
Print Assumptions C15_normalize_idempotent.
Print Assumptions C15_definition_paths.
Print Assumptions C15_inference_order.
