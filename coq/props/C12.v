(* C12 - in multi-module output every cross-module reference resolves inside the package.
   Statements only; proofs in proofs/RelativeProofs.v. *)
From DMCG Require Import Relative RelativeProofs Layout LayoutProofs.
Open Scope N_scope.

(* For every importing module path, every referenced module path and class name, both import styles,
   member and base-class references, plain modules and package __init__ files: what the generator
   writes (from-part, import-part, qualified use) resolves by Python's relative import rule to
   exactly <referenced module>.<class>, provided the pair is inside the guard (partial: the guard
   excludes a package __init__ importing from one of its own descendants, and the exact / base-class
   form pointing at a class that lives in an ancestor package's __init__). *)
Theorem C12_resolves_partial :
  forall use_exact is_base init cur rp name w,
    written use_exact is_base init cur rp name = Some w ->
    guard use_exact is_base init cur rp = true ->
    resolve_use (package_of init cur) w = Some (rp ++ [name]).
Proof. exact written_resolves. Qed.

(* the full statement is false of the faithful model: both excluded classes fail *)
Theorem C12_init_descendant_refuted :
  exists cur rp name w, written false false true cur rp name = Some w
    /\ resolve_use (package_of true cur) w <> Some (rp ++ [name]).
Proof. exists [1], [1; 2], 9. eexists. split; [reflexivity|]. vm_compute. discriminate. Qed.

Theorem C12_exact_ancestor_refuted :
  exists cur rp name w, written true false false cur rp name = Some w
    /\ resolve_use (package_of false cur) w <> Some (rp ++ [name]).
Proof. exists [1; 3], [1], 9. eexists. split; [reflexivity|]. vm_compute. discriminate. Qed.

(* a module that has a strict descendant among the module keys is written as a package __init__,
   so the situation "importer is a plain module and the reference is below it" cannot arise *)
Theorem C12_descendant_forces_init :
  forall M cur rp, In rp M -> strict_prefix cur rp = true -> cur <> [] -> is_init M cur = true.
Proof.
  intros M cur rp HIn HS Hne. unfold is_init. destruct cur; [congruence|].
  apply existsb_exists. exists rp. split; assumption.
Qed.

(* a module key is written either as <m>.py or as <m>/__init__.py, never both: a plain file means
   no module lies strictly below it, i.e. no directory <m>/ is created for a descendant *)
Theorem C12_no_file_dir_shadow :
  forall M m, is_init M m = false -> m <> [] -> forall m', In m' M -> strict_prefix m m' = false.
Proof.
  intros M m H Hne m' HIn. unfold is_init in H. destruct m; [congruence|].
  destruct (strict_prefix (n :: m) m') eqn:E; [|reflexivity].
  assert (existsb (strict_prefix (n :: m)) M = true) as X by (apply existsb_exists; exists m'; split; assumption).
  congruence.
Qed.

(* The two statements above are about the idealised rule is_init ("a key with a descendant is a package").  The
   generator's own procedure is Layout.layout (deepest key first, packages between two consecutively processed
   keys visited too, a key is a package iff its directory was registered before it is reached); it is tied to the
   code by the layout correspondence.  For that procedure: a key with a key exactly one level below it among
   the module keys is written as a package, for every set of module keys ... *)
Theorem C12_child_makes_package :
  forall M m c, In m M -> In c M -> c <> [] -> lay_parent c = m -> m <> [] ->
    lookup_pkg (layout M) m = Some true.
Proof. exact child_makes_package. Qed.

(* ... hence no module file is shadowed by a directory whenever every key that has a descendant also has a child
   among the keys (partial: the premise is what the generator's procedure needs) ... *)
Theorem C12_layout_no_shadow_partial :
  forall M, child_closed M -> layout_sound M = true.
Proof. exact child_closed_sound. Qed.

(* ... a key with no key strictly below it is a plain module file, for every key set; so on child-closed key sets the
   generator's layout IS the idealised rule, and C12_descendant_forces_init / C12_no_file_dir_shadow speak about it *)
Theorem C12_leaf_is_module :
  forall M m, In m M -> m <> [] -> existsb (strict_prefix m) M = false -> lookup_pkg (layout M) m = Some false.
Proof. exact leaf_is_module. Qed.

Theorem C12_layout_is_init_partial :
  forall M m, child_closed M -> In m M -> m <> [] -> lookup_pkg (layout M) m = Some (is_init M m).
Proof. exact layout_is_init. Qed.

(* ... and the full statement is false of the faithful model: a, a.b.c and an unrelated x.y leave a as a.py next
   to the directory a/ (known finding C12-shadow; with x in place of x.y the package a.b is visited and a is a
   package, LayoutProofs.layout_between_example) *)
Theorem C12_layout_shadow_refuted :
  exists M m m', In m M /\ In m' M /\ strict_prefix m m' = true /\ lookup_pkg (layout M) m = Some false.
Proof. exists [[1]; [1; 2; 3]; [4; 5]], [1], [1; 2; 3]. exact layout_shadow_witness. Qed.

Example C12_child_closed_example :
  layout_sound [[1]; [1; 2]; [1; 2; 3]; [4; 5]; []] = true /\ lookup_pkg (layout [[1]; [1; 2]; [4]]) [1] = Some true.
Proof. vm_compute. split; reflexivity. Qed.

(* non-vacuity: sibling, cousin, ancestor and root references are inside the guard *)
Example C12_guard_examples :
  guard false false false [1; 2] [1; 3] = true /\ guard true false false [1; 2; 4] [3; 5] = true
  /\ guard false false true [1; 2] [1] = true /\ guard false true false [] [1; 2] = true
  /\ written false false false [1; 2] [1; 3] 9 = Some ({| i_dots := 1; i_extra := []; i_right := 3 |}, [3; 9]).
Proof. vm_compute. repeat split. Qed.

Print Assumptions C12_resolves_partial.
Print Assumptions C12_init_descendant_refuted.
Print Assumptions C12_exact_ancestor_refuted.
Print Assumptions C12_descendant_forces_init.
Print Assumptions C12_no_file_dir_shadow.
Print Assumptions C12_child_makes_package.
Print Assumptions C12_layout_no_shadow_partial.
Print Assumptions C12_layout_shadow_refuted.
Print Assumptions C12_leaf_is_module.
Print Assumptions C12_layout_is_init_partial.
