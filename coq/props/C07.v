(* C07 - member names are legal identifiers and wire names are preserved.
   Only statements, instantiations and Print Assumptions here; proofs are in proofs/IdentProofs.v.
   U0 holds the tables reflected from /repo and the running CPython on this run. *)
From DMCG Require Import IdentInst IdentProofs.
Open Scope N_scope.

(* table obligations, decided by computation on the reflected tables: _ and the digits are identifier
   characters, start characters are continue characters, lower/upper keep identifier-ness (and
   start-ness) of every character, no keyword or BaseModel attribute ends with a digit, and adding _
   to a keyword or to a BaseModel attribute never gives a BaseModel attribute *)
Theorem C07_tables_ok : utab_ok U0 = true.
Proof. vm_compute. reflexivity. Qed.

(* for every string, every option vector with a sane special prefix, every resolver kind and every
   excludes set: the call terminates within |excludes|+2 retries (never IndexError, never out of fuel)
   and the result is an identifier, not a keyword, not excluded, does not start with an underscore,
   is not a BaseModel attribute (pydantic resolver) and is not mro (enum resolver) *)
Theorem C07_terminates_legal_fresh :
  forall kd o excl ign name,
    prefix_ok U0 (o_prefix o) = true ->
    exists r, get_valid_name U0 (2 + List.length excl) kd o excl ign name = Ok r
      /\ legal U0 r = true
      /\ mem_str r excl = false
      /\ hd_is (N.eqb c_us) r = false
      /\ (kd = Pyd -> o_cap o = false -> mem_str r (u_attrs U0) = false)
      /\ (kd = Enm -> str_eqb r s_mro = false).
Proof. exact (gvn_total U0 C07_tables_ok). Qed.

(* whenever the identifier differs from the original name, the original is kept as alias *)
Theorem C07_alias_kept :
  forall kd o aliases excl field,
    prefix_ok U0 (o_prefix o) = true ->
    exists v a, field_name_and_alias U0 (2 + List.length excl) kd o aliases excl field = Ok2 v a
      /\ (o_noalias o = false -> v <> field -> a = Some field)
      /\ (a = None \/ a = Some field)
      /\ (assoc_str aliases field = None ->
          legal U0 v = true /\ mem_str v excl = false /\ hd_is (N.eqb c_us) v = false).
Proof. exact (fna_alias U0 C07_tables_ok). Qed.

(* the members of one class get pairwise distinct legal names, each with its wire name as alias *)
Theorem C07_class_names_distinct :
  forall kd o fields excl,
    prefix_ok U0 (o_prefix o) = true ->
    exists l, assign_names U0 kd o [] excl fields = Some l
      /\ List.length l = List.length fields
      /\ NoDup (map fst l)
      /\ (forall v, In v (map fst l) -> ~ In v excl /\ legal U0 v = true)
      /\ (forall f v a, In (f, (v, a)) (combine fields l) -> o_noalias o = false -> v <> f -> a = Some f).
Proof. exact (fun kd o fields excl => assign_names_nodup U0 C07_tables_ok kd o fields excl). Qed.

(* non-vacuity: the default prefix satisfies the hypothesis, and hard names evaluate as expected *)
Definition o_default : opts :=
  {| o_snake := false; o_delim := None; o_prefix := (of_string "field"); o_remove := false; o_cap := false;
     o_noalias := false; o_empty := [] |}.
Example C07_prefix_ok_default : prefix_ok U0 (o_prefix o_default) = true.
Proof. vm_compute. reflexivity. Qed.
Example C07_circled_one :
  get_valid_name U0 2 Pyd o_default [] false [9312] = Ok ((of_string "field_")).
Proof. vm_compute. reflexivity. Qed.
Example C07_class_keyword_collision :
  assign_names U0 Pyd o_default [] [] [(of_string "class"); (of_string "class_"); (of_string "1a")]
  = Some [((of_string "class_"), Some ((of_string "class"))); ((of_string "class__1"), Some ((of_string "class_"))); ((of_string "field_1a"), Some ((of_string "1a")))].
Proof. vm_compute. reflexivity. Qed.

Print Assumptions C07_tables_ok.
Print Assumptions C07_terminates_legal_fresh.
Print Assumptions C07_alias_kept.
Print Assumptions C07_class_names_distinct.
