From DMCG Require Import IdentInst.
Theorem C07_stub : True. Proof. exact I. Qed.
Print Assumptions C07_stub.
