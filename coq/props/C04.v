(* C04 - constraints stated in the schema are enforced by the generated model.
   The numeric core is proved (model/Constraints.v); the keyword tables are reflected from the two
   DataTypeManager classes on every run; whole schemas are compared through the JSON Schema pydantic
   reports (falsifier). *)
From Coq Require Import String.
From DMCG Require Import Constraints ConstraintsProofs ConstraintTables Schema SchemaProofs IdentProofs.
From Coq Require Import List.
Import ListNotations.
Open Scope Z_scope.

(* for every record of numeric constraints with whole-number bounds, in either draft style, and every
   integer instance: the keyword arguments written into conint(...) / Field(...) accept the instance
   exactly when the schema does - nothing is lost, nothing is added *)
Theorem C04_bounds_enforced :
  forall c c' v, cnormalize c = Some c' -> integral c = true ->
    sat_model (ctranslate c') v = sat_schema c v.
Proof. exact constraints_preserved. Qed.

(* the pre-validator that rewrites draft-4 booleans never changes what a record means *)
Theorem C04_normalize_preserves_meaning :
  forall c c' v, cnormalize c = Some c' -> sat_schema c' v = sat_schema c v.
Proof. exact normalize_preserves_meaning. Qed.

(* the full statement is false for non-integral bounds on an integer member: minimum 1.5 becomes
   ge=1 (int() truncates), so 1 is accepted although the schema rejects it *)
Theorem C04_truncation_refuted :
  exists c c' v, cnormalize c = Some c' /\ sat_schema c v = false /\ sat_model (ctranslate c') v = true.
Proof.
  exists {| c_min := Some 3; c_max := None; c_xmin := XNone; c_xmax := XNone; c_mult := None |}.
  eexists. exists 1. split; [reflexivity|]. split; reflexivity.
Qed.

(* every schema keyword of the property is mapped to the model keyword that enforces it, in both
   pydantic generations (tables reflected from the source) *)
Theorem C04_keyword_tables : kw_table_ok kw_table_v1 = true /\ kw_table_ok kw_table_v2 = true.
Proof. vm_compute. split; reflexivity. Qed.

(* and the numeric / string keyword filters let every such keyword through *)
Theorem C04_keyword_filters :
  forallb (fun k => smem k number_kwargs) ["minimum"; "maximum"; "exclusiveMinimum"; "exclusiveMaximum"; "multipleOf"]%string = true
  /\ forallb (fun k => smem k string_kwargs) ["minLength"; "maxLength"; "pattern"]%string = true.
Proof. vm_compute. split; reflexivity. Qed.

(* whole schemas (model/Schema.v): on the strict sub-language - no item counts below member level unless
   the field-constraints style is used - everything the generated model accepts is valid under the
   schema, up to the one relaxation the property allows (null for a member that is not required) *)
Theorem C04_tables_ok : utab_ok U0 = true.
Proof. vm_compute. reflexivity. Qed.
Theorem C04_invalid_rejected :
  forall o fc rq s p v,
    o_noalias o = false -> prefix_ok U0 (o_prefix o) = true ->
    supported s = true -> strict fc p s = true ->
    accepts (gen o fc rq p s) v = true -> valid_relaxed s v = true.
Proof.
  intros o fc rq s p v Hno HP. apply reject_invalid; [exact Hno|]. exact (names_total o C04_tables_ok HP).
Qed.
(* outside the strict sub-language the statement is false of the model of the code as it is: the item
   count of an array inside an array is not written in the constrained-type style (known finding) *)
Theorem C04_nested_counts_refuted :
  exists s v, supported s = true /\ valid_relaxed s v = false /\ accepts (gen schema_opts false false PTop s) v = true.
Proof.
  exists (SObj [(of_string "m", (true, SArr (SArr SBool (Some 2%N) None) None None))] false).
  exists (VObj [(of_string "m", VArr [VArr [VBool true]])]).
  vm_compute. repeat split; reflexivity.
Qed.
Example C04_strict_nonvacuous :
  strict false PTop (SObj [(of_string "m", (true, SArr (SArr SBool None None) (Some 1%N) (Some 3%N)))] true) = true
  /\ strict true PTop (SObj [(of_string "m", (true, SArr (SArr SBool (Some 2%N) None) None None))] false) = true.
Proof. vm_compute. split; reflexivity. Qed.
Example C04_integral_nonvacuous :
  integral {| c_min := Some 2; c_max := Some 20; c_xmin := XBool true; c_xmax := XNone; c_mult := Some 5 |} = true.
Proof. reflexivity. Qed.

Print Assumptions C04_bounds_enforced.
Print Assumptions C04_normalize_preserves_meaning.
Print Assumptions C04_truncation_refuted.
Print Assumptions C04_keyword_tables.
Print Assumptions C04_keyword_filters.
Print Assumptions C04_tables_ok.
Print Assumptions C04_invalid_rejected.
Print Assumptions C04_nested_counts_refuted.
