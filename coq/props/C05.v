(* C05 - required, nullable and default semantics of each member are carried over.
   field_table is regenerated on every run by rendering the real field classes and class templates
   of /repo for every member-level flag vector (3 312 cells); flags_of is the model of how the parser
   fills those flags from the schema and the options. *)
From DMCG Require Import FieldSem FieldTable.
Open Scope N_scope.

(* every (model type, member state, option vector) has a rendered cell *)
Theorem C05_table_total :
  check_all field_table (fun _ _ _ r => match r with Some _ => true | None => false end) = true.
Proof. vm_compute. reflexivity. Qed.

(* inside the guard the statement holds for all 5 model types x 48 member states x 128 option vectors:
   required-without-default must be supplied; a non-required member may be omitted and reads None /
   absent or the schema default; a member whose schema admits null accepts null (partial: the guard
   excludes four classes, each refuted below and listed as a known finding) *)
Theorem C05_holds_on_guard :
  check_all field_table (fun k m o r =>
    match r with Some r => negb (guard k m o) || c05_ok k m o r | None => false end) = true.
Proof. vm_compute. reflexivity. Qed.

Definition mk r d t n := {| m_required := r; m_dflt := d; m_type_null := t; m_nullable_kw := n; m_constr := false |}.
Definition o0 := {| o_strict := false; o_force := false; o_usedef := false; o_sdn := false; o_ua := false; o_fc := false; o_udk := false |}.

(* G1: a required member of type [T, null] is not required in pydantic v2 output (= None is emitted) *)
Theorem C05_required_nullable_refuted :
  exists r, lookup field_table (cell_key (flags_of KV2 (mk true DNo true false) o0)) = Some r
            /\ c05_ok KV2 (mk true DNo true false) o0 r = false.
Proof. eexists. split; [vm_compute; reflexivity | vm_compute; reflexivity]. Qed.

(* G2: nullable: true without --strict-nullable on a required member: the hint does not admit None *)
Theorem C05_nullable_keyword_refuted :
  exists r, lookup field_table (cell_key (flags_of KV2 (mk true DNo false true) o0)) = Some r
            /\ c05_ok KV2 (mk true DNo false true) o0 r = false.
Proof. eexists. split; [vm_compute; reflexivity | vm_compute; reflexivity]. Qed.

(* G3: --strip-default-none makes a non-required member required in pydantic v2 output *)
Theorem C05_strip_default_none_refuted :
  exists r, lookup field_table (cell_key (flags_of KV2 (mk false DNo false false)
              {| o_strict := false; o_force := false; o_usedef := false; o_sdn := true; o_ua := false; o_fc := false; o_udk := false |})) = Some r
            /\ required_rt KV2 r = true.
Proof. eexists. split; [vm_compute; reflexivity | vm_compute; reflexivity]. Qed.

Example C05_guard_nonvacuous :
  guard KV2 (mk true DNo false false) o0 = true /\ guard KV1 (mk false DVal true false) o0 = true
  /\ guard KTD (mk false DNo true false) o0 = true.
Proof. vm_compute. repeat split. Qed.

Print Assumptions C05_table_total.
Print Assumptions C05_holds_on_guard.
Print Assumptions C05_required_nullable_refuted.
Print Assumptions C05_nullable_keyword_refuted.
Print Assumptions C05_strip_default_none_refuted.
