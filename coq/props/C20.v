(* C20 - a failed run leaves existing output untouched and the process where it was.
   generate_stmts / chdir_* are reflected from the AST of generate() and chdir() on every run. *)
From DMCG Require Import Atomic AtomicProofs AtomicTables.

(* For every interpretation of the statements of generate() that respects the frame condition
   (a statement classified as non-writing leaves the file system alone): if the run fails at
   statement j and no statement up to j writes, the file system is exactly what it was. *)
Theorem C20_fail_before_write_untouched :
  forall (world FS : Type) (fs : world -> FS) (sem : nat -> world -> world * bool),
    (forall i s w, nth_error generate_stmts i = Some s -> s_writes s = false -> fs (fst (sem i w)) = fs w) ->
    forall w w' j,
      run sem 0 generate_stmts w = (w', Some j) ->
      (forall k s, nth_error generate_stmts k = Some s -> k <= j -> s_writes s = false) ->
      fs w' = fs w.
Proof.
  intros world FS fs sem frame w w' j H Hw.
  exact (fail_before_write_untouched fs sem generate_stmts frame generate_stmts 0 w w' j (fun k s Hk => Hk) H Hw).
Qed.

(* the reflected statement list satisfies the discipline the theorem needs: no statement before the
   write loop writes (so every failure that generation itself can raise - parsing, resolving,
   "modular output needs a directory", reading the custom header - happens with the output untouched),
   inside the write loop only the write primitives are called, and nothing that can fail follows it *)
Theorem C20_write_discipline :
  write_discipline generate_stmts = true /\ after_loop_ok false generate_stmts = true.
Proof. vm_compute. split; reflexivity. Qed.

(* the working directory is restored on both outcomes *)
Theorem C20_cwd_restored :
  forall (world dir : Type) (cwd : world -> dir) (set_cwd : dir -> world -> world),
    (forall d w, cwd (set_cwd d w) = d) ->
    forall d body w, cwd (fst (with_chdir cwd set_cwd d body w)) = cwd w.
Proof. intros world dir cwd set_cwd gs d body w. exact (chdir_restores cwd set_cwd gs d body w). Qed.

(* and chdir() has the shape with_chdir models: it saves the real working directory and restores it
   in a finally clause *)
Theorem C20_chdir_shape : chdir_saves_real_cwd = true /\ chdir_restores_in_finally = true.
Proof. vm_compute. split; reflexivity. Qed.

Example C20_stmts_nonempty : Nat.ltb 10 (List.length generate_stmts) = true /\ existsb s_in_loop generate_stmts = true.
Proof. vm_compute. split; reflexivity. Qed.

Print Assumptions C20_fail_before_write_untouched.
Print Assumptions C20_write_discipline.
Print Assumptions C20_cwd_restored.
Print Assumptions C20_chdir_shape.
