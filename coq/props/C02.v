(* C02 - emitted modules execute: every name is bound before it is needed.
   This file holds the part of C02 that is logic of the Imports container (model/Imports.v); the
   binding analysis of whole modules is the executing falsifier's job (see DESIGN.md, C02 residual). *)
From Coq Require Import ZArith.
From DMCG Require Import Imports ImportsProofs HintImports HintImportsProofs HintImportTable.
Open Scope N_scope.

(* for every history of append / remove calls in which each remove matches a pair that is currently
   counted: a name is in the set of its from-fkey exactly when its counter is positive, no counter is
   negative, and a from-fkey is in the dict exactly when its set is non-empty *)
Theorem C02_imports_invariant :
  forall ops, ops_ok empty ops = true -> inv (run ops empty).
Proof. intros ops H. apply run_inv; [apply inv_empty | exact H]. Qed.

(* so dump never writes an import line without a name ("from x import" followed by nothing) *)
Theorem C02_no_empty_import_line :
  forall ops, ops_ok empty ops = true ->
    forall k l, In (k, l) (dump_lines (run ops empty)) -> l <> [].
Proof. intros ops H. apply dump_lines_nonempty. apply C02_imports_invariant. exact H. Qed.

(* an import that was appended more often than removed is still listed *)
Theorem C02_counted_is_listed :
  forall ops p, ops_ok empty ops = true ->
    has_pair (s_pairs (run ops empty)) p = Z.ltb 0 (cnt_of (s_cnt (run ops empty)) p).
Proof. intros ops p H. destruct (C02_imports_invariant ops H) as [I1 _]. apply I1. Qed.

Definition mk f n := {| i_from := Some (of_string f); i_name := of_string n; i_alias := None |}.
Example C02_history :
  let ops := [Append (mk "typing" "List"); Append (mk "typing" "Optional"); Append (mk "typing" "List");
              Remove (mk "typing" "List"); Remove (mk "typing" "Optional"); Append (mk "." "a"); Remove (mk "." "a")] in
  ops_ok empty ops = true
  /\ dump_lines (run ops empty) = [(Some (of_string "typing"), [(of_string "List", None)])].
Proof. vm_compute. split; reflexivity. Qed.

(* annotations and imports of one IR tree agree: for every type tree whose own names are not container
   names and every one of the 8 spellings, each typing / collections name the rendered annotation uses
   (List / Sequence / Set / FrozenSet / Dict / Mapping, Union, Literal) is among the imports the same
   tree yields.  The container names per spelling are a table reflected from the real DataType.imports
   on this run (table_ok: what is imported is what the annotation prints, or the name is a builtin).
   Optional is added at field level and is not part of this statement (known finding C02-optional-import). *)
Theorem C02_import_table_ok : table_ok hint_import_table = true.
Proof. vm_compute. reflexivity. Qed.
Theorem C02_hint_names_imported :
  forall o t, clean_dt t = true -> forall n, In n (needs o (type_hint o t)) -> In n (imports_of hint_import_table o t).
Proof. exact (hint_names_imported_all hint_import_table C02_import_table_ok). Qed.
Example C02_hint_names_nonvacuous :
  let t := DT None [DT (Some (of_string "int")) [] [] None false CSet; DT None [] [LStr (of_string "a")] None true CNone] [] None false CList in
  let o := {| uo := false; sc := true; gc := true |} in
  clean_dt t = true /\ needs o (type_hint o t) <> [].
Proof. vm_compute. split; [reflexivity|discriminate]. Qed.

Print Assumptions C02_imports_invariant.
Print Assumptions C02_no_empty_import_line.
Print Assumptions C02_counted_is_listed.
Print Assumptions C02_import_table_ok.
Print Assumptions C02_hint_names_imported.
