(* C02 - emitted modules execute: every name is bound before it is needed.
   This file holds the part of C02 that is logic of the Imports container (model/Imports.v); the
   binding analysis of whole modules is the executing falsifier's job (see DESIGN.md, C02 residual). *)
From Coq Require Import ZArith.
From DMCG Require Import Imports ImportsProofs.
Open Scope N_scope.

(* for every history of append / remove calls in which each remove matches a pair that is currently
   counted: a name is in the set of its from-fkey exactly when its counter is positive, no counter is
   negative, and a from-fkey is in the dict exactly when its set is non-empty *)
Theorem C02_imports_invariant :
  forall ops, ops_ok empty ops = true -> inv (run ops empty).
Proof. intros ops H. apply run_inv; [apply inv_empty | exact H]. Qed.

(* so dump never writes an import line without a name ("from x import" followed by nothing) *)
Theorem C02_no_empty_import_line :
  forall ops, ops_ok empty ops = true ->
    forall k l, In (k, l) (dump_lines (run ops empty)) -> l <> [].
Proof. intros ops H. apply dump_lines_nonempty. apply C02_imports_invariant. exact H. Qed.

(* an import that was appended more often than removed is still listed *)
Theorem C02_counted_is_listed :
  forall ops p, ops_ok empty ops = true ->
    has_pair (s_pairs (run ops empty)) p = Z.ltb 0 (cnt_of (s_cnt (run ops empty)) p).
Proof. intros ops p H. destruct (C02_imports_invariant ops H) as [I1 _]. apply I1. Qed.

Definition mk f n := {| i_from := Some (of_string f); i_name := of_string n; i_alias := None |}.
Example C02_history :
  let ops := [Append (mk "typing" "List"); Append (mk "typing" "Optional"); Append (mk "typing" "List");
              Remove (mk "typing" "List"); Remove (mk "typing" "Optional"); Append (mk "." "a"); Remove (mk "." "a")] in
  ops_ok empty ops = true
  /\ dump_lines (run ops empty) = [(Some (of_string "typing"), [(of_string "List", None)])].
Proof. vm_compute. split; reflexivity. Qed.

Print Assumptions C02_imports_invariant.
Print Assumptions C02_no_empty_import_line.
Print Assumptions C02_counted_is_listed.
