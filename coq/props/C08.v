(* C08 - output is a function of input and options only.
   A Gallina function is deterministic by construction; what is stated here are the three mechanisms
   by which the Python code could stop being one, each with the nuisance parameter explicit.
   Partial by nature: everything outside these mechanisms is only explored by the falsifier. *)
From Coq Require Import Permutation String.
From DMCG Require Import Memo MemoProofs DeterminismTables.

(* hash-seed dependent iteration: a set is a list under an arbitrary permutation; what is emitted
   after sorted() does not depend on the permutation *)
Theorem C08_sorted_emission_perm_invariant :
  forall s s' : list str, Permutation s s' -> ssort str_leb s = ssort str_leb s'.
Proof. exact str_sort_perm_invariant. Qed.

(* and the sites of the source that iterate such sets do go through sorted(): reflected from the AST
   of _resolve_unparsed_json_pointer, _parse_file, Imports._set_alias and generate() on every run *)
Theorem C08_emission_sites_sorted :
  forallb (fun s => snd s) set_emission_sites = true
  /\ Nat.leb 4 (List.length set_emission_sites) = true
  /\ directory_input_sorted = true.
Proof. vm_compute. repeat split. Qed.

(* process-wide memoisation keyed by the whole argument is observationally pure along every history *)
Theorem C08_memo_transparent :
  forall (K V : Type) (keq : K -> K -> bool) (f : K -> V),
    (forall a b, keq a b = true -> a = b) ->
    forall ks c, cache_ok f c -> run_memo keq f c ks = map f ks.
Proof. intros K V keq f H ks c. exact (memo_transparent keq f H ks c). Qed.

(* state shared between calls: main() parses into one module-level Namespace; the second call of this
   history sees an option that only the first call was given - refuted, a known finding *)
Theorem C08_main_history_refuted :
  exists calls, main_shared [] calls <> main_fresh calls.
Proof.
  exists [[(of_string "snake_case_field", of_string "True")]; []].
  vm_compute. discriminate.
Qed.

Print Assumptions C08_sorted_emission_perm_invariant.
Print Assumptions C08_emission_sites_sorted.
Print Assumptions C08_memo_transparent.
Print Assumptions C08_main_history_refuted.
