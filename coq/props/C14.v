(* C14 - representation-only options do not change what the models accept.
   Statements only; proofs in proofs/SchemaProofs.v (constraint style), proofs/KeepOrderProofs.v
   (keep_model_order).  The spelling options are the subject of C13's theorems (model/TypeHint.v). *)
From DMCG Require Import Schema SchemaProofs KeepOrder KeepOrderProofs.
From Coq Require Import List Permutation.
From DMCG Require TypeHint TypeDen HintImports SpellingProofs.
Import ListNotations.
Open Scope N_scope.

(* --field-constraints / --use-annotated: for every schema of the modelled sub-language on which the two
   styles have a place for every constraint (no item counts on an array that is itself an array item or
   a union member, no bounds on a scalar that is directly a map value), every naming option vector and
   every position, the generated class tree is the same in both styles *)
Theorem C14_constraint_style_same_tree :
  forall o rq s p, place_free p s = true -> gen o true rq p s = gen o false rq p s.
Proof. exact gen_fc_invariant. Qed.

(* outside that sub-language the statement is false of the code as it is: in the field-constraints style
   the bound of a map value is dropped, so the two styles accept different instances (known finding) *)
Theorem C14_constraint_style_refuted :
  exists s v, accepts (gen schema_opts true false PTop s) v = true /\ accepts (gen schema_opts false false PTop s) v = false.
Proof.
  exists (SObj [(of_string "m", (true, SMap (SInt {| c_min := Some 2%Z; c_max := None; c_xmin := XNone; c_xmax := XNone; c_mult := None |})))] false).
  exists (VObj [(of_string "m", VObj [(of_string "k", VInt 0%Z)])]).
  vm_compute. split; reflexivity.
Qed.

(* --keep-model-order: whenever the reordering terminates it returns the same classes, each once, and
   every class but the last has its base classes (other than itself) defined before it or imported *)
Theorem C14_keep_order_permutation :
  forall fuel imported ms r, keep_order fuel imported ms = Some r -> Permutation r ms.
Proof. exact keep_order_perm. Qed.
Theorem C14_keep_order_bases_first :
  forall fuel imported ms r, keep_order fuel imported ms = Some r -> bases_first imported (removelast r) = true.
Proof. exact keep_order_bases_first. Qed.

(* the collection-name options (--use-standard-collections, --use-generic-container-types) are representation only at
   the level of annotations, for EVERY IR tree whose own names are not container names: two option vectors that agree
   on the union style give annotations with the same spelling-free normal form (= C13_same_union_style_same_meaning) *)
Theorem C14_container_names_same_meaning :
  forall o1 o2 t, HintImports.clean_dt t = true -> TypeHint.uo o1 = TypeHint.uo o2 -> TypeDen.meaning o1 t = TypeDen.meaning o2 t.
Proof. exact SpellingProofs.meaning_same_union_style. Qed.

Example C14_place_free_nonvacuous :
  place_free PTop (SObj [(of_string "a", (true, SArr (SInt {| c_min := Some 2%Z; c_max := None; c_xmin := XNone; c_xmax := XNone; c_mult := None |}) (Some 1) (Some 3)));
                         (of_string "b", (false, SAny [SStr (Some 1) None; SMap SBool]))] true) = true.
Proof. vm_compute. reflexivity. Qed.
Example C14_keep_order_runs :
  option_map (map k_name) (keep_order 10 [] [ {| k_name := 1; k_bases := [3] |}; {| k_name := 2; k_bases := [] |}; {| k_name := 3; k_bases := [] |} ]) = Some [2; 3; 1].
Proof. vm_compute. reflexivity. Qed.

Print Assumptions C14_constraint_style_same_tree.
Print Assumptions C14_constraint_style_refuted.
Print Assumptions C14_keep_order_permutation.
Print Assumptions C14_keep_order_bases_first.
Print Assumptions C14_container_names_same_meaning.
