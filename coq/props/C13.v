(* C13 - type annotations are well-formed and mean the same in every spelling.
   Statements only; proofs in proofs/TypeHintProofs.v.  The tree model (model/TypeHint.v) is tied to
   DataType.type_hint by differential execution on real DataType objects. *)
From DMCG Require Import TypeHint TypeHintProofs TypeDen HintImports SpellingProofs.
From Coq Require Import List.
Import ListNotations.
Open Scope N_scope.

(* every annotation the printer can produce has balanced brackets, in all 8 spellings, for every hint
   tree whose atoms and literal texts contain no bracket *)
Theorem C13_brackets_balanced :
  forall o h, clean h = true -> balanced (show o h).
Proof. exact show_balanced. Qed.

(* operator spelling: None-removal leaves no None among the alternatives *)
Theorem C13_remove_none_op :
  forall h, rn_op h = HNone \/ count_none (chain (rn_op h)) = 0%nat.
Proof. exact rn_op_none_free. Qed.

(* operator spelling: making a type optional keeps exactly the non-None alternatives, in order, and
   mentions None exactly once (so wrapping twice can not produce a doubly wrapped optional) *)
Theorem C13_optional_keeps_alternatives_op :
  forall o h, uo o = true -> forallb (fun x => negb (is_hempty x)) (chain h) = true ->
    (forall x, In x (chain h) -> is_hnone x = true) /\ make_optional o h = HNone
    \/ chain (make_optional o h) = filter (fun x => negb (is_hnone x)) (chain h) ++ [HNone].
Proof. exact make_optional_op_alternatives. Qed.

Theorem C13_none_exactly_once_op :
  forall o h, uo o = true -> forallb (fun x => negb (is_hempty x)) (chain h) = true ->
    count_none (chain (make_optional o h)) = 1%nat.
Proof. exact make_optional_op_none_once. Qed.

(* the typing spelling refutes the statement: an optional node whose only child is optional is
   rendered with a doubly wrapped optional (the code only understands a Union[ prefix) *)
Definition o_typing := {| uo := false; sc := false; gc := false |}.
Definition o_op := {| uo := true; sc := false; gc := false |}.
Definition t_opt_opt := DT None [DT (Some (of_string "float")) [] [] None true CNone] [] None true CNone.
Theorem C13_double_optional_refuted :
  render o_typing t_opt_opt = of_string "Optional[Optional[float]]"
  /\ render o_op t_opt_opt = of_string "float | None".
Proof. vm_compute. split; reflexivity. Qed.

(* None three times in one union, typing spelling *)
Definition t_union_opts :=
  DT None [DT (Some (of_string "str")) [] [] None true CNone; DT (Some (of_string "int")) [] [] None true CNone] [] None true CNone.
Theorem C13_none_thrice_refuted :
  render o_typing t_union_opts = of_string "Optional[Union[Optional[str], Optional[int]]]"
  /\ render o_op t_union_opts = of_string "str | int | None".
Proof. vm_compute. split; reflexivity. Qed.

Example C13_container_spellings :
  let t := DT None [DT (Some (of_string "int")) [] [] None false CNone; DT (Some (of_string "str")) [] [] None false CNone] [] None true CList in
  render o_typing t = of_string "Optional[List[Union[int, str]]]"
  /\ render {| uo := true; sc := true; gc := false |} t = of_string "list[int | str] | None"
  /\ render {| uo := false; sc := false; gc := true |} t = of_string "Optional[Sequence[Union[int, str]]]".
Proof. vm_compute. repeat split. Qed.

(* "mean the same in every spelling", bounded: for each of the 12630 IR trees of the family in
   model/TypeDen.v (two atoms and a reference, optional flags anywhere, list / dict containers, unions
   of two or three members, nesting depth two) the annotation means the same - same container kinds,
   same set of alternatives, same may-be-None - in all 8 spellings.  The unbounded statement is not
   proved (the union branch dedupes on rendered text before None is stripped; see DESIGN 9.2). *)
Theorem C13_same_meaning_bounded :
  forallb same_in_all_spellings family = true /\ N.of_nat (List.length family) = 12630.
Proof. vm_compute. split; reflexivity. Qed.
(* "making a type optional keeps every non-None alternative", for every hint and BOTH union styles (the statements
   above are about the operator spelling only): alts h is the list of non-None alternatives of h, unions and
   Optional flattened, in order *)
Theorem C13_optional_keeps_alternatives :
  forall o h, alts (make_optional o h) = alts h.
Proof. exact make_optional_keeps_alternatives. Qed.

(* ... and at the level of the IR tree, for every tree and every spelling: the optional flag of a node adds None and
   nothing else to the rendered annotation *)
Theorem C13_optional_flag_keeps_alternatives :
  forall o typ children lits ref c,
    alts (type_hint o (DT typ children lits ref true c)) = alts (type_hint o (DT typ children lits ref false c)).
Proof. exact optional_flag_keeps_alternatives. Qed.

Example C13_alts_example :
  alts (HOpt (HUnion [HAtom sA; HNone; HUnion [HSub sB [HAtom sA]; HOpt (HAtom sR)]])) = [HAtom sA; HSub sB [HAtom sA]; HAtom sR].
Proof. reflexivity. Qed.

(* "does not depend on the spelling options", unbounded, for the container names: for EVERY IR tree whose own
   names (types, references, dict keys) are not container names, the annotation means the same with typing names,
   builtin names and abstract collection names - it equals the meaning under the default container spelling with the
   same union style.  (proofs/SpellingProofs.v: th o t is th o0 t up to a renaming of the three container heads
   that is injective on the hints that can occur, so every comparison the rendering makes has the same outcome.)
   What stays bounded is the other dimension, Optional/Union versus the | operator (C13_same_meaning_bounded). *)
Theorem C13_container_spelling_same_meaning :
  forall o t, clean_dt t = true -> meaning o t = meaning {| uo := uo o; sc := false; gc := false |} t.
Proof. exact meaning_container_spelling. Qed.

Theorem C13_same_union_style_same_meaning :
  forall o1 o2 t, clean_dt t = true -> uo o1 = uo o2 -> meaning o1 t = meaning o2 t.
Proof. exact meaning_same_union_style. Qed.

(* non-vacuity: the trees of the bounded family are clean, and a nested tree with a custom dict key *)
Example C13_clean_examples :
  forallb clean_dt family = true
  /\ clean_dt (DT None [DT (Some sA) [] [] None true (CDict (Some sB)); DT None [] [] (Some sR) false CSet] [] None true CList) = true.
Proof. vm_compute. split; reflexivity. Qed.

(* the normal form does distinguish meanings: Optional[int] vs int, List[int] vs int *)
Example C13_meaning_distinguishes :
  hint_eqb (meaning {| uo := true; sc := false; gc := false |} (DT (Some sA) [] [] None true CNone))
           (meaning {| uo := true; sc := false; gc := false |} (DT (Some sA) [] [] None false CNone)) = false
  /\ hint_eqb (meaning {| uo := false; sc := true; gc := false |} (DT (Some sA) [] [] None false CList))
              (meaning {| uo := false; sc := true; gc := false |} (DT (Some sA) [] [] None false CNone)) = false.
Proof. vm_compute. split; reflexivity. Qed.

Print Assumptions C13_brackets_balanced.
Print Assumptions C13_remove_none_op.
Print Assumptions C13_optional_keeps_alternatives_op.
Print Assumptions C13_none_exactly_once_op.
Print Assumptions C13_double_optional_refuted.
Print Assumptions C13_none_thrice_refuted.
Print Assumptions C13_same_meaning_bounded.
Print Assumptions C13_optional_keeps_alternatives.
Print Assumptions C13_optional_flag_keeps_alternatives.
Print Assumptions C13_container_spelling_same_meaning.
Print Assumptions C13_same_union_style_same_meaning.
