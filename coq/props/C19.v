(* C19 - output only uses what the chosen target Python version provides.
   stdlib_since (model/Version.v) is the hand-written specification; everything else is reflected
   from /repo on this run. *)
From DMCG Require Import Version VersionTables.
Open Scope string_scope.

(* the has_* predicates of PythonVersion agree with the language: PEP 604 unions and kw_only
   dataclasses from 3.10, typing.NotRequired from 3.11 - for every member of the enum *)
Theorem C19_predicates : predicates_ok version_rows = true.
Proof. vm_compute. reflexivity. Qed.

(* for every target version and every output model type: every import the model set selects
   (class defaults and what a non-required member needs, e.g. NotRequired) exists in that version *)
Theorem C19_selected_imports_exist : selection_ok selection = true.
Proof. vm_compute. reflexivity. Qed.

(* every import constant of the package that is used unconditionally exists in the oldest supported
   target; exempt: typing.NotRequired (selected per version, covered above) and typing.TypeAlias
   (partial: see the refutation below) *)
Theorem C19_constants_exist_partial :
  constants_ok (min_minor version_rows) [("typing", "NotRequired"); ("typing", "TypeAlias")] import_constants = true.
Proof. vm_compute. reflexivity. Qed.

(* the full statement is false of the code: the GraphQL alias models import typing.TypeAlias for
   every target, and the oldest target (3.9) does not have it *)
Theorem C19_type_alias_refuted :
  exists i, In i alias_model_imports /\ provides (min_minor version_rows) (fst i) (snd i) = false.
Proof. exists ("typing", "TypeAlias"). split; [vm_compute; auto | vm_compute; reflexivity]. Qed.

Example C19_tables_nonempty :
  Nat.ltb 3 (List.length version_rows) = true /\ Nat.ltb 40 (List.length import_constants) = true
  /\ provides 9 "typing" "NotRequired" = false /\ provides 11 "typing" "NotRequired" = true.
Proof. vm_compute. repeat split. Qed.

Print Assumptions C19_predicates.
Print Assumptions C19_selected_imports_exist.
Print Assumptions C19_constants_exist_partial.
Print Assumptions C19_type_alias_refuted.
