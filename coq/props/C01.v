(* C01 - generation terminates and every emitted module is valid Python.
   C01 is a composition.  What is proved here: every input-dependent loop of the generator that has a
   model terminates within an explicit bound (or is refuted with a witness), every lexical slot filled
   from the input is one well-formed token, and the class skeletons rendered by the real templates for
   every output model type and structural flag combination compile (a table rendered on this run).
   The whole-module claim for arbitrary inputs is decided by the falsifier (harness/props/c01.py). *)
From Coq Require Import List Bool Arith.
From DMCG Require Import IdentInst IdentProofs Resolver ResolverProofs KeepOrder KeepOrderProofs LoopProofs
     Escape EscapeProofs EscapeTables TypeHint TypeHintProofs SkeletonTable.
Import ListNotations.
Open Scope N_scope.
Open Scope list_scope.

(* 1. loops *)
Theorem C01_tables_ok : utab_ok U0 = true.
Proof. vm_compute. reflexivity. Qed.

(* the identifier sanitation loop: never more than |excludes|+2 rounds, never an IndexError, and the
   result is a legal identifier - for every input string, option vector, resolver kind, excludes set *)
Theorem C01_name_loop_terminates :
  forall kd o excl ign name, prefix_ok U0 (o_prefix o) = true ->
    exists r, get_valid_name U0 (2 + List.length excl) kd o excl ign name = Ok r /\ legal U0 r = true.
Proof.
  intros kd o excl ign name HP.
  destruct (gvn_total U0 C01_tables_ok kd o excl ign name HP) as [r [E [L _]]]. eauto.
Qed.

(* a loop that repeats only after a bounded measure grew (the reserved_refs fix-points) *)
Theorem C01_growing_loop_terminates :
  forall (S : Type) (size : S -> nat) (bound : nat) (step : S -> option S),
    (forall s s', step s = Some s' -> size s < size s')%nat -> (forall s s', step s = Some s' -> size s' <= bound)%nat ->
    forall fuel s, (bound + 1 - size s < fuel)%nat -> exists r, run step fuel s = Some r /\ step r = None.
Proof. exact (@growing_loop_terminates). Qed.

(* keep_model_order: the statement "the reordering loop terminates" is false of the code as it is - two
   classes, the first with a base class that is defined nowhere, the second derived from the first, are
   swapped back and forth for ever (known finding under C11; the model runs out of every fuel) *)
Definition ko_a : km := {| k_name := 1; k_bases := [17] |}.
Definition ko_b : km := {| k_name := 2; k_bases := [1] |}.
Lemma ko_cycle : forall fuel, settle fuel [] [ko_a; ko_b] = None /\ settle fuel [] [ko_b; ko_a] = None.
Proof. induction fuel as [|f [IH1 IH2]]; split; try reflexivity; cbn [settle]; [exact IH2|exact IH1]. Qed.
Theorem C01_keep_order_loop_refuted : exists ms, forall fuel, keep_order fuel [] ms = None.
Proof. exists [ko_a; ko_b]. intro fuel. exact (proj1 (ko_cycle fuel)). Qed.

(* 2. slots: enum / const values, TypedDict keys and docstrings are one token whatever the text;
   annotations have balanced brackets in every spelling *)
Theorem C01_enum_value_one_token :
  forall s rest, lex_sq LNorm [] (translate enum_table s ++ 39 :: rest) = Some (s, rest).
Proof. exact (fun s rest => sq_roundtrip enum_table eq_refl s [] rest). Qed.
Theorem C01_docstring_one_token :
  forall s rest, lex_tq TQ0 (10 :: doc_enc P0 s ++ close_doc rest) = Some rest.
Proof. exact docstring_one_token. Qed.
Theorem C01_annotation_brackets_balanced :
  forall o h, clean h = true -> balanced (show o h).
Proof. exact show_balanced. Qed.

(* 3. skeletons: every row of the table rendered on this run compiles, and the table covers the five
   output model types x 72 structural combinations *)
Theorem C01_skeletons_compile :
  forallb (fun r => snd (fst r)) skeleton_table = true /\ List.length skeleton_table = 360%nat.
Proof. vm_compute. split; reflexivity. Qed.

Print Assumptions C01_tables_ok.
Print Assumptions C01_name_loop_terminates.
Print Assumptions C01_growing_loop_terminates.
Print Assumptions C01_keep_order_loop_refuted.
Print Assumptions C01_enum_value_one_token.
Print Assumptions C01_docstring_one_token.
Print Assumptions C01_annotation_brackets_balanced.
Print Assumptions C01_skeletons_compile.
