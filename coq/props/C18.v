(* C18 - CLI flags, pyproject.toml settings and generate() arguments agree.
   The tables are reflected from arguments.py, __main__.py and generate() on every run. *)
From DMCG Require Import Plumbing PlumbingTables.
Open Scope string_scope.

(* precedence, for every option name, every pyproject table and every set of command-line values:
   the command line wins, otherwise pyproject, otherwise the default *)
Theorem C18_merge_precedence :
  forall (V : Type) (default : string -> V) pyproject cli f,
    (forall v, assoc cli f = Some v -> merged default pyproject cli f = v)
    /\ (assoc cli f = None -> forall v, assoc pyproject f = Some v -> merged default pyproject cli f = v)
    /\ (assoc cli f = None -> assoc pyproject f = None -> merged default pyproject cli f = default f).
Proof.
  intros V default pyproject cli f. unfold merged. repeat split.
  - intros v ->. reflexivity.
  - intros -> v ->. reflexivity.
  - intros -> ->. reflexivity.
Qed.

(* the same set of options gives the same keyword arguments whether it comes from the command line
   or from pyproject.toml (any value type, any option set without duplicates is enough: same lookup) *)
Theorem C18_cli_equals_pyproject :
  forall (V : Type) (default : string -> V) opts k,
    forwarded forward_map default [] opts k = forwarded forward_map default opts [] k.
Proof.
  intros V default opts k. unfold forwarded, merged. destruct (assoc forward_map k); [|reflexivity].
  cbn [assoc]. destruct (assoc opts s); reflexivity.
Qed.

(* every command-line option is a Config field (so it is accepted in pyproject.toml) *)
Theorem C18_cli_subset_config : cli_subset_config cli_actions config_fields = true.
Proof. vm_compute. reflexivity. Qed.

(* an option that is not given on the command line is None in the namespace, so that the pyproject
   value or the default shows through *)
Theorem C18_absent_is_none : absent_is_none cli_actions = true.
Proof. vm_compute. reflexivity. Qed.

(* every Config field is either consumed by main() itself or forwarded to a parameter of generate() *)
Theorem C18_config_forwarded :
  config_forwarded config_fields handled_in_main generate_params forward_map = true.
Proof. vm_compute. reflexivity. Qed.

(* every keyword main() passes exists in generate() and reads an existing field; every parameter of
   generate() except the API-only ones is passed *)
Theorem C18_forward_well_formed :
  forward_targets_exist config_fields generate_params forward_map = true
  /\ generate_covered generate_params forward_map = true
  /\ cli_reaches_generate cli_actions handled_in_main forward_map = true.
Proof. vm_compute. repeat split. Qed.

(* exit codes: the else branch of the try around generate() returns 0, every handler returns 1, and
   there is a catch-all handler *)
Theorem C18_exit_codes : exits_ok handler_returns = true.
Proof. vm_compute. reflexivity. Qed.

Example C18_tables_nonempty :
  Nat.ltb 10 (List.length cli_actions) = true /\ Nat.ltb 10 (List.length forward_map) = true
  /\ mem "snake_case_field" config_fields = true.
Proof. vm_compute. repeat split. Qed.

Print Assumptions C18_merge_precedence.
Print Assumptions C18_cli_equals_pyproject.
Print Assumptions C18_cli_subset_config.
Print Assumptions C18_absent_is_none.
Print Assumptions C18_config_forwarded.
Print Assumptions C18_forward_well_formed.
Print Assumptions C18_exit_codes.
