(* Extraction of the executable models for the correspondence checks (tie T2).
   ExtrOcamlBasic only: bool, option, unit, list, prod, sumbool, comparison map to OCaml's;
   positive / N / Z / nat stay the extracted inductives. *)
Require Extraction.
Require Import ExtrOcamlBasic.
From DMCG Require Import IdentInst Escape EscapeTables Relative SortModels Plumbing PlumbingTables Version FieldSem EnumModel TypeHint Imports Resolver Gql Constraints Schema KeepOrder Infer HintImports HintImportTable Layout.
Cd "extract".
Extraction "Model.ml" U0 get_valid_name field_name_and_alias camel_to_snake s2uc
  translate enum_table regex_table tdkey_table lex_sq lex_raw lex_tq doc_enc raw_safe comment_ok
  relative written py_resolve resolve_use package_of is_init
  sort_data_models merged forwarded forward_map provides
  flags_of cell_key required_rt admits_null reads_default guard c05_ok
  parse_enum enum_nullable find_member
  th show render rn make_optional
  Imports.run Imports.dump_lines Imports.empty Imports.ops_ok
  get_unique_name assign_unique grp apply_rel
  field_dt field_required
  Constraints.cnormalize Constraints.ctranslate Constraints.sat_model Constraints.sat_schema
  Schema.gen_text Schema.verdicts KeepOrder.keep_order Infer.infer_text Infer.infer_gen_text Infer.infer_accepts HintImports.imports_of HintImports.needs HintImportTable.hint_import_table Layout.layout Layout.layout_sound.
Cd "..".
