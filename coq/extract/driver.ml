(* Line driver for the extracted models.  One request per line, tab separated; one answer per line.
   Strings travel as comma separated decimal code points, "-" for the empty string. *)
open Model

let rec pos_of_int (n : int) : positive =
  if n = 1 then XH else if n land 1 = 0 then XO (pos_of_int (n lsr 1)) else XI (pos_of_int (n lsr 1))
let n_of_int (n : int) : n = if n = 0 then N0 else Npos (pos_of_int n)
let rec int_of_pos = function XH -> 1 | XO p -> 2 * int_of_pos p | XI p -> 2 * int_of_pos p + 1
let int_of_n = function N0 -> 0 | Npos p -> int_of_pos p
let rec nat_of_int (n : int) : nat = if n = 0 then O else S (nat_of_int (n - 1))
let rec int_of_nat = function O -> 0 | S m -> 1 + int_of_nat m

let str_of_tok t : n list =
  if t = "-" then [] else List.map (fun x -> n_of_int (int_of_string x)) (String.split_on_char ',' t)
let tok_of_str (s : n list) =
  if s = [] then "-" else String.concat "," (List.map (fun c -> string_of_int (int_of_n c)) s)
let strs_of_tok t : n list list =
  if t = "" then [] else List.map str_of_tok (String.split_on_char ';' t)
let toks_of_strs (l : n list list) = String.concat ";" (List.map tok_of_str l)
let bool_of_tok t = (t = "1")
let kind_of_tok = function "pyd" -> Pyd | "enum" -> Enm | _ -> Plain

let res_to_string = function
  | Ok s -> "OK\t" ^ tok_of_str s
  | OutOfFuel -> "FUEL"
  | IndexErr -> "INDEX"

let opts_of = function
  | snake :: delim :: prefix :: remove :: cap :: noalias :: empty :: rest ->
      ({ o_snake = bool_of_tok snake;
         o_delim = (if delim = "-" then None else Some (n_of_int (int_of_string delim)));
         o_prefix = str_of_tok prefix; o_remove = bool_of_tok remove; o_cap = bool_of_tok cap;
         o_noalias = bool_of_tok noalias; o_empty = str_of_tok empty }, rest)
  | _ -> failwith "opts"

let asc c = let n = Char.code c in let b i = (n lsr i) land 1 = 1 in
            Ascii (b 0, b 1, b 2, b 3, b 4, b 5, b 6, b 7)
let chr_of = function Ascii (a0, a1, a2, a3, a4, a5, a6, a7) ->
            let v b i = if b then 1 lsl i else 0 in
            Char.chr (v a0 0 + v a1 1 + v a2 2 + v a3 3 + v a4 4 + v a5 5 + v a6 6 + v a7 7)
let cs (t : Stdlib.String.t) =
  let r = ref EmptyString in
  for i = Stdlib.String.length t - 1 downto 0 do r := String (asc t.[i], !r) done; !r
let rec sc = function EmptyString -> "" | String (a, r) -> Stdlib.String.make 1 (chr_of a) ^ sc r

let rec z_of_int (i : int) : z = if i = 0 then Z0 else if i > 0 then Zpos (pos_of_int i) else Zneg (pos_of_int (- i))
let int_of_z = function Z0 -> 0 | Zpos p -> int_of_pos p | Zneg p -> - (int_of_pos p)
let jv_of_tok t =
  match String.split_on_char ':' t with
  | ["s"; x] -> JStr (str_of_tok x)
  | ["i"; x] -> JInt (z_of_int (int_of_string x))
  | ["f"; x] -> JFlo (str_of_tok x)
  | ["b"; x] -> JBool (x = "1")
  | _ -> JNull
let tok_of_jv = function
  | JStr s -> "s:" ^ tok_of_str s | JInt z -> "i:" ^ string_of_int (int_of_z z)
  | JFlo r -> "f:" ^ tok_of_str r | JBool b -> if b then "b:1" else "b:0" | JNull -> "n"

(* dt in prefix form: D typ nchildren child... nlits lit... ref opt cont *)
let rec parse_dt (toks : Stdlib.String.t list) : dt * Stdlib.String.t list =
  match toks with
  | "D" :: typ :: n :: rest ->
      let rec kids k toks acc = if k = 0 then (List.rev acc, toks) else
        let (c, toks') = parse_dt toks in kids (k - 1) toks' (c :: acc) in
      let (children, rest) = kids (int_of_string n) rest [] in
      (match rest with
       | nl :: rest ->
           let rec lits k toks acc = if k = 0 then (List.rev acc, toks) else
             (match toks with
              | t :: toks' ->
                  let l = (match String.split_on_char ':' t with
                           | ["i"; x] -> LInt (str_of_tok x) | ["b"; x] -> LBool (x = "1") | ["s"; x] -> LStr (str_of_tok x)
                           | _ -> failwith "lit") in lits (k - 1) toks' (l :: acc)
              | [] -> failwith "lits") in
           let (ls, rest) = lits (int_of_string nl) rest [] in
           (match rest with
            | rf :: op :: ct :: rest ->
                let c = (match String.split_on_char ':' ct with
                         | ["n"] -> CNone | ["l"] -> CList | ["s"] -> CSet | ["d"] -> CDict None
                         | ["d"; k] -> CDict (Some (str_of_tok k)) | _ -> failwith "cont") in
                (DT ((if typ = "~" then None else Some (str_of_tok typ)), children, ls,
                     (if rf = "~" then None else Some (str_of_tok rf)), op = "1", c), rest)
            | _ -> failwith "dt tail")
       | [] -> failwith "dt lits")
  | _ -> failwith "dt"

(* schemas and JSON values as space separated prefix tokens (see harness/props/c03.py) *)
let on t = if t = "~" then None else Some (n_of_int (int_of_string t))
let rec parse_schema (toks : Stdlib.String.t list) : schema * Stdlib.String.t list =
  let oz t = if t = "~" then None else Some (z_of_int (int_of_string t)) in
  let ex t = if t = "~" then XNone else if t = "t" then XBool true else if t = "f" then XBool false else XNum (z_of_int (int_of_string t)) in
  let rec many k toks f = if k = 0 then ([], toks) else let (x, r) = f toks in let (xs, r') = many (k - 1) r f in (x :: xs, r') in
  match toks with
  | "I" :: mn :: mx :: xmn :: xmx :: mu :: r -> (SInt { c_min = oz mn; c_max = oz mx; c_xmin = ex xmn; c_xmax = ex xmx; c_mult = oz mu }, r)
  | "N" :: r -> (SNum, r)
  | "F" :: mn :: mx :: xmn :: xmx :: r -> (SNumC { c_min = oz mn; c_max = oz mx; c_xmin = ex xmn; c_xmax = ex xmx; c_mult = None }, r)
  | "S" :: lo :: hi :: r -> (SStr (on lo, on hi), r)
  | "B" :: r -> (SBool, r)
  | "Z" :: r -> (SNullT, r)
  | "Y" :: r -> (SAnyT, r)
  | "E" :: k :: r -> let (xs, r') = many (int_of_string k) r (function t :: q -> (str_of_tok t, q) | [] -> failwith "enum") in (SEnum xs, r')
  | "?" :: r -> let (s, r') = parse_schema r in (SNullable s, r')
  | "A" :: lo :: hi :: r -> let (s, r') = parse_schema r in (SArr (s, on lo, on hi), r')
  | "M" :: r -> let (s, r') = parse_schema r in (SMap s, r')
  | "U" :: k :: r -> let (xs, r') = many (int_of_string k) r parse_schema in (SAny xs, r')
  | "J" :: closed :: k :: r ->
      let (ps, r') = many (int_of_string k) r
          (function nm :: req :: q -> let (s, q') = parse_schema q in ((str_of_tok nm, (bool_of_tok req, s)), q') | _ -> failwith "prop") in
      (SObj (ps, bool_of_tok closed), r')
  | _ -> failwith "schema"
let rec parse_json (toks : Stdlib.String.t list) : json * Stdlib.String.t list =
  let rec many k toks f = if k = 0 then ([], toks) else let (x, r) = f toks in let (xs, r') = many (k - 1) r f in (x :: xs, r') in
  match toks with
  | "n" :: r -> (VNull, r)
  | "t" :: r -> (VBool true, r)
  | "f" :: r -> (VBool false, r)
  | "i" :: z :: r -> (VInt (z_of_int (int_of_string z)), r)
  | "d" :: z :: r -> (VFlt (z_of_int (int_of_string z)), r)
  | "s" :: t :: r -> (VStr (str_of_tok t), r)
  | "a" :: k :: r -> let (xs, r') = many (int_of_string k) r parse_json in (VArr xs, r')
  | "o" :: k :: r ->
      let (xs, r') = many (int_of_string k) r (function nm :: q -> let (v, q') = parse_json q in ((str_of_tok nm, v), q') | [] -> failwith "member") in
      (VObj xs, r')
  | _ -> failwith "json"
let ascii_of_str (s : n list) = Stdlib.String.concat "" (List.map (fun c -> Stdlib.String.make 1 (Char.chr (int_of_n c))) s)
let words t = List.filter (fun x -> x <> "") (Stdlib.String.split_on_char ' ' t)

let handle line =
  match String.split_on_char '\t' line with
  | "gvn" :: kind :: rest ->
      let (o, rest) = opts_of rest in
      (match rest with
       | [ignore; fuel; name; excl] ->
           res_to_string (get_valid_name u0 (nat_of_int (int_of_string fuel)) (kind_of_tok kind) o
                            (strs_of_tok excl) (bool_of_tok ignore) (str_of_tok name))
       | _ -> "BADREQ")
  | "fna" :: kind :: rest ->
      let (o, rest) = opts_of rest in
      (match rest with
       | [fuel; name; excl; aliases] ->
           let al = List.map (fun p -> match String.split_on_char '=' p with
                                       | [a; b] -> (str_of_tok a, str_of_tok b) | _ -> failwith "alias")
                      (if aliases = "" then [] else String.split_on_char ';' aliases) in
           (match field_name_and_alias u0 (nat_of_int (int_of_string fuel)) (kind_of_tok kind) o al
                    (strs_of_tok excl) (str_of_tok name) with
            | Ok2 (v, a) -> "OK\t" ^ tok_of_str v ^ "\t" ^ (match a with None -> "NONE" | Some x -> "SOME " ^ tok_of_str x)
            | Fail2 r -> res_to_string r)
       | _ -> "BADREQ")
  | ["tr"; tbl; s] ->
      let t = (match tbl with "enum" -> enum_table | "regex" -> regex_table | _ -> tdkey_table) in
      tok_of_str (translate t (str_of_tok s))
  | ["lexsq"; s] ->
      (match lex_sq LNorm [] (str_of_tok s) with
       | Some (v, r) -> "SOME\t" ^ tok_of_str v ^ "\t" ^ tok_of_str r | None -> "NONE")
  | ["lexraw"; s] ->
      (match lex_raw false [] (str_of_tok s) with
       | Some (v, r) -> "SOME\t" ^ tok_of_str v ^ "\t" ^ tok_of_str r | None -> "NONE")
  | ["lextq"; s] ->
      (match lex_tq TQ0 (str_of_tok s) with Some r -> "SOME\t" ^ tok_of_str r | None -> "NONE")
  | ["docenc"; s] -> tok_of_str (doc_enc P0 (str_of_tok s))
  | ["rawsafe"; s] -> if raw_safe regex_table false (str_of_tok s) then "1" else "0"
  | ["rel"; cur; rp; name] ->
      (match relative (str_of_tok cur) (str_of_tok rp) (n_of_int (int_of_string name)) with
       | None -> "NONE"
       | Some i -> Printf.sprintf "%d\t%s\t%d" (int_of_nat i.i_dots) (tok_of_str i.i_extra) (int_of_n i.i_right))
  | ["wr"; ex; base; init; cur; rp; name] ->
      let cur = str_of_tok cur and rp = str_of_tok rp in
      (match written (bool_of_tok ex) (bool_of_tok base) (bool_of_tok init) cur rp (n_of_int (int_of_string name)) with
       | None -> "NONE"
       | Some (i, use) ->
           let r = (match resolve_use (package_of (bool_of_tok init) cur) (i, use) with
                    | None -> "BEYOND" | Some t -> tok_of_str t) in
           Printf.sprintf "%d\t%s\t%d\t%s\t%s" (int_of_nat i.i_dots) (tok_of_str i.i_extra) (int_of_n i.i_right) (tok_of_str use) r)
  | ["sortdm"; budget; nodes] ->
      (* nodes: path:bases:refs separated by | ; bases/refs comma separated or - *)
      let ns = List.map (fun t -> match String.split_on_char ':' t with
                 | [p; b; r] -> { n_path = n_of_int (int_of_string p); n_bases = str_of_tok b; n_refs = str_of_tok r }
                 | _ -> failwith "node") (if nodes = "" then [] else String.split_on_char '|' nodes) in
      (match sort_data_models (nat_of_int (int_of_string budget)) ns with
       | None -> "ERROR"
       | Some (sorted, upd) -> "OK\t" ^ tok_of_str (List.map (fun m -> m.n_path) sorted) ^ "\t" ^ tok_of_str upd)
  | ["fwd"; k; cli; py] ->
      (* option values are opaque tokens; strings are Coq strings (char lists) *)
      let pairs t = if t = "" then [] else List.map (fun p -> match String.split_on_char '=' p with
                      | [a; b] -> (cs a, cs b) | _ -> failwith "pair") (String.split_on_char ';' t) in
      (match forwarded forward_map (fun f -> cs "DEFAULT") (pairs py) (pairs cli) (cs k) with
       | None -> "NOTFORWARDED" | Some v -> sc v)
  | ["provides"; minor; m; n] ->
      if provides (nat_of_int (int_of_string minor)) (cs m) (cs n) then "1" else "0"
  | ["flagsof"; k; req; d; tn; nk; c; strict; force; usedef; sdn; ua; fc; udk] ->
      let kd = (match k with "0" -> KV1 | "1" -> KV2 | "2" -> KDC | "3" -> KTD | _ -> KMS) in
      let df = (match d with "0" -> DNo | "1" -> DNone | _ -> DVal) in
      let m = { m_required = bool_of_tok req; m_dflt = df; m_type_null = bool_of_tok tn; m_nullable_kw = bool_of_tok nk; m_constr = bool_of_tok c } in
      let o = { o_strict = bool_of_tok strict; o_force = bool_of_tok force; o_usedef = bool_of_tok usedef; o_sdn = bool_of_tok sdn;
                o_ua = bool_of_tok ua; o_fc = bool_of_tok fc; o_udk = bool_of_tok udk } in
      string_of_int (int_of_n (cell_key (flags_of kd m o))) ^ "\t" ^ (if guard kd m o then "1" else "0")
  | ["meaning"; k; opt; notreq; e] ->
      let kd = (match k with "0" -> KV1 | "1" -> KV2 | "2" -> KDC | "3" -> KTD | _ -> KMS) in
      let ef = (match e with "none" -> ENone | "ellipsis" -> EEllipsis | "None" -> ENoneV | "value" -> EValue | _ -> EFactory) in
      let r = { r_opt = bool_of_tok opt; r_notreq = bool_of_tok notreq; r_eff = ef } in
      (if required_rt kd r then "1" else "0") ^ "\t" ^ (if admits_null kd r then "1" else "0") ^ "\t" ^
      (match reads_default kd r with None -> "-" | Some true -> "default" | Some false -> "none")
  | "penum" :: rest ->
      let (o, rest) = opts_of rest in
      (match rest with
       | [ty; varnames; values; probe] ->
           let t = (if ty = "string" then TString else if ty = "-" then TNone else TOther (str_of_tok ty)) in
           let vn = (if varnames = "-" then None else Some (List.map str_of_tok (String.split_on_char ';' varnames))) in
           let vs = (if values = "" then [] else List.map jv_of_tok (String.split_on_char ';' values)) in
           (match parse_enum u0 enum_table o t vn vs with
            | None -> "ERROR"
            | Some l ->
                let fm = (if probe = "-" then "-" else
                            match find_member l (jv_of_tok probe) with None -> "NONE" | Some n -> tok_of_str n) in
                (if enum_nullable t vs then "1" else "0") ^ "\t" ^
                String.concat ";" (List.map (fun (n, lt) -> tok_of_str n ^ "=" ^
                   (match lt with LQuoted e -> "q:" ^ tok_of_str e | LRaw v -> "r:" ^ tok_of_jv v)) l) ^ "\t" ^ fm)
       | _ -> "BADREQ")
  | "th" :: u :: sc_ :: g :: rest ->
      let o = { uo = bool_of_tok u; sc = bool_of_tok sc_; gc = bool_of_tok g } in
      let (t, _) = parse_dt (String.split_on_char ' ' (String.concat " " rest)) in
      let (h, opt) = th o t in
      tok_of_str (show o h) ^ "\t" ^ (if opt then "1" else "0")
  | "himp" :: u :: sc_ :: g :: rest ->
      (* the typing / collections names the tree imports, and the names its annotation needs *)
      let o = { uo = bool_of_tok u; sc = bool_of_tok sc_; gc = bool_of_tok g } in
      let (t, _) = parse_dt (String.split_on_char ' ' (String.concat " " rest)) in
      let (h, _) = th o t in
      toks_of_strs (imports_of hint_import_table o t) ^ "\t" ^ toks_of_strs (needs o h)
  | ["imports"; ops] ->
      (* ops separated by | ; each: a/r : from-or-~ : name : alias-or-~ *)
      let mk t = (match String.split_on_char ':' t with
                  | [k; f; n; al] ->
                      let i = { i_from = (if f = "~" then None else Some (str_of_tok f)); i_name = str_of_tok n;
                                i_alias = (if al = "~" then None else Some (str_of_tok al)) } in
                      if k = "a" then Append i else Remove i
                  | _ -> failwith "op") in
      let l = (if ops = "" then [] else List.map mk (String.split_on_char '|' ops)) in
      let s = run l empty in
      (if ops_ok empty l then "1" else "0") ^ "\t" ^
      String.concat "|" (List.map (fun (k, names) ->
          (match k with None -> "~" | Some f -> tok_of_str f) ^ ":" ^
          String.concat ";" (List.map (fun (n, al) -> tok_of_str n ^ "=" ^ (match al with None -> "~" | Some a -> tok_of_str a)) names))
        (dump_lines s))
  | ["uniq"; camel; name; taken] ->
      let tk = strs_of_tok taken in
      (match get_unique_name (nat_of_int (List.length tk + 1)) (bool_of_tok camel) (str_of_tok name) tk with
       | Some r -> tok_of_str r | None -> "FUEL")
  | ["relpath"; b; t] ->
      let (p, c) = grp (str_of_tok b) (str_of_tok t) false in
      string_of_int (int_of_nat p) ^ "\t" ^ tok_of_str c
  | ["gql"; u; sc_; force; chain; name] ->
      (* chain: string over L (list) and N (non-null), outermost first *)
      let o = { uo = bool_of_tok u; sc = bool_of_tok sc_; gc = false } in
      let rec build i = if i >= Stdlib.String.length chain then GNamed (str_of_tok name)
                        else if chain.[i] = 'L' then GList (build (i + 1)) else GNonNull (build (i + 1)) in
      let t = build 0 in
      let (h, _) = th o (field_dt t) in
      tok_of_str (show o h) ^ "\t" ^ (if field_required (bool_of_tok force) t then "1" else "0")
  | ["constr"; mn; mx; xmn; xmx; mu; v] ->
      (* bounds in half units; ~ = absent; exclusive: ~ | t | f | number *)
      let oz t = if t = "~" then None else Some (z_of_int (int_of_string t)) in
      let ex t = if t = "~" then XNone else if t = "t" then XBool true else if t = "f" then XBool false else XNum (z_of_int (int_of_string t)) in
      let c = { c_min = oz mn; c_max = oz mx; c_xmin = ex xmn; c_xmax = ex xmx; c_mult = oz mu } in
      (match cnormalize c with
       | None -> "KEYERROR"
       | Some c' ->
           let k = ctranslate c' in
           let so = function None -> "~" | Some z -> string_of_int (int_of_z z) in
           String.concat "," [so k.k_ge; so k.k_le; so k.k_gt; so k.k_lt; so k.k_mult] ^ "\t" ^
           (if sat_model k (z_of_int (int_of_string v)) then "1" else "0") ^ "\t" ^
           (if sat_schema c (z_of_int (int_of_string v)) then "1" else "0"))
  | ["schema"; fc; st] -> let (sch, _) = parse_schema (words st) in ascii_of_str (gen_text (bool_of_tok fc) sch)
  | ["sval"; st; jt] ->
      let (sch, _) = parse_schema (words st) in
      let (v, _) = parse_json (words jt) in
      Stdlib.String.concat "" (List.map (fun b -> if b then "1" else "0") (verdicts sch v))
  | ["infer"; jt] ->
      let (v, _) = parse_json (words jt) in
      ascii_of_str (infer_text v) ^ "\t" ^ ascii_of_str (infer_gen_text v) ^ "\t" ^ (if infer_accepts v then "1" else "0")
  | ["korder"; imported; models] ->
      (* imported: n,n,..  models: name:b,b;name:;...  -> names in order, or FUEL *)
      let nums t = if t = "" || t = "-" then [] else List.map (fun x -> n_of_int (int_of_string x)) (Stdlib.String.split_on_char ',' t) in
      let ms = List.map (fun m -> match Stdlib.String.split_on_char ':' m with
                                  | [nm; bs] -> { k_name = n_of_int (int_of_string nm); k_bases = nums bs }
                                  | _ -> failwith "model") (List.filter (fun x -> x <> "") (Stdlib.String.split_on_char ';' models)) in
      (match keep_order (nat_of_int 200) (nums imported) ms with
       | None -> "FUEL"
       | Some r -> Stdlib.String.concat "," (List.map (fun m -> string_of_int (int_of_n m.k_name)) r))
  | ["layout"; ms] ->
      (* module keys separated by ; -> key:0/1 for every visited key, in processing order *)
      Stdlib.String.concat ";" (List.map (fun (m, b) -> tok_of_str m ^ ":" ^ (if b then "1" else "0")) (layout (strs_of_tok ms)))
  | ["c2s"; s] -> tok_of_str (camel_to_snake u0 (str_of_tok s))
  | ["s2uc"; d; s] -> tok_of_str (s2uc u0 (n_of_int (int_of_string d)) (str_of_tok s))
  | _ -> "BADREQ"

let () =
  try
    while true do
      let line = input_line stdin in
      print_string (try handle line with e -> "EXN " ^ Printexc.to_string e);
      print_char '\n'
    done
  with End_of_file -> ()
