(* M3b: DataType.imports against DataType.type_hint - the typing / collections names an annotation uses
   must be imported by the same IR tree.  The container names each spelling imports come from a table
   reflected from the real DataType.imports (gen/HintImportTable.v); Optional is added at field level
   (DataModelFieldBase.imports) and is not part of this model. *)
From DMCG Require Export TypeHint.
Open Scope N_scope.

(* spelling -> (list import, set import, dict import); None = a builtin, nothing to import *)
Definition imp_row := (option str * option str * option str)%type.
Definition imp_table := list ((bool * bool * bool) * imp_row).      (* (uo, sc, gc) -> row *)

Fixpoint row_of (tbl : imp_table) (o : spell) : imp_row :=
  match tbl with
  | [] => (None, None, None)
  | ((a, b, c), r) :: rest => if Bool.eqb a (uo o) && Bool.eqb b (sc o) && Bool.eqb c (gc o) then r else row_of rest o
  end.

Definition opt_list (x : option str) : list str := match x with Some s => [s] | None => [] end.

Definition cont_import (tbl : imp_table) (o : spell) (c : cont) : list str :=
  let '(l, s, d) := row_of tbl o in
  match c with CNone => [] | CList => opt_list l | CSet => opt_list s | CDict _ => opt_list d end.

Definition s_Union : str := of_string "Union".
Definition s_Literal : str := of_string "Literal".

Definition multi {A} (l : list A) : bool := match l with _ :: _ :: _ => true | _ => false end.
Definition nonempty {A} (l : list A) : bool := match l with [] => false | _ => true end.

(* DataType.all_imports restricted to typing / collections names (without Optional) *)
Fixpoint imports_of (tbl : imp_table) (o : spell) (t : dt) {struct t} : list str :=
  match t with
  | DT typ children lits ref opt c =>
      (if multi children && negb (uo o) then [s_Union] else [])
      ++ (if nonempty lits then [s_Literal] else [])
      ++ cont_import tbl o c
      ++ flat_map (imports_of tbl o) children
  end.

(* the names an annotation needs: container heads that are not builtins, Union in the typing spelling, Literal *)
Definition builtin_name (s : str) : bool :=
  str_eqb s (of_string "list") || str_eqb s (of_string "set") || str_eqb s (of_string "dict").
Definition container_name (s : str) : bool :=
  mem_str s [of_string "List"; of_string "list"; of_string "Sequence"; of_string "Set"; of_string "set"; of_string "FrozenSet";
             of_string "Dict"; of_string "dict"; of_string "Mapping"].

Fixpoint needs (o : spell) (h : hint) {struct h} : list str :=
  match h with
  | HAtom s => if container_name s && negb (builtin_name s) then [s] else []
  | HLit _ => [s_Literal]
  | HSub hd args => (if container_name hd && negb (builtin_name hd) then [hd] else []) ++ flat_map (needs o) args
  | HUnion alts => (if uo o then [] else [s_Union]) ++ flat_map (needs o) alts
  | HOpt x => needs o x
  | HNone | HEmpty => []
  end.

(* the table says what wrap prints: each container name a spelling prints is either a builtin or the imported name *)
Definition row_ok (tbl : imp_table) (o : spell) : bool :=
  let '(l, s, d) := row_of tbl o in
  let ok (printed : str) (imp : option str) :=
    if builtin_name printed then true else match imp with Some i => str_eqb i printed | None => false end in
  ok (list_name o) l && ok (set_name o) s && ok (dict_name o) d.

Definition all_spells : list spell :=
  flat_map (fun a => flat_map (fun b => map (fun c => {| uo := a; sc := b; gc := c |}) [false; true]) [false; true]) [false; true].
Definition table_ok (tbl : imp_table) : bool := forallb (row_ok tbl) all_spells.

(* IR trees whose own names are not container names (a class called List would be told apart by its import) *)
Fixpoint clean_dt (t : dt) : bool :=
  match t with
  | DT typ children lits ref opt c =>
      match typ with Some s => negb (container_name s) | None => true end
      && match ref with Some s => negb (container_name s) | None => true end
      && match c with CDict (Some k) => negb (container_name k) | _ => true end
      && forallb clean_dt children
  end.
