(* M12: schema inference from sample data (the genson package, as generate() uses it for JSON / YAML /
   dict / CSV input): SchemaNode.add_object and to_schema on JSON values.
   A node is the list of its active strategies in the order they were first needed; a strategy is one
   of Null, Boolean, Number (integer until a non-integral number is seen), String, List (one items
   node) and Object (properties in first-seen order, required = keys present in every object seen). *)
From DMCG Require Export Schema.
From Coq Require Import List Bool ZArith NArith.
Import ListNotations.
Open Scope N_scope.

Inductive strat :=
| GNull | GBool | GNum (is_number : bool) | GStr
| GList (items : list strat)
| GObj (props : list (str * list strat)) (required : list str).
Definition node := list strat.

Inductive kind := KNull | KBool | KNum | KStr | KList | KObj.
Definition kind_of (g : strat) : kind :=
  match g with GNull => KNull | GBool => KBool | GNum _ => KNum | GStr => KStr | GList _ => KList | GObj _ _ => KObj end.
Definition kind_eqb (a b : kind) : bool :=
  match a, b with
  | KNull, KNull | KBool, KBool | KNum, KNum | KStr, KStr | KList, KList | KObj, KObj => true
  | _, _ => false
  end.
Definition jkind (v : json) : kind :=
  match v with VNull => KNull | VBool _ => KBool | VInt _ | VFlt _ => KNum | VStr _ => KStr | VArr _ => KList | VObj _ => KObj end.

(* update the first strategy of the given kind, or append a fresh one *)
Fixpoint upd (k : kind) (f : option strat -> strat) (n : node) : node :=
  match n with
  | [] => [f None]
  | g :: r => if kind_eqb (kind_of g) k then f (Some g) :: r else g :: upd k f r
  end.

Fixpoint upd_prop (props : list (str * node)) (k : str) (f : node -> node) : list (str * node) :=
  match props with
  | [] => [(k, f [])]
  | (a, n) :: r => if str_eqb a k then (a, f n) :: r else (a, n) :: upd_prop r k f
  end.

Fixpoint inter (a b : list str) : list str :=
  match a with [] => [] | x :: r => if mem_str x b then x :: inter r b else inter r b end.

Fixpoint add (v : json) (n : node) {struct v} : node :=
  match v with
  | VNull => upd KNull (fun _ => GNull) n
  | VBool _ => upd KBool (fun _ => GBool) n
  | VInt _ => upd KNum (fun o => match o with Some (GNum b) => GNum b | _ => GNum false end) n
  | VFlt _ => upd KNum (fun _ => GNum true) n
  | VStr _ => upd KStr (fun _ => GStr) n
  | VArr l =>
      let addall := (fix go (l : list json) (items : node) : node :=
                       match l with [] => items | x :: r => go r (add x items) end) in
      upd KList (fun o => match o with Some (GList items) => GList (addall l items) | _ => GList (addall l []) end) n
  | VObj m =>
      let addprops := (fix go (m : list (str * json)) (props : list (str * node)) : list (str * node) :=
                         match m with [] => props | (k, x) :: r => go r (upd_prop props k (add x)) end) in
      upd KObj (fun o => match o with
                         | Some (GObj props req) => GObj (addprops m props) (inter req (map fst m))
                         | _ => GObj (addprops m []) (map fst m)
                         end) n
  end.

Definition infer (v : json) : node := add v [].

(* ---- what a node admits (the meaning of the schema it will be printed as) -------------------- *)
Fixpoint admits_s (g : strat) (v : json) {struct g} : bool :=
  match g with
  | GNull => v_is_null v
  | GBool => match v with VBool _ => true | _ => false end
  | GNum b => match v with VInt _ => true | VFlt _ => b | _ => false end
  | GStr => match v with VStr _ => true | _ => false end
  | GList items =>
      match v with
      | VArr l => match items with [] => true | _ => forallb (fun x => existsb (fun g' => admits_s g' x) items) l end
      | _ => false
      end
  | GObj props req =>
      match v with
      | VObj m =>
          forallb (fun p => match jlookup (fst p) m with
                            | None => true
                            | Some x => match snd p with [] => true | _ => existsb (fun g' => admits_s g' x) (snd p) end
                            end) props
          && forallb (fun k => match jlookup k m with Some _ => true | None => false end) req
      | _ => false
      end
  end.
Definition admits (n : node) (v : json) : bool :=
  match n with [] => true | _ => existsb (fun g => admits_s g v) n end.

(* ---- to_schema ------------------------------------------------------------------------------- *)
(* a strategy that prints as {"type": t} only: the scalars, an array that never saw an item, an object
   that never saw a member *)
Definition bare (g : strat) : bool :=
  match g with
  | GList [] => true | GList _ => false
  | GObj [] [] => true | GObj _ _ => false
  | _ => true
  end.

(* the alphabetical order of the JSON type names: array boolean integer null number object string *)
Definition rank (g : strat) : N :=
  match g with GList _ => 0 | GBool => 1 | GNum false => 2 | GNull => 3 | GNum true => 4 | GObj _ _ => 5 | GStr => 6 end.
Fixpoint insert_by_rank (g : strat) (l : list strat) : list strat :=
  match l with [] => [g] | x :: r => if rank g <=? rank x then g :: l else x :: insert_by_rank g r end.
Definition sort_by_rank (l : list strat) : list strat := fold_right insert_by_rank [] l.

Definition is_gnull (g : strat) : bool := match g with GNull => true | _ => false end.

(* the schema of a bare strategy needs no recursion *)
Definition bare_schema (g : strat) : schema :=
  match g with
  | GNull => SNullT | GBool => SBool | GNum false => SInt c_none | GNum true => SNum | GStr => SStr None None
  | GList _ => SArr SAnyT None None
  | GObj _ _ => SMap SAnyT
  end.

(* {"type": t} / {"type": [t1, ..., tk]} for the bare strategies, sorted by type name.  A type list is
   read by the generator like a union of its members, null making it optional. *)
Definition typed_schema (types : list strat) : schema :=
  let nn := filter (fun g => negb (is_gnull g)) types in
  let base := match nn with [] => SNullT | [x] => bare_schema x | _ => SAny (map bare_schema nn) end in
  if existsb is_gnull types && negb (match nn with [] => true | _ => false end) then SNullable base else base.

Definition node_schema_with (f : strat -> schema) (n : node) : schema :=
  let types := sort_by_rank (filter bare n) in
  let all := match types with [] => [] | _ => [typed_schema types] end
             ++ flat_map (fun g => if bare g then [] else [f g]) n in
  match all with [] => SAnyT | [x] => x | _ => SAny all end.

Fixpoint schema_of (g : strat) {struct g} : schema :=
  match g with
  | GNull => SNullT
  | GBool => SBool
  | GNum false => SInt c_none
  | GNum true => SNum
  | GStr => SStr None None
  | GList items => SArr (node_schema_with schema_of items) None None
  | GObj props req =>
      match props with
      | [] => SMap SAnyT
      | _ => SObj (map (fun p => (fst p, (mem_str (fst p) req, node_schema_with schema_of (snd p)))) props) false
      end
  end.

Definition to_schema (n : node) : schema := node_schema_with schema_of n.

(* JSON objects whose member names are pairwise distinct, at every depth *)
Fixpoint wf_json (v : json) : bool :=
  match v with
  | VArr l => forallb wf_json l
  | VObj m => nodup_str (map fst m) && forallb (fun kv => wf_json (snd kv)) m
  | _ => true
  end.

Definition infer_text (v : json) : str := show_schema (to_schema (infer v)).
Definition infer_gen_text (v : json) : str := show_ty (gen schema_opts false true PTop (to_schema (infer v))).
Definition infer_accepts (v : json) : bool := accepts (gen schema_opts false true PTop (to_schema (infer v))) v.

(* ---- named versions of the two inner loops of add, and the relation used in the proofs -------- *)
Fixpoint addall (l : list json) (items : node) : node :=
  match l with [] => items | x :: r => addall r (add x items) end.
Fixpoint addprops (m : list (str * json)) (props : list (str * node)) : list (str * node) :=
  match m with [] => props | (k, x) :: r => addprops r (upd_prop props k (add x)) end.

Fixpoint passoc (k : str) (props : list (str * node)) : option node :=
  match props with [] => None | (a, n) :: r => if str_eqb a k then Some n else passoc k r end.

(* fits g v: v is one of the values a strategy like g has been built from (stronger than admits_s: an
   array strategy without items fits only the empty array) *)
Fixpoint fits (g : strat) (v : json) {struct g} : bool :=
  match g with
  | GNull => v_is_null v
  | GBool => match v with VBool _ => true | _ => false end
  | GNum b => match v with VInt _ => true | VFlt _ => b | _ => false end
  | GStr => match v with VStr _ => true | _ => false end
  | GList items =>
      match v with
      | VArr l => forallb (fun x => existsb (fun g' => fits g' x) items) l
      | _ => false
      end
  | GObj props req =>
      match v with
      | VObj m =>
          forallb (fun kv => (fix look (ps : list (str * list strat)) : bool :=
                                match ps with
                                | [] => false
                                | (a, nd) :: r => if str_eqb a (fst kv) then existsb (fun g' => fits g' (snd kv)) nd else look r
                                end) props) m
          && forallb (fun k => mem_str k (map fst m)) req
      | _ => false
      end
  end.

Fixpoint wf_strat (g : strat) : bool :=
  match g with
  | GList items => forallb wf_strat items
  | GObj props req => nodup_str (map fst props) && forallb (fun p => forallb wf_strat (snd p)) props
  | _ => true
  end.
Definition wf_node (n : node) : bool := forallb wf_strat n.
