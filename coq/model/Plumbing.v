(* M14: how an option travels: argparse namespace -> Config.merge_args over the pyproject config ->
   the keyword arguments of generate().  Values are abstract (type V). *)
From Coq Require Export List String Bool.
Export ListNotations.
Open Scope string_scope.

Fixpoint mem (x : string) (l : list string) : bool :=
  match l with [] => false | y :: r => String.eqb x y || mem x r end.

Fixpoint assoc {V} (m : list (string * V)) (k : string) : option V :=
  match m with [] => None | (a, v) :: r => if String.eqb a k then Some v else assoc r k end.

Section Merge.
Context {V : Type}.

(* Config.parse_obj(pyproject) followed by merge_args(namespace): a namespace entry that is not
   None replaces the configured value, everything else keeps the pyproject value or the default *)
Definition merged (default : string -> V) (pyproject cli : list (string * V)) (f : string) : V :=
  match assoc cli f with
  | Some v => v
  | None => match assoc pyproject f with Some v => v | None => default f end
  end.

(* the keyword arguments main() passes: kwarg k gets the merged value of the field it reads *)
Definition forwarded (fwd : list (string * string)) (default : string -> V)
           (pyproject cli : list (string * V)) (k : string) : option V :=
  match assoc fwd k with
  | Some f => Some (merged default pyproject cli f)
  | None => None
  end.
End Merge.

(* table checks *)
Definition special_dests : list string := ["help"; "no_color"; "version"].
(* generate() parameters without a command-line counterpart *)
Definition api_only_params : list string := ["input_filename"; "custom_class_name_generator"; "graphql_scopes"].

Definition cli_subset_config (actions : list (string * string * bool)) (fields : list string) : bool :=
  forallb (fun a => mem (fst (fst a)) fields || mem (fst (fst a)) special_dests) actions.

Definition absent_is_none (actions : list (string * string * bool)) : bool :=
  forallb (fun a => snd a || mem (fst (fst a)) special_dests) actions.

Definition config_forwarded (fields handled params : list string) (fwd : list (string * string)) : bool :=
  forallb (fun f => mem f handled
                    || existsb (fun kf => String.eqb (snd kf) f && mem (fst kf) params) fwd) fields.

Definition generate_covered (params : list string) (fwd : list (string * string)) : bool :=
  forallb (fun p => mem p api_only_params || existsb (fun kf => String.eqb (fst kf) p) fwd) params.

Definition forward_targets_exist (fields params : list string) (fwd : list (string * string)) : bool :=
  forallb (fun kf => mem (fst kf) params && mem (snd kf) fields) fwd.

(* every option a user can give on the command line reaches generate() under some keyword, or is
   one of the fields main() consumes itself *)
Definition cli_reaches_generate (actions : list (string * string * bool)) (handled : list string)
           (fwd : list (string * string)) : bool :=
  forallb (fun a => let d := fst (fst a) in
                    mem d special_dests || mem d handled || existsb (fun kf => String.eqb (snd kf) d) fwd) actions.

Definition exits_ok (rets : list (string * list nat)) : bool :=
  forallb (fun hr => if String.eqb (fst hr) "else"
                     then forallb (Nat.eqb 0) (snd hr) && negb (Nat.eqb (List.length (snd hr)) 0)
                     else forallb (Nat.eqb 1) (snd hr) && negb (Nat.eqb (List.length (snd hr)) 0)) rets
  && existsb (fun hr => String.eqb (fst hr) "Exception") rets.
