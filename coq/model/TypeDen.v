(* What an annotation means, independent of how it is spelled: container heads by kind, unions and
   Optional flattened into the list of distinct non-None alternatives (first occurrence order) plus a
   "may be None" flag.  nf o h is that meaning written as a hint in one fixed spelling, so two hints
   mean the same iff their normal forms are equal.  Also: a finite family of IR trees used for the
   bounded statement of C13/C14. *)
From DMCG Require Export TypeHint.
Open Scope N_scope.

Definition canon_head (o : spell) (s : str) : str :=
  if str_eqb s (list_name o) then of_string "list"
  else if str_eqb s (set_name o) then of_string "set"
  else if str_eqb s (dict_name o) then of_string "dict"
  else s.

Definition parts (h : hint) : list hint :=
  match h with
  | HOpt (HUnion l) => l ++ [HNone]
  | HOpt x => [x; HNone]
  | HUnion l => l
  | _ => [h]
  end.

Fixpoint dedupe (l : list hint) (seen : list hint) : list hint :=
  match l with
  | [] => []
  | x :: r => if mem_hint x seen then dedupe r seen else x :: dedupe r (x :: seen)
  end.

Definition rebuild (l : list hint) : hint :=
  let nn := dedupe (filter (fun x => negb (is_hnone x)) l) [] in
  if existsb is_hnone l
  then match nn with [] => HNone | _ => HOpt (of_parts nn) end
  else of_parts nn.

Fixpoint nf (o : spell) (h : hint) : hint :=
  match h with
  | HAtom s => HAtom (canon_head o s)
  | HLit ls => HLit ls
  | HSub hd args => HSub (canon_head o hd) (map (nf o) args)
  | HUnion l => rebuild (flat_map (fun x => parts (nf o x)) l)
  | HOpt x => rebuild (parts (nf o x) ++ [HNone])
  | HNone => HNone
  | HEmpty => HEmpty
  end.

Definition meaning (o : spell) (t : dt) : hint := nf o (type_hint o t).

Definition all_spells : list spell :=
  flat_map (fun a => flat_map (fun b => map (fun c => {| uo := a; sc := b; gc := c |}) [false; true]) [false; true]) [false; true].

Definition same_in_all_spellings (t : dt) : bool :=
  let m0 := meaning {| uo := false; sc := false; gc := false |} t in
  forallb (fun o => hint_eqb (meaning o t) m0) all_spells.

(* ---- a finite family of IR trees: two atoms, a reference, optional flags, list / dict containers on
   single-child nodes, unions of up to three members, nesting depth two -------------------------- *)
Definition sA : str := of_string "int".
Definition sB : str := of_string "str".
Definition sR : str := of_string "Pet".
Definition bools := [false; true].

Definition leaves : list dt :=
  flat_map (fun opt =>
    [DT (Some sA) [] [] None opt CNone; DT (Some sB) [] [] None opt CNone; DT None [] [] (Some sR) opt CNone;
     DT (Some sA) [] [] None opt CList; DT (Some sB) [] [] None opt (CDict None)]) bools.

Definition unions_of (pool : list dt) : list dt :=
  flat_map (fun opt =>
    flat_map (fun a => flat_map (fun b => [DT None [a; b] [] None opt CNone]) pool) pool) bools.

Definition wraps_of (pool : list dt) : list dt :=
  flat_map (fun opt => flat_map (fun a => [DT None [a] [] None opt CList; DT None [a] [] None opt (CDict None); DT None [a] [] None opt CNone]) pool) bools.

Definition level1 : list dt := unions_of leaves ++ wraps_of leaves.
Definition triples : list dt :=
  flat_map (fun a => flat_map (fun b => flat_map (fun c => [DT None [a; b; c] [] None false CNone]) leaves) leaves) leaves.
Definition level2 : list dt := wraps_of level1 ++ unions_of (leaves ++ wraps_of leaves) ++ triples.
Definition family : list dt := leaves ++ level1 ++ level2.
