(* M15: which standard-library names exist in which Python 3.x (hand-written from the Python
   documentation: "New in version 3.x" notes of typing, dataclasses, collections.abc ...), and the
   checks over the selection tables reflected from /repo. *)
From Coq Require Export List String Bool Arith.
Export ListNotations.
Open Scope string_scope.

(* (module, name, first minor version of Python 3 that has it) *)
Definition stdlib_since : list (string * string * nat) := [
  ("__future__", "annotations", 7);
  ("collections.abc", "Mapping", 3); ("collections.abc", "Sequence", 3); ("collections.abc", "Set", 3);
  ("dataclasses", "dataclass", 7); ("dataclasses", "field", 7);
  ("datetime", "date", 0); ("datetime", "datetime", 0); ("datetime", "time", 0); ("datetime", "timedelta", 0);
  ("decimal", "Decimal", 0); ("enum", "Enum", 4);
  ("ipaddress", "IPv4Address", 3); ("ipaddress", "IPv4Network", 3);
  ("ipaddress", "IPv6Address", 3); ("ipaddress", "IPv6Network", 3);
  ("pathlib", "Path", 4); ("uuid", "UUID", 0);
  ("typing", "Annotated", 9); ("typing", "Any", 5); ("typing", "ClassVar", 5); ("typing", "Dict", 5);
  ("typing", "FrozenSet", 5); ("typing", "List", 5); ("typing", "Literal", 8); ("typing", "Mapping", 5);
  ("typing", "NotRequired", 11); ("typing", "Optional", 5); ("typing", "Sequence", 5); ("typing", "Set", 5);
  ("typing", "TypeAlias", 10); ("typing", "TypedDict", 8); ("typing", "Union", 5);
  ("typing", "Type", 5); ("typing", "Tuple", 5); ("typing", "Callable", 5); ("typing", "TYPE_CHECKING", 5)
].

(* modules that are not part of the standard library: available on every target by installation *)
Definition third_party : list string :=
  ["pydantic"; "pydantic.dataclasses"; "typing_extensions"; "msgspec"; "pendulum"].

Fixpoint since (m n : string) (t : list (string * string * nat)) : option nat :=
  match t with
  | [] => None
  | (m', n', v) :: r => if String.eqb m m' && String.eqb n n' then Some v else since m n r
  end.

Fixpoint smem (x : string) (l : list string) : bool :=
  match l with [] => false | y :: r => String.eqb x y || smem x r end.

(* does Python 3.<minor> provide `from m import n` ? unknown standard-library names count as absent *)
Definition provides (minor : nat) (m n : string) : bool :=
  smem m third_party
  || match since m n stdlib_since with Some v => Nat.leb v minor | None => false end.

(* version table rows: (value, minor, has_union_operator, has_typed_dict_non_required, has_kw_only_dataclass) *)
Definition vrow := (string * nat * bool * bool * bool)%type.
Definition predicates_ok (rows : list vrow) : bool :=
  forallb (fun r => match r with (_, minor, u, n, k) =>
             Bool.eqb u (Nat.leb 10 minor) && Bool.eqb n (Nat.leb 11 minor) && Bool.eqb k (Nat.leb 10 minor) end) rows.

Definition min_minor (rows : list vrow) : nat :=
  fold_right (fun r acc => match r with (_, minor, _, _, _) => Nat.min minor acc end) 99 rows.

(* unconditional import constants: must exist in the oldest supported version *)
Definition constants_ok (minor : nat) (exempt consts : list (string * string)) : bool :=
  forallb (fun c => existsb (fun e => String.eqb (fst e) (fst c) && String.eqb (snd e) (snd c)) exempt
                    || provides minor (fst c) (snd c)) consts.

(* selection rows: (minor, kind, imports selected for that target) *)
Definition selection_ok (sel : list (nat * string * list (string * string))) : bool :=
  forallb (fun r => match r with (minor, _, imps) =>
             forallb (fun i => provides minor (fst i) (snd i)) imps end) sel.
