(* M1: FieldNameResolver.get_valid_name / get_valid_field_name_and_alias, camel_to_snake,
   snake_to_upper_camel (reference.py).  Executable model only; proofs are in proofs/IdentProofs.v. *)
From DMCG Require Export Str Ranges.
Open Scope N_scope.

(* the Unicode facts the code consults, as data (instantiated with the reflected tables) *)
Record utab := {
  u_word : ranges;      (* re \w *)
  u_xids : ranges;      (* str.isidentifier of a single character *)
  u_xidc : ranges;      (* may follow a letter in an identifier *)
  u_numeric : ranges;   (* str.isnumeric *)
  u_lower : cmap;       (* str.lower per character *)
  u_upper : cmap;       (* str.upper per character *)
  u_kw : list str;      (* keyword.kwlist *)
  u_attrs : list str    (* names n with hasattr(pydantic.BaseModel, n) *)
}.

Record opts := {
  o_snake : bool;          (* snake_case_field *)
  o_delim : option N;      (* original_delimiter (one character) *)
  o_prefix : str;          (* special_field_name_prefix, after the None -> field default *)
  o_remove : bool;         (* remove_special_field_name_prefix *)
  o_cap : bool;            (* capitalise_enum_members *)
  o_noalias : bool;        (* no_alias *)
  o_empty : str            (* empty_field_name as passed (may be empty) *)
}.

Inductive rkind := Plain | Pyd | Enm.
Inductive res := Ok (s : str) | OutOfFuel | IndexErr.

Section WithTables.
Context (U : utab).

Definition is_super (c : N) : bool :=
  (c =? 185) || (c =? 178) || (c =? 179) || ((8308 <=? c) && (c <=? 8313)).

Definition xidc (c : N) : bool := in_ranges c (u_xidc U).
Definition xids (c : N) : bool := in_ranges c (u_xids U).
Definition isnumeric (c : N) : bool := in_ranges c (u_numeric U).

Definition sanitize (c : N) : N :=
  if is_super c || negb (in_ranges c (u_word U)) then c_us
  else if xidc c then c else c_us.

Definition isidentifier (s : str) : bool :=
  match s with
  | [] => false
  | c :: r => xids c && forallb xidc r
  end.

Definition iskeyword (s : str) : bool := mem_str s (u_kw U).

Definition lower (s : str) : str := cmap_str (u_lower U) s.
Definition upper (s : str) : str := cmap_str (u_upper U) s.

(* _UNDER_SCORE_1.sub(r"\1_\2"): ([^_])([A-Z][a-z]+), leftmost non-overlapping matches.
   Written as a one-character-at-a-time scanner: after a match at c (next is an upper case letter
   followed by a lower case one) emit c and _, copy the two matched characters (CopyU, CopyL) and
   keep copying lower case letters (InLow, the greedy [a-z]+) before looking for the next match. *)
Inductive s1mode := Start | InLow | CopyU | CopyL.

Fixpoint sub1 (m : s1mode) (s : str) : str :=
  match s with
  | [] => []
  | c :: rest =>
      match m with
      | CopyU => c :: sub1 CopyL rest
      | CopyL => c :: sub1 InLow rest
      | _ =>
          if (match m with InLow => true | _ => false end) && is_ascii_lower c then c :: sub1 InLow rest
          else match rest with
               | u :: l :: _ =>
                   if negb (c =? c_us) && is_ascii_upper u && is_ascii_lower l
                   then c :: c_us :: sub1 CopyU rest
                   else c :: sub1 Start rest
               | _ => c :: sub1 Start rest
               end
      end
  end.

(* _UNDER_SCORE_2.sub(r"\1_\2"): ([a-z0-9])([A-Z]); copy = the next character was consumed by a match *)
Fixpoint sub2 (copy : bool) (s : str) : str :=
  match s with
  | [] => []
  | c :: rest =>
      if copy then c :: sub2 false rest
      else match rest with
           | u :: _ =>
               if (is_ascii_lower c || is_ascii_digit c) && is_ascii_upper u
               then c :: c_us :: sub2 true rest
               else c :: sub2 false rest
           | [] => [c]
           end
  end.

Definition camel_to_snake (s : str) : str := lower (sub2 false (sub1 Start s)).

(* snake_to_upper_camel with a one-character delimiter: pieces between delimiters, empty pieces
   dropped, first character of each piece upper-cased, joined; a leading delimiter becomes _ *)
Fixpoint s2uc_go (d : N) (cap : bool) (s : str) : str :=
  match s with
  | [] => []
  | c :: r =>
      if c =? d then s2uc_go d true r
      else (if cap then cmap_get (u_upper U) c else [c]) ++ s2uc_go d false r
  end.

Definition s2uc (d : N) (w : str) : str :=
  match w with
  | c :: r => if c =? d then c_us :: s2uc_go d true r else s2uc_go d true w
  | [] => []
  end.

Fixpoint strip_us (s : str) : str :=
  match s with
  | c :: r => if c =? c_us then strip_us r else s
  | [] => []
  end.

Definition validate (k : rkind) (s : str) : bool :=
  match k with Pyd => negb (mem_str s (u_attrs U)) | _ => true end.

Definition bad (k : rkind) (excl : list str) (s : str) : bool :=
  negb (isidentifier s || negb (validate k s)) || iskeyword s || mem_str s excl.

Fixpoint retry (fuel : nat) (count : N) (k : rkind) (excl : list str) (name : str) : res :=
  match fuel with
  | O => OutOfFuel
  | Datatypes.S f =>
      let cand := name ++ c_us :: dec count in
      if bad k excl cand then retry f (count + 1) k excl name else Ok cand
  end.

Definition empty_name (o : opts) : str :=
  match o_empty o with [] => [c_us] | e => e end.

(* the part of get_valid_name before the final retry loop, in three steps *)

(* 1. empty name, leading #, snake_to_upper_camel with the original delimiter *)
Definition initial_name (o : opts) (ignore_snake : bool) (name0 : str) : str :=
  let name := match name0 with [] => empty_name o | _ => name0 end in
  let name := match name with
              | c :: r => if c =? c_hash then (match r with [] => empty_name o | _ => r end) else name
              | [] => name
              end in
  if o_snake o && negb ignore_snake
  then match o_delim o with Some d => s2uc d name | None => name end
  else name.

(* 2. on the sanitised characters: special prefix, leading underscores *)
Definition pre_stem (o : opts) (n1 : str) : str :=
  let name := if hd_is isnumeric n1 || negb (hd_is xids n1)
              then o_prefix o ++ c_us :: n1 else n1 in
  let name := if hd_is (N.eqb c_us) name
              then (if o_remove o then strip_us name else o_prefix o ++ name)
              else name in
  if negb (hd_is xids name) then o_prefix o ++ c_us :: name else name.

(* 3. snake casing, keyword / base-class attribute suffix *)
Definition post_stem (k : rkind) (o : opts) (ignore_snake : bool) (n4 : str) : str :=
  let name := if o_cap o || (o_snake o && negb ignore_snake) then camel_to_snake n4 else n4 in
  if iskeyword name || negb (validate k name) then name ++ [c_us] else name.

Definition stem (k : rkind) (o : opts) (ignore_snake : bool) (name0 : str) : option str :=
  match initial_name o ignore_snake name0 with
  | [] => None   (* name[0] raises IndexError *)
  | n => Some (post_stem k o ignore_snake (pre_stem o (map sanitize n)))
  end.

Definition get_valid_name_plain (fuel : nat) (k : rkind) (o : opts) (excl : list str)
           (ignore_snake : bool) (name0 : str) : res :=
  match stem k o ignore_snake name0 with
  | None => IndexErr
  | Some name =>
      let new_name := if o_cap o then upper name else name in
      if bad k excl new_name then retry fuel 1 k excl name else Ok new_name
  end.

Definition s_mro : str := [109; 114; 111].

(* EnumFieldNameResolver wraps the call *)
Definition get_valid_name (fuel : nat) (k : rkind) (o : opts) (excl : list str)
           (ignore_snake : bool) (name0 : str) : res :=
  match k with
  | Enm => get_valid_name_plain fuel k o (s_mro :: excl) ignore_snake
             (if str_eqb name0 s_mro then s_mro ++ [c_us] else name0)
  | _ => get_valid_name_plain fuel k o excl ignore_snake name0
  end.

(* get_valid_field_name_and_alias; aliases is the user supplied map *)
Fixpoint assoc_str (m : list (str * str)) (x : str) : option str :=
  match m with
  | [] => None
  | (a, b) :: r => if str_eqb a x then Some b else assoc_str r x
  end.

Inductive res2 := Ok2 (name : str) (alias : option str) | Fail2 (r : res).

Definition field_name_and_alias (fuel : nat) (k : rkind) (o : opts) (aliases : list (str * str))
           (excl : list str) (field : str) : res2 :=
  match assoc_str aliases field with
  | Some a => Ok2 a (Some field)
  | None =>
      match get_valid_name fuel k o excl false field with
      | Ok v => Ok2 v (if o_noalias o || str_eqb field v then None else Some field)
      | r => Fail2 r
      end
  end.

(* parse_object_fields / parse_enum: names are assigned in order, each call excluding the names
   already given in this class (jsonschema.py: exclude_field_names) *)
Fixpoint assign_names (k : rkind) (o : opts) (aliases : list (str * str)) (excl : list str)
         (fields : list str) : option (list (str * option str)) :=
  match fields with
  | [] => Some []
  | f :: r =>
      match field_name_and_alias (2 + List.length excl) k o aliases excl f with
      | Ok2 v a =>
          match assign_names k o aliases (v :: excl) r with
          | Some l => Some ((v, a) :: l)
          | None => None
          end
      | Fail2 _ => None
      end
  end.

End WithTables.
