(* M2b: str.translate with the escape tables of parser/base.py, model/pydantic/types.py and
   model/typed_dict.py; escape_docstring of model/base.py. *)
From DMCG Require Export Str PyLex.
Open Scope N_scope.

Definition etable := list (N * str).

Fixpoint elookup (t : etable) (c : N) : option str :=
  match t with
  | [] => None
  | (k, v) :: r => if k =? c then Some v else elookup r c
  end.

Definition enc (t : etable) (c : N) : str :=
  match elookup t c with Some v => v | None => [c] end.

Definition translate (t : etable) (s : str) : str := flat_map (enc t) s.

(* shape of a table entry k -> v that a '...' literal reads back as k *)
Definition shape_ok (k : N) (v : str) : bool :=
  match v with
  | [b; e] => (b =? 92) && match simple_escape e with Some c => c =? k | None => false end
  | [b; x; h; l] =>
      (b =? 92) && (x =? 120) &&
      match hexval h, hexval l with Some a, Some d => 16 * a + d =? k | _, _ => false end
  | [x] => (x =? k) && negb (sq_special x)
  | _ => false
  end.

Definition has_key (t : etable) (c : N) : bool :=
  match elookup t c with Some _ => true | None => false end.

Definition sq_table_ok (t : etable) : bool :=
  forallb (fun kv => shape_ok (fst kv) (snd kv)) t
  && forallb (has_key t) [0; 10; 13; 39; 92].

(* raw r'...' slot: shape of an entry that keeps the literal one token *)
Definition raw_shape_ok (v : str) : bool :=
  match v with
  | [b; e] => (b =? 92) && negb ((e =? 0) || (e =? 10) || (e =? 13))
  | [x] => negb (sq_special x)
  | _ => false
  end.

Definition raw_table_ok (t : etable) : bool :=
  forallb (fun kv => raw_shape_ok (snd kv) && negb (fst kv =? 92)) t
  && forallb (has_key t) [10; 13; 39].

(* the patterns for which the raw rendering is one token: every backslash of the pattern is
   followed by a character that the table leaves alone, no NUL *)
Fixpoint raw_safe (t : etable) (esc : bool) (s : str) : bool :=
  match s with
  | [] => negb esc
  | c :: r =>
      if esc then negb (has_key t c) && negb (sq_special c) && raw_safe t false r
      else if c =? 92 then raw_safe t true r
      else negb (c =? 0) && raw_safe t false r
  end.

(* escape_docstring: backslash doubled, three double quotes -> three escaped quotes, NUL -> \x00.
   One pass with a count of pending (not yet emitted) double quotes. *)
Inductive pend := P0 | P1 | P2.
Definition flush (p : pend) : str :=
  match p with P0 => [] | P1 => [34] | P2 => [34; 34] end.
Definition doc_enc1 (c : N) : str :=
  if c =? 92 then [92; 92] else if c =? 0 then [92; 120; 48; 48] else [c].

Fixpoint doc_enc (p : pend) (s : str) : str :=
  match s with
  | [] => flush p
  | c :: r =>
      if c =? 34 then
        match p with
        | P0 => doc_enc P1 r
        | P1 => doc_enc P2 r
        | P2 => [92; 34; 92; 34; 92; 34] ++ doc_enc P0 r
        end
      else flush p ++ doc_enc1 c ++ doc_enc P0 r
  end.
