(* M13: GraphQLParser.parse_field: unrolling the NonNull / List wrapper chain of a GraphQL field type
   into nested DataType objects (parser/graphql.py), on top of the TypeHint model. *)
From DMCG Require Export TypeHint.
Open Scope N_scope.

Inductive gty := GNamed (n : str) | GList (t : gty) | GNonNull (t : gty).

(* opt = is_optional of the DataType under construction (every new DataType starts optional) *)
Fixpoint unroll (t : gty) (opt : bool) : dt :=
  match t with
  | GNamed n => DT (Some n) [] [] None opt CNone
  | GNonNull t' => unroll t' false
  | GList t' => DT None [unroll t' true] [] None opt CList
  end.

Definition field_dt (t : gty) : dt := unroll t true.

(* required = not force_optional and not final_data_type.is_optional *)
Definition dt_opt (d : dt) : bool := match d with DT _ _ _ _ o _ => o end.
Definition field_required (force_optional : bool) (t : gty) : bool :=
  negb force_optional && negb (dt_opt (field_dt t)).

(* the shape both sides are compared in: list nesting with nullability at every level *)
Inductive shape := SNamed (n : str) (nullable : bool) | SListOf (e : shape) (nullable : bool).

Definition set_nullable (b : bool) (s : shape) : shape :=
  match s with SNamed n _ => SNamed n b | SListOf e _ => SListOf e b end.

Fixpoint den_gql (t : gty) : shape :=
  match t with
  | GNamed n => SNamed n true
  | GNonNull t' => set_nullable false (den_gql t')
  | GList t' => SListOf (den_gql t') true
  end.

(* the same, computed the way the parser walks the chain: opt is the nullability the level has unless a
   NonNull wrapper says otherwise *)
Fixpoint den_with (t : gty) (opt : bool) : shape :=
  match t with
  | GNamed n => SNamed n opt
  | GNonNull t' => den_with t' false
  | GList t' => SListOf (den_with t' true) opt
  end.

(* shape of a rendered hint: Optional[...] / ... | None marks nullable, List[...] a list level *)
Fixpoint den_hint (h : hint) : option shape :=
  match h with
  | HAtom n => Some (SNamed n false)
  | HSub _ [e] => match den_hint e with Some s => Some (SListOf s false) | None => None end
  | HOpt x => match den_hint x with Some s => Some (set_nullable true s) | None => None end
  | _ => None
  end.
