(* M11: JsonSchemaParser.parse_enum / parse_enum_as_literal and Enum.find_member
   (parser/jsonschema.py, model/enum.py). *)
From Coq Require Import ZArith.
From DMCG Require Export Str Ranges Ident Escape.
Open Scope N_scope.

(* JSON scalars as the YAML/JSON loader hands them over; a float carries its repr text *)
Inductive jv := JStr (s : str) | JInt (z : Z) | JFlo (repr : str) | JBool (b : bool) | JNull.

(* the schema's type keyword, as far as parse_enum looks at it *)
Inductive etype := TString | TOther (name : str) | TNone.   (* TNone: absent or a list *)

Definition str_of_Z (z : Z) : str :=
  match z with
  | Z0 => [48]
  | Zpos p => dec (Npos p)
  | Zneg p => 45 :: dec (Npos p)
  end.

Definition s_True : str := [84; 114; 117; 101].
Definition s_False : str := [70; 97; 108; 115; 101].
Definition s_None : str := [78; 111; 110; 101].

(* Python str(v) *)
Definition py_str (v : jv) : str :=
  match v with
  | JStr s => s
  | JInt z => str_of_Z z
  | JFlo r => r
  | JBool true => s_True
  | JBool false => s_False
  | JNull => s_None
  end.

(* type(v).__name__ *)
Definition py_type_name (v : jv) : str :=
  match v with
  | JStr _ => [115; 116; 114]
  | JInt _ => [105; 110; 116]
  | JFlo _ => [102; 108; 111; 97; 116]
  | JBool _ => [98; 111; 111; 108]
  | JNull => [78; 111; 110; 101; 84; 121; 112; 101]
  end.

(* what is written after the = of a member: a quoted, escaped string or the value itself (repr) *)
Inductive lit := LQuoted (escaped : str) | LRaw (v : jv).

Definition is_null (v : jv) : bool := match v with JNull => true | _ => false end.
Definition is_str (v : jv) : bool := match v with JStr _ => true | _ => false end.
Definition is_tstring (t : etype) : bool := match t with TString => true | _ => false end.

Section Enum.
Context (U : utab) (tbl : etable).

Definition enum_nullable (t : etype) (vs : list jv) : bool := existsb is_null vs && is_tstring t.

Definition enum_values (t : etype) (vs : list jv) : list jv :=
  if enum_nullable t vs then filter (fun v => negb (is_null v)) vs else vs.

Definition member_lit (t : etype) (v : jv) : lit :=
  match v with
  | JStr s => LQuoted (translate tbl s)
  | _ => LRaw v
  end.

Definition member_name_src (t : etype) (varname : option str) (v : jv) : str :=
  match varname with
  | Some n => n
  | None =>
      if is_tstring t || is_str v then py_str v
      else (match t with TOther n => n | _ => py_type_name v end) ++ c_us :: py_str v
  end.

(* the loop of parse_enum: names are made valid one after the other, excluding those already given *)
Fixpoint enum_members (o : opts) (t : etype) (varnames : option (list str)) (excl : list str) (vs : list jv)
  : option (list (str * lit)) :=
  match vs with
  | [] => Some []
  | v :: r =>
      let vn := match varnames with Some (n :: _) => Some n | _ => None end in
      let rest_vn := match varnames with Some (_ :: ns) => Some ns | _ => varnames end in
      match get_valid_name U (2 + List.length excl) Enm o excl false (member_name_src t vn v) with
      | Ok name =>
          match enum_members o t rest_vn (name :: excl) r with
          | Some l => Some ((name, member_lit t v) :: l)
          | None => None
          end
      | _ => None
      end
  end.

Definition parse_enum (o : opts) (t : etype) (varnames : option (list str)) (vs : list jv) :=
  enum_members o t varnames [] (enum_values t vs).

Definition parse_enum_as_literal (vs : list jv) : list jv := filter (fun v => negb (is_null v)) vs.

(* what Python gets back when it evaluates the member's literal *)
Definition lit_value (l : lit) : option jv :=
  match l with
  | LQuoted e => match lex_sq LNorm [] (e ++ [39]) with Some (s, []) => Some (JStr s) | _ => None end
  | LRaw v => Some v
  end.

(* Enum.find_member: compares str(default).strip(quotes) with str(value).strip(quotes) *)
Fixpoint lstrip_q (s : str) : str :=
  match s with c :: r => if (c =? 39) || (c =? 34) then lstrip_q r else s | [] => [] end.
Definition strip_q (s : str) : str := rev (lstrip_q (rev (lstrip_q s))).

Definition lit_text (l : lit) : str :=
  match l with
  | LQuoted e => 39 :: e ++ [39]
  | LRaw JNull => []                      (* str(None or "") *)
  | LRaw (JBool false) => []              (* str(False or "") *)
  | LRaw (JInt Z0) => []                  (* str(0 or "") *)
  | LRaw v => py_str v
  end.

Fixpoint find_member (ms : list (str * lit)) (v : jv) : option str :=
  match ms with
  | [] => None
  | (n, l) :: r => if str_eqb (strip_q (lit_text l)) (strip_q (py_str v)) then Some n else find_member r v
  end.

End Enum.
