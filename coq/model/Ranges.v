(* Code point classes as lists of inclusive ranges.  No proofs here. *)
From DMCG Require Export Str.
Open Scope N_scope.

Definition ranges := list (N * N).

Fixpoint in_ranges (c : N) (r : ranges) : bool :=
  match r with
  | [] => false
  | (lo, hi) :: r' => ((lo <=? c) && (c <=? hi)) || in_ranges c r'
  end.

(* [lo,hi] is inside one range of b *)
Fixpoint range_covered (lo hi : N) (b : ranges) : bool :=
  match b with
  | [] => false
  | (l, h) :: b' => ((l <=? lo) && (hi <=? h)) || range_covered lo hi b'
  end.

(* sufficient (not necessary) boolean test for: every point of a is a point of b *)
Definition ranges_subset (a b : ranges) : bool :=
  forallb (fun p => range_covered (fst p) (snd p) b) a.

(* a and b have no common point *)
Definition range_disjoint1 (lo hi : N) (b : ranges) : bool :=
  forallb (fun q => (hi <? fst q) || (snd q <? lo)) b.
Definition ranges_disjoint (a b : ranges) : bool :=
  forallb (fun p => range_disjoint1 (fst p) (snd p) b) a.

(* per code point maps to strings (case mappings): association list, identity when absent *)
Definition cmap := list (N * str).
Fixpoint cmap_get (m : cmap) (c : N) : str :=
  match m with
  | [] => [c]
  | (k, v) :: m' => if N.eqb k c then v else cmap_get m' c
  end.
Definition cmap_str (m : cmap) (s : str) : str := flat_map (cmap_get m) s.
