(* M16b: the three mechanisms by which a Python function stops being a function of its arguments,
   with the nuisance parameter made explicit:
   - lru_cache as a state machine over a cache (keyed by the whole argument);
   - iteration over a set = iteration over an arbitrary permutation of its elements, with sorted() at
     the emission point;
   - main() parsing into a Namespace object that survives between calls. *)
From DMCG Require Export Str.
Open Scope N_scope.

Section Memo.
Context {K V : Type} (keq : K -> K -> bool) (f : K -> V).

Fixpoint cache_get (c : list (K * V)) (k : K) : option V :=
  match c with [] => None | (k', v) :: r => if keq k k' then Some v else cache_get r k end.

(* one call of the cached function: a hit returns the stored value, a miss computes and stores *)
Definition memo_step (c : list (K * V)) (k : K) : list (K * V) * V :=
  match cache_get c k with
  | Some v => (c, v)
  | None => ((k, f k) :: c, f k)
  end.

Fixpoint run_memo (c : list (K * V)) (ks : list K) : list V :=
  match ks with
  | [] => []
  | k :: r => let (c', v) := memo_step c k in v :: run_memo c' r
  end.
End Memo.

(* stable insertion sort with a boolean order: what sorted() does with the emission key *)
Section Sort.
Context {A : Type} (leb : A -> A -> bool).
Fixpoint sinsert (x : A) (l : list A) : list A :=
  match l with [] => [x] | y :: r => if leb x y then x :: l else y :: sinsert x r end.
Fixpoint ssort (l : list A) : list A :=
  match l with [] => [] | x :: r => sinsert x (ssort r) end.
End Sort.

(* lexicographic order on strings (code points), as Python compares str *)
Fixpoint str_leb (a b : str) : bool :=
  match a, b with
  | [], _ => true
  | _ :: _, [] => false
  | x :: a', y :: b' => if x <? y then true else if y <? x then false else str_leb a' b'
  end.

(* main(): argparse fills the given namespace; options absent from argv keep what the namespace held.
   options are (name, value) pairs; a call returns the namespace after parsing = what generate() sees *)
Fixpoint ns_set (ns : list (str * str)) (k v : str) : list (str * str) :=
  match ns with
  | [] => [(k, v)]
  | (k', v') :: r => if str_eqb k k' then (k, v) :: r else (k', v') :: ns_set r k v
  end.
Definition parse_into (ns : list (str * str)) (argv : list (str * str)) : list (str * str) :=
  fold_left (fun n kv => ns_set n (fst kv) (snd kv)) argv ns.

(* the code: one module-level namespace shared by all calls *)
Fixpoint main_shared (ns : list (str * str)) (calls : list (list (str * str))) : list (list (str * str)) :=
  match calls with
  | [] => []
  | argv :: r => let ns' := parse_into ns argv in ns' :: main_shared ns' r
  end.
(* the specification: every call starts from a fresh namespace *)
Definition main_fresh (calls : list (list (str * str))) : list (list (str * str)) :=
  map (parse_into []) calls.
