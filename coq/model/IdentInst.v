(* the Ident model instantiated with the tables reflected on this run *)
From DMCG Require Export Ident.
From DMCG Require Import UnicodeTables BaseModelAttrs.
Definition U0 : utab := {|
  u_word := word_tbl; u_xids := xids_tbl; u_xidc := xidc_tbl; u_numeric := numeric_tbl;
  u_lower := lower_map; u_upper := upper_map; u_kw := kwlist; u_attrs := base_attrs |}.
