(* Strings as lists of Unicode code points (N).  No proofs here. *)
From Coq Require Export List NArith Bool Ascii String DecimalString.
Export ListNotations.
Open Scope N_scope.

Definition str := list N.

Fixpoint of_string (s : string) : str :=
  match s with
  | EmptyString => []
  | String a r => N_of_ascii a :: of_string r
  end.


Fixpoint str_eqb (a b : str) : bool :=
  match a, b with
  | [], [] => true
  | x :: a', y :: b' => N.eqb x y && str_eqb a' b'
  | _, _ => false
  end.

Fixpoint mem_str (x : str) (l : list str) : bool :=
  match l with
  | [] => false
  | y :: r => str_eqb x y || mem_str x r
  end.

Fixpoint mem_N (x : N) (l : list N) : bool :=
  match l with
  | [] => false
  | y :: r => N.eqb x y || mem_N x r
  end.

Fixpoint prefixb (p s : str) : bool :=
  match p, s with
  | [], _ => true
  | x :: p', y :: s' => N.eqb x y && prefixb p' s'
  | _ :: _, [] => false
  end.

Definition hd_is (p : N -> bool) (s : str) : bool :=
  match s with [] => false | c :: _ => p c end.

(* decimal rendering of a counter, as Python's str(int) for non-negative ints *)
Definition dec (n : N) : str :=
  of_string (DecimalString.NilEmpty.string_of_uint (N.to_uint n)).

Definition c_us : N := 95.   (* _ *)
Definition c_hash : N := 35. (* # *)
Definition c_sq : N := 39.   (* single quote *)
Definition c_dq : N := 34.   (* double quote *)
Definition c_bs : N := 92.   (* backslash *)
Definition c_nl : N := 10.
Definition c_cr : N := 13.
Definition c_dot : N := 46.

Definition is_ascii_upper (c : N) : bool := (65 <=? c) && (c <=? 90).
Definition is_ascii_lower (c : N) : bool := (97 <=? c) && (c <=? 122).
Definition is_ascii_digit (c : N) : bool := (48 <=? c) && (c <=? 57).
