(* M16a: generate() as a sequence of statements over an abstract world (file system + cwd).
   What each statement does is a section variable; the only thing assumed about a statement that is
   classified as non-writing is the frame condition (it leaves the file system alone). *)
From Coq Require Export List Bool Arith String.
Export ListNotations.

Record stmt := { s_label : string; s_writes : bool; s_foreign : bool; s_in_loop : bool }.

Section Run.
Context {world FS dir : Type}.
Context (fs : world -> FS) (cwd : world -> dir) (set_cwd : dir -> world -> world).
(* semantics of statement number i: the next world, and whether it raised *)
Context (sem : nat -> world -> world * bool).

(* run the statements in order; Some j = statement j raised and the rest was skipped *)
Fixpoint run (i : nat) (stmts : list stmt) (w : world) : world * option nat :=
  match stmts with
  | [] => (w, None)
  | _ :: r => let (w', raised) := sem i w in
              if raised then (w', Some i) else run (S i) r w'
  end.

(* contextlib chdir: remember the directory, change, run the body, always restore *)
Definition with_chdir (d : dir) (body : world -> world * bool) (w : world) : world * bool :=
  let prev := cwd w in
  let (w', raised) := body (set_cwd d w) in
  (set_cwd prev w', raised).
End Run.

(* discipline checked on the statement list reflected from the source:
   nothing writes before the write loop, and inside the write loop nothing but the write
   primitives themselves can raise *)
Definition write_discipline (stmts : list stmt) : bool :=
  forallb (fun s => if s_in_loop s then negb (s_foreign s) else negb (s_writes s)) stmts
  && existsb s_writes stmts.

(* statements after the write loop: none may be able to fail (the output is already on disk) *)
Fixpoint after_loop_ok (seen_loop : bool) (stmts : list stmt) : bool :=
  match stmts with
  | [] => true
  | s :: r => if s_in_loop s then after_loop_ok true r
              else (negb seen_loop || negb (s_foreign s)) && after_loop_ok seen_loop r
  end.
