(* M4: sort_data_models (parser/base.py), after the bounded-loop fix: every loop of the code is
   bounded by the code itself (for-loops, recursion_count, the len+1 pass bound), so the model is a
   total function with the same bounds.  A model has a path, base-class paths and member-type paths. *)
From Coq Require Export List NArith Bool Arith.
Export ListNotations.
Open Scope N_scope.

Record node := { n_path : N; n_bases : list N; n_refs : list N }.

Fixpoint memN (x : N) (l : list N) : bool :=
  match l with [] => false | y :: r => (x =? y) || memN x r end.

Definition rcs (m : node) : list N := n_bases m ++ n_refs m.          (* reference_classes, as a list *)
Definition keys (l : list node) : list N := map n_path l.

Definition only_self (m : node) : bool := forallb (N.eqb (n_path m)) (rcs m).
Definition resolved (sorted : list node) (m : node) : bool :=
  forallb (fun r => (r =? n_path m) || memN r (keys sorted)) (rcs m).

(* one pass of the first for-loop; sorted is the OrderedDict in insertion order *)
Fixpoint sweep (ms sorted : list node) (upd : list N) (unres : list node)
  : list node * list N * list node :=
  match ms with
  | [] => (sorted, upd, unres)
  | m :: r =>
      match rcs m with
      | [] => sweep r (sorted ++ [m]) upd unres
      | _ =>
          if only_self m then sweep r (sorted ++ [m]) (upd ++ [n_path m]) unres
          else if resolved sorted m
               then sweep r (sorted ++ [m]) (if memN (n_path m) (rcs m) then upd ++ [n_path m] else upd) unres
               else sweep r sorted upd (unres ++ [m])
      end
  end.

(* position of a path in a list of models *)
Fixpoint index_of (p : N) (l : list node) : option nat :=
  match l with
  | [] => None
  | m :: r => if n_path m =? p then Some O
              else match index_of p r with Some i => Some (S i) | None => None end
  end.

(* sort key of the base-class pass: 1 + the largest index of a base among l, 0 when there is none
   (the code uses the index itself and -1) *)
Definition bkey (l : list node) (m : node) : nat :=
  fold_right (fun b acc => match index_of b l with Some i => Nat.max (S i) acc | None => acc end)
             O (n_bases m).

(* Python's sorted(..., key=...) is stable: insertion sort that keeps equal keys in order *)
Fixpoint insert_by (k : node -> nat) (x : node) (l : list node) : list node :=
  match l with
  | [] => [x]
  | y :: r => if Nat.leb (k x) (k y) then x :: l else y :: insert_by k x r
  end.
Fixpoint isort (k : node -> nat) (l : list node) : list node :=
  match l with [] => [] | x :: r => insert_by k x (isort k r) end.

Fixpoint same_paths (a b : list node) : bool :=
  match a, b with
  | [], [] => true
  | x :: a', y :: b' => (n_path x =? n_path y) && same_paths a' b'
  | _, _ => false
  end.

(* the for/else loop: at most passes iterations; None = no fix-point (circular base classes) *)
Fixpoint bubble (passes : nat) (l : list node) : option (list node) :=
  match passes with
  | O => None
  | S f => let l' := isort (bkey l) l in
           if same_paths l' l then Some l else bubble f l'
  end.

Definition inter_nonempty (a b : list N) : bool := existsb (fun x => memN x b) a.

(* the last for-loop (circular references); None = the "can not resolve classes" error *)
Fixpoint circular (names : list N) (l sorted : list node) (upd : list N)
  : option (list node * list N) :=
  match l with
  | [] => Some (sorted, upd)
  | m :: r =>
      let unresolved := filter (fun x => negb (x =? n_path m) && negb (memN x (keys sorted))) (rcs m) in
      match unresolved with
      | [] => circular names r (sorted ++ [m])
                       (if inter_nonempty upd (n_bases m) || memN (n_path m) (rcs m) then upd ++ [n_path m] else upd)
      | _ => if forallb (fun x => memN x names) unresolved
             then circular names r (sorted ++ [m]) (upd ++ [n_path m])
             else None
      end
  end.

Definition finish (unres sorted : list node) (upd : list N) : option (list node * list N) :=
  match bubble (S (length unres)) unres with
  | None => None
  | Some l => circular (keys l) l sorted upd
  end.

(* the recursion: again while the sweep made progress and the budget lasts *)
Fixpoint sort_rec (budget : nat) (ms sorted : list node) (upd : list N) : option (list node * list N) :=
  match sweep ms sorted upd [] with
  | (sorted', upd', unres) =>
      match unres with
      | [] => Some (sorted', upd')
      | _ =>
          if Nat.eqb (length sorted') (length sorted) then finish unres sorted' upd'
          else match budget with
               | O => finish unres sorted' upd'
               | S b => sort_rec b unres sorted' upd'
               end
      end
  end.

Definition sort_data_models (budget : nat) (ms : list node) : option (list node * list N) :=
  sort_rec budget ms [] [].
