(* M7: ModelResolver._get_unique_name, the second pass of __replace_duplicate_name_in_module and
   get_relative_path (reference.py, parser/base.py). *)
From DMCG Require Export Str.
Open Scope N_scope.

(* _get_unique_name with duplicate_name_suffix unset and remove_suffix_number false:
   name, name1, name2, ... (camel) or name_1, name_2, ... until the name is not taken *)
Definition ucand (camel : bool) (name : str) (k : N) : str :=
  if camel then name ++ dec k else name ++ c_us :: dec k.

Fixpoint uniq (fuel : nat) (camel : bool) (name : str) (count : N) (taken : list str) (cur : str) : option str :=
  if mem_str cur taken
  then match fuel with
       | O => None
       | Datatypes.S f => uniq f camel name (count + 1) taken (ucand camel name count)
       end
  else Some cur.

Definition get_unique_name (fuel : nat) (camel : bool) (name : str) (taken : list str) : option str :=
  uniq fuel camel name 1 taken name.

(* names are handed out one after the other against the names taken so far (add with unique=True) *)
Fixpoint assign_unique (camel : bool) (taken : list str) (names : list str) : option (list str) :=
  match names with
  | [] => Some []
  | n :: r =>
      match get_unique_name (Datatypes.S (List.length taken)) camel n taken with
      | Some u => match assign_unique camel (u :: taken) r with Some l => Some (u :: l) | None => None end
      | None => None
      end
  end.

(* get_relative_path on path parts (both absolute): started = parent_count > 0 *)
Fixpoint grp (b t : list N) (started : bool) : nat * list N :=
  match b with
  | [] => (O, t)                       (* base exhausted: the remaining target parts are children *)
  | x :: b' =>
      match t with
      | [] => let (p, c) := grp b' [] true in (Datatypes.S p, c)
      | y :: t' =>
          if (x =? y) && negb started then grp b' t' false
          else let (p, c) := grp b' t' true in (Datatypes.S p, y :: c)
      end
  end.

(* walking from directory b: go up p levels, then down the children *)
Definition apply_rel (b : list N) (r : nat * list N) : list N :=
  firstn (List.length b - fst r) b ++ snd r.
