(* M3: DataType.type_hint, _remove_none_from_union, get_optional_type (types.py) on trees.
   The code works on rendered text; this model works on the tree the text denotes and prints it.
   Where the textual surgery of the code has a recognisable effect on trees (typing spelling: only
   a Union[...] prefix is understood, an Optional[...] is left alone) the model does the same. *)
From DMCG Require Export Str.
Open Scope N_scope.

Inductive lit := LInt (digits : str) | LBool (b : bool) | LStr (s : str).   (* s: clean text, shown in quotes *)
Inductive cont := CNone | CList | CSet | CDict (key : option str).

(* the intermediate representation: DataType *)
Inductive dt := DT (typ : option str) (children : list dt) (lits : list lit) (ref : option str)
                   (opt : bool) (c : cont).

Inductive hint :=
| HAtom (s : str) | HLit (ls : list lit) | HSub (head : str) (args : list hint)
| HUnion (alts : list hint) | HOpt (h : hint) | HNone | HEmpty.

Record spell := { uo : bool; sc : bool; gc : bool }.   (* union operator, standard collections, generic containers *)

Fixpoint lit_eqb (a b : lit) : bool :=
  match a, b with
  | LInt x, LInt y => str_eqb x y | LBool x, LBool y => Bool.eqb x y | LStr x, LStr y => str_eqb x y
  | _, _ => false
  end.

Fixpoint list_eqb {A} (e : A -> A -> bool) (a b : list A) : bool :=
  match a, b with
  | [], [] => true
  | x :: a', y :: b' => e x y && list_eqb e a' b'
  | _, _ => false
  end.

Fixpoint hint_eqb (a b : hint) : bool :=
  match a, b with
  | HAtom x, HAtom y => str_eqb x y
  | HLit x, HLit y => list_eqb lit_eqb x y
  | HSub h x, HSub g y => str_eqb h g && (fix go (x y : list hint) := match x, y with
                                           | [], [] => true | p :: x', q :: y' => hint_eqb p q && go x' y' | _, _ => false end) x y
  | HUnion x, HUnion y => (fix go (x y : list hint) := match x, y with
                             | [], [] => true | p :: x', q :: y' => hint_eqb p q && go x' y' | _, _ => false end) x y
  | HOpt x, HOpt y => hint_eqb x y
  | HNone, HNone => true
  | HEmpty, HEmpty => true
  | _, _ => false
  end.

Definition is_hnone (h : hint) : bool := match h with HNone => true | _ => false end.
Definition is_hempty (h : hint) : bool := match h with HEmpty => true | _ => false end.

(* the alternatives of the top-level | chain (operator spelling prints unions flat) *)
Fixpoint chain (h : hint) : list hint :=
  match h with
  | HOpt x => chain x ++ [HNone]
  | HUnion l => flat_map chain l
  | _ => [h]
  end.

Definition of_parts (l : list hint) : hint :=
  match l with [] => HNone | [x] => x | _ => HUnion l end.

(* _remove_none_from_union, operator spelling: drop every None of the top-level chain *)
Definition rn_op (h : hint) : hint :=
  match h with
  | HOpt _ | HUnion _ => of_parts (filter (fun x => negb (is_hnone x)) (chain h))
  | _ => h
  end.

(* typing spelling: only Union[...] is understood, recursively for members that are Union[...] *)
Fixpoint rn_ty (h : hint) : hint :=
  match h with
  | HUnion l =>
      of_parts (flat_map (fun x => if is_hnone x then [] else
                                     match x with HUnion _ => [rn_ty x] | _ => [x] end) l)
  | _ => h
  end.

Definition rn (o : spell) (h : hint) : hint := if uo o then rn_op h else rn_ty h.

(* get_optional_type *)
Definition make_optional (o : spell) (h : hint) : hint :=
  let h' := rn o h in
  if is_hempty h' || is_hnone h' then HNone else HOpt h'.

Definition s_Any : str := [65; 110; 121].
Definition is_any (h : hint) : bool := match h with HAtom s => str_eqb s s_Any | _ => false end.

Definition list_name (o : spell) : str :=
  if gc o then of_string "Sequence" else if sc o then of_string "list" else of_string "List".
Definition set_name (o : spell) : str :=
  if gc o then of_string "FrozenSet" else if sc o then of_string "set" else of_string "Set".
Definition dict_name (o : spell) : str :=
  if gc o then of_string "Mapping" else if sc o then of_string "dict" else of_string "Dict".

Definition wrap (o : spell) (c : cont) (h : hint) : hint :=
  match c with
  | CNone => h
  | CList => if is_hempty h then HAtom (list_name o) else HSub (list_name o) [h]
  | CSet => if is_hempty h then HAtom (set_name o) else HSub (set_name o) [h]
  | CDict key =>
      match key, is_hempty h with
      | None, true => HAtom (dict_name o)
      | _, _ => HSub (dict_name o) [HAtom (match key with Some k => k | None => of_string "str" end);
                                    if is_hempty h then HAtom s_Any else h]
      end
  end.

Fixpoint mem_hint (h : hint) (l : list hint) : bool :=
  match l with [] => false | x :: r => hint_eqb h x || mem_hint h r end.

(* the union branch: returns the collected alternatives and whether the union became optional *)
Fixpoint union_fold (o : spell) (hs : list hint) (acc : list hint) (opt : bool) : list hint * bool :=
  match hs with
  | [] => (acc, opt)
  | h :: r =>
      if mem_hint h acc then union_fold o r acc opt
      else if is_hnone h then union_fold o r acc true
      else let h' := rn o h in
           union_fold o r (acc ++ [h']) (opt || negb (hint_eqb h' h))
  end.

Definition mk_union (o : spell) (alts : list hint) : hint :=
  match alts with
  | [x] => x
  | _ => if uo o
         then HUnion (flat_map (fun a => match a with HUnion l => l | _ => [a] end) alts)  (* a | b | c prints flat *)
         else HUnion alts
  end.

(* DataType.type_hint: the hint, and the value of is_optional after rendering (rendering sets it) *)
Fixpoint th (o : spell) (t : dt) : hint * bool :=
  match t with
  | DT typ children lits ref opt c =>
      let '(base, opt1) :=
        match typ with
        | Some s => (HAtom s, opt)
        | None =>
            match children with
            | _ :: _ :: _ =>
                let '(alts, o') := union_fold o (map (fun ch => fst (th o ch)) children) [] false in
                (mk_union o alts, opt || o')
            | [ch] => (fst (th o ch), opt)
            | [] => match lits with
                    | _ :: _ => (HLit lits, opt)
                    | [] => match ref with Some r => (HAtom r, opt) | None => (HEmpty, opt) end
                    end
            end
        end in
      let w := wrap o c base in
      if opt1 && negb (is_any w) then (make_optional o w, opt1) else (w, opt1)
  end.

Definition type_hint (o : spell) (t : dt) : hint := fst (th o t).

(* ---- printing ---- *)
Fixpoint join (sep : str) (l : list str) : str :=
  match l with [] => [] | [x] => x | x :: r => x ++ sep ++ join sep r end.

Definition show_lit (l : lit) : str :=
  match l with
  | LInt d => d
  | LBool true => of_string "True"
  | LBool false => of_string "False"
  | LStr s => 39 :: s ++ [39]
  end.

Fixpoint show (o : spell) (h : hint) : str :=
  match h with
  | HAtom s => s
  | HLit ls => of_string "Literal[" ++ join (of_string ", ") (map show_lit ls) ++ [93]
  | HSub head args => head ++ 91 :: join (of_string ", ") (map (show o) args) ++ [93]
  | HUnion alts =>
      if uo o then join (of_string " | ") (map (show o) alts)
      else of_string "Union[" ++ join (of_string ", ") (map (show o) alts) ++ [93]
  | HOpt x => if uo o then show o x ++ of_string " | None" else of_string "Optional[" ++ show o x ++ [93]
  | HNone => of_string "None"
  | HEmpty => []
  end.

Definition render (o : spell) (t : dt) : str := show o (type_hint o t).
