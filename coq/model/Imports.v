(* M6: the Imports container (imports.py): append / remove / dump as a state machine.
   Keys are the from-part (None for plain "import x.y").  The defaultdict of sets is represented by
   the list of keys in insertion order plus the list of (fkey, name) pairs. *)
From Coq Require Import ZArith.
From DMCG Require Export Str.
Open Scope N_scope.

Definition fkey := option str.
Definition fkey_eqb (a b : fkey) : bool :=
  match a, b with None, None => true | Some x, Some y => str_eqb x y | _, _ => false end.

Record imprt := { i_from : fkey; i_name : str; i_alias : option str }.

Definition pair_eqb (p q : fkey * str) : bool := fkey_eqb (fst p) (fst q) && str_eqb (snd p) (snd q).

Record st := {
  s_order : list fkey;                    (* keys of the dict, insertion order *)
  s_pairs : list (fkey * str);            (* (from, name) with name in self[from] *)
  s_cnt : list (fkey * str * Z);          (* the counter *)
  s_alias : list (fkey * str * str) }.    (* alias[from][name] *)

Definition empty : st := {| s_order := []; s_pairs := []; s_cnt := []; s_alias := [] |}.

Definition has_pair (l : list (fkey * str)) (p : fkey * str) : bool := existsb (pair_eqb p) l.
Definition order_has (l : list fkey) (k : fkey) : bool := existsb (fkey_eqb k) l.
Definition fkey_used (l : list (fkey * str)) (k : fkey) : bool := existsb (fun p => fkey_eqb k (fst p)) l.

Fixpoint cnt_of (c : list (fkey * str * Z)) (p : fkey * str) : Z :=
  match c with
  | [] => 0%Z
  | (k', n', z) :: r => if pair_eqb p (k', n') then z else cnt_of r p
  end.

Fixpoint cnt_add (c : list (fkey * str * Z)) (p : fkey * str) (d : Z) : list (fkey * str * Z) :=
  match c with
  | [] => [(fst p, snd p, d)]
  | (k', n', z) :: r => if pair_eqb p (k', n') then (k', n', (z + d)%Z) :: r
                        else (k', n', z) :: cnt_add r p d
  end.

Definition dotted (n : str) : bool := mem_N c_dot n.

(* the fkey an import is filed under: dotted names go under None *)
Definition fkey_of (i : imprt) : fkey := if dotted (i_name i) then None else i_from i.
Definition pair_of (i : imprt) : fkey * str := (fkey_of i, i_name i).

Definition alias_del (a : list (fkey * str * str)) (p : fkey * str) : list (fkey * str * str) :=
  filter (fun e => negb (pair_eqb p (fst e))) a.
Definition alias_set (a : list (fkey * str * str)) (p : fkey * str) (al : str) : list (fkey * str * str) :=
  (fst p, snd p, al) :: alias_del a p.
Fixpoint alias_get (a : list (fkey * str * str)) (p : fkey * str) : option str :=
  match a with
  | [] => None
  | (k', n', al) :: r => if pair_eqb p (k', n') then Some al else alias_get r p
  end.

Definition append (s : st) (i : imprt) : st :=
  let p := pair_of i in
  {| s_order := if order_has (s_order s) (fst p) then s_order s else s_order s ++ [fst p];
     s_pairs := if has_pair (s_pairs s) p then s_pairs s else s_pairs s ++ [p];
     s_cnt := cnt_add (s_cnt s) p 1;
     s_alias := match i_alias i, dotted (i_name i) with
                | Some al, false => alias_set (s_alias s) p al
                | _, _ => s_alias s
                end |}.

Definition remove (s : st) (i : imprt) : st :=
  let p := pair_of i in
  let c' := cnt_add (s_cnt s) p (-1) in
  if Z.eqb (cnt_of c' p) 0 then
    let pairs' := filter (fun q => negb (pair_eqb p q)) (s_pairs s) in
    {| s_order := if fkey_used pairs' (fst p) then s_order s
                  else filter (fun k => negb (fkey_eqb (fst p) k)) (s_order s);   (* if not self[from_]: del self[from_] *)
       s_pairs := pairs';
       s_cnt := c';
       s_alias := match i_alias i, dotted (i_name i) with
                  | Some _, false => alias_del (s_alias s) p
                  | _, _ => s_alias s
                  end |}
  else {| s_order := s_order s; s_pairs := s_pairs s; s_cnt := c'; s_alias := s_alias s |}.

Inductive op := Append (i : imprt) | Remove (i : imprt).
Definition step (s : st) (o : op) : st := match o with Append i => append s i | Remove i => remove s i end.
Definition run (ops : list op) (s : st) : st := fold_left step ops s.

(* a remove is matched when the pair is currently counted *)
Fixpoint ops_ok (s : st) (ops : list op) : bool :=
  match ops with
  | [] => true
  | Append i :: r => ops_ok (append s i) r
  | Remove i :: r => Z.ltb 0 (cnt_of (s_cnt s) (pair_of i)) && ops_ok (remove s i) r
  end.

(* dump: one line per fkey in dict order; the names of the line (the code sorts them) with their alias *)
Definition line_names (s : st) (k : fkey) : list (str * option str) :=
  map (fun p => (snd p, match alias_get (s_alias s) p with
                        | Some al => if str_eqb al (snd p) then None else Some al
                        | None => None end))
      (filter (fun p => fkey_eqb k (fst p)) (s_pairs s)).
Definition dump_lines (s : st) : list (fkey * list (str * option str)) :=
  map (fun k => (k, line_names s k)) (s_order s).
