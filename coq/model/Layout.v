(* Layout of a multi-module output: which module key is written as <m>.py and which as
   <m>/__init__.py.  Hand model of the module loop of Parser.parse (parser/base.py): the module keys
   are processed deepest first (ties in reverse path order), the packages between two consecutively
   processed keys that differ by more than one level are visited too (with no models), visiting a
   key registers its parent directory as a package, and a key is written as a package exactly when
   its own directory has been registered by then. *)
From Coq Require Import List NArith Bool Arith.
From DMCG Require Import Relative.
Import ListNotations.
Open Scope N_scope.

(* lexicographic "a >= b" on paths (Python tuple comparison, reversed) *)
Fixpoint lex_geb (a b : path) : bool :=
  match a, b with
  | _, [] => true
  | [], _ :: _ => false
  | x :: a', y :: b' => if y <? x then true else if x =? y then lex_geb a' b' else false
  end.

(* a is processed no later than b: sorted(key=(len, path), reverse=True) *)
Definition lay_before (a b : path) : bool :=
  (length b <? length a)%nat || ((length a =? length b)%nat && lex_geb a b).

Fixpoint lay_insert (x : path) (l : list path) : list path :=
  match l with
  | [] => [x]
  | y :: r => if lay_before x y then x :: l else y :: lay_insert x r
  end.
Definition process_order (M : list path) : list path := fold_right lay_insert [] M.

(* prefixes of prev of length len prev - 1 down to len cur + 1 *)
Fixpoint between_ (prev : path) (k lo : nat) : list path :=
  match k with
  | O => []
  | S k' => if (lo <? k)%nat then firstn k prev :: between_ prev k' lo else []
  end.
Definition between (prev cur : path) : list path :=
  if (1 <? length prev - length cur)%nat then between_ prev (length prev - 1) (length cur) else [].

Fixpoint lay_visit (prev : path) (ms : list path) : list path :=
  match ms with
  | [] => []
  | m :: rest => between prev m ++ m :: lay_visit m rest
  end.

Definition lay_parent (m : path) : path := removelast m.
Definition lay_registered (reg : list path) (m : path) : bool := existsb (path_eqb m) reg.

(* (module key, written as a package?) in processing order; reg = directories registered so far *)
Fixpoint lay_assign (reg : list path) (vs : list path) : list (path * bool) :=
  match vs with
  | [] => []
  | [] :: rest => ([], true) :: lay_assign reg rest
  | m :: rest => let reg' := lay_parent m :: reg in (m, lay_registered reg' m) :: lay_assign reg' rest
  end.

Definition layout (M : list path) : list (path * bool) := lay_assign [] (lay_visit [] (process_order M)).

Fixpoint lookup_pkg (l : list (path * bool)) (m : path) : option bool :=
  match l with
  | [] => None
  | (k, b) :: r => if path_eqb k m then Some b else lookup_pkg r m
  end.

(* a plain module file <m>.py next to a directory <m>/ of the same output *)
Definition shadowed (M : list path) (m : path) : bool :=
  match lookup_pkg (layout M) m with
  | Some false => existsb (strict_prefix m) M
  | _ => false
  end.

(* the module keys the layout is right for: every key that has a descendant also has one exactly one level
   below it among the visited keys - decided by running the layout *)
Definition layout_sound (M : list path) : bool := negb (existsb (shadowed M) M).

Definition has_child (M : list path) (m : path) : bool :=
  existsb (fun c => path_eqb (lay_parent c) m && negb (path_eqb c [])) M.
