(* M5: relative / exact_import (parser/base.py), the from/import forms written by
   __change_from_import, and Python's rule for resolving a relative import (the specification). 
   Module paths are lists of segments; a segment is an atom (N). *)
From Coq Require Export List NArith Bool.
Export ListNotations.
Open Scope N_scope.

Definition path := list N.

Fixpoint path_eqb (a b : path) : bool :=
  match a, b with
  | [], [] => true
  | x :: a', y :: b' => (x =? y) && path_eqb a' b'
  | _, _ => false
  end.

(* what remains of both paths after their longest common prefix *)
Fixpoint strip_common (a b : path) : path * path :=
  match a, b with
  | x :: a', y :: b' => if x =? y then strip_common a' b' else (a, b)
  | _, _ => (a, b)
  end.

(* a written import: from <dots><extra joined by .> import <right> *)
Record imp := { i_dots : nat; i_extra : path; i_right : N }.

(* relative(current_module, reference): reference = rp ++ [name].  None is the ("", "") answer. *)
Definition relative (cur rp : path) (name : N) : option imp :=
  if path_eqb cur rp then None
  else
    let (cur_rest, rest) := strip_common cur rp in
    let dots := match cur_rest with [] => 1%nat | _ => length cur_rest end in
    match rest with
    | [] => Some {| i_dots := dots; i_extra := []; i_right := name |}
    | _ => Some {| i_dots := dots; i_extra := removelast rest; i_right := last rest 0 |}
    end.

(* exact_import and the base-class branch of __change_from_import: from <left>[.]<right> import <name> *)
Definition exact (i : imp) (name : N) : imp :=
  {| i_dots := i_dots i; i_extra := i_extra i ++ [i_right i]; i_right := name |}.

(* the extra dot added when the importing file is a package __init__ *)
Definition init_adjust (init : bool) (i : imp) : imp :=
  if init then {| i_dots := Datatypes.S (i_dots i); i_extra := i_extra i; i_right := i_right i |} else i.

(* what __change_from_import writes for a member type, and the qualified use at the use site:
   the imported binding followed by the attribute path *)
Definition written (use_exact is_base init : bool) (cur rp : path) (name : N) : option (imp * path) :=
  match relative cur rp name with
  | None => None
  | Some i =>
      if use_exact || is_base then Some (init_adjust init (exact i name), [name])
      else Some (init_adjust init i,
                 match snd (strip_common cur rp) with [] => [name] | _ => [i_right i; name] end)
  end.

(* ---- specification: Python's relative import rule ----
   pkg is the package of the importing file: its module path for a package __init__, the module
   path without its last segment for a plain module.  k leading dots drop k-1 trailing segments. *)
Definition package_of (init : bool) (cur : path) : path :=
  if init then cur else removelast cur.

Definition py_resolve (pkg : path) (i : imp) : option path :=
  match i_dots i with
  | O => None
  | Datatypes.S up =>
      if Nat.leb up (length pkg)
      then Some (firstn (length pkg - up) pkg ++ i_extra i ++ [i_right i])
      else None   (* attempted relative import beyond top-level package *)
  end.

(* the object a use site reaches: the imported binding resolves to `target`; the use is
   binding.attr...: target ++ tail of the use path *)
Definition resolve_use (pkg : path) (w : imp * path) : option path :=
  match py_resolve pkg (fst w) with
  | Some t => Some (t ++ tl (snd w))
  | None => None
  end.

(* which module keys become package __init__ files: those with a strict descendant among the keys *)
Fixpoint is_prefix (a b : path) : bool :=
  match a, b with
  | [], _ => true
  | x :: a', y :: b' => (x =? y) && is_prefix a' b'
  | _ :: _, [] => false
  end.
Definition strict_prefix (a b : path) : bool := is_prefix a b && negb (path_eqb a b).
Definition is_init (M : list path) (m : path) : bool :=
  match m with [] => false | _ => existsb (strict_prefix m) M end.
