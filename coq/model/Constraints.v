(* M9: numeric constraints from the schema to the generated model.
   - cnormalize: JsonSchemaObject.validate_exclusive_maximum_and_exclusive_minimum (draft-4 booleans)
   - ctranslate: kwargs_schema_to_model + the int() conversion of get_data_int_type /
     _get_strict_field_constraint_value
   - sat_schema / sat_model: what the schema and the generated integer field accept.
   Bounds are in half units (b stands for b/2) so that non-integral bounds such as 1.5 exist while
   everything stays linear; instance values are integers (whole units). *)
From Coq Require Export ZArith List Bool String.
Export ListNotations.
Open Scope Z_scope.

Inductive excl := XNone | XBool (b : bool) | XNum (v : Z).

Record numc := { c_min : option Z; c_max : option Z; c_xmin : excl; c_xmax : excl; c_mult : option Z }.

(* the pre-validator: None = KeyError (exclusiveMaximum: true without maximum) *)
Definition cnormalize (c : numc) : option numc :=
  let up := match c_xmax c with
            | XBool true => match c_max c with Some m => Some (None, XNum m) | None => None end
            | XBool false => Some (c_max c, XNone)
            | x => Some (c_max c, x)
            end in
  let lo := match c_xmin c with
            | XBool true => match c_min c with Some m => Some (None, XNum m) | None => None end
            | XBool false => Some (c_min c, XNone)
            | x => Some (c_min c, x)
            end in
  match up, lo with
  | Some (mx, xmx), Some (mn, xmn) =>
      Some {| c_min := mn; c_max := mx; c_xmin := xmn; c_xmax := xmx; c_mult := c_mult c |}
  | _, _ => None
  end.

(* keyword arguments of conint(...) / Field(...) for an integer member, in whole units *)
Record kwargs := { k_ge : option Z; k_le : option Z; k_gt : option Z; k_lt : option Z; k_mult : option Z }.

Definition int_of_half (b : Z) : Z := Z.quot b 2.     (* Python int(b/2): truncation toward zero *)

Definition ctranslate (c : numc) : kwargs :=
  {| k_ge := option_map int_of_half (c_min c);
     k_le := option_map int_of_half (c_max c);
     k_gt := match c_xmin c with XNum v => Some (int_of_half v) | _ => None end;
     k_lt := match c_xmax c with XNum v => Some (int_of_half v) | _ => None end;
     k_mult := c_mult c |}.

Definition opt_ok (o : option Z) (p : Z -> bool) : bool := match o with Some x => p x | None => true end.

(* what pydantic enforces for the keyword arguments *)
Definition sat_model (k : kwargs) (v : Z) : bool :=
  opt_ok (k_ge k) (fun b => b <=? v) && opt_ok (k_le k) (fun b => v <=? b)
  && opt_ok (k_gt k) (fun b => b <? v) && opt_ok (k_lt k) (fun b => v <? b)
  && opt_ok (k_mult k) (fun m => (v mod m) =? 0).

(* JSON Schema semantics, draft-4 flags and draft-6 numbers side by side; bounds in half units *)
Definition sat_schema (c : numc) (v : Z) : bool :=
  let lower := match c_xmin c with
               | XBool true => opt_ok (c_min c) (fun b => b <? 2 * v)
               | XNum x => (x <? 2 * v) && opt_ok (c_min c) (fun b => b <=? 2 * v)
               | _ => opt_ok (c_min c) (fun b => b <=? 2 * v)
               end in
  let upper := match c_xmax c with
               | XBool true => opt_ok (c_max c) (fun b => 2 * v <? b)
               | XNum x => (2 * v <? x) && opt_ok (c_max c) (fun b => 2 * v <=? b)
               | _ => opt_ok (c_max c) (fun b => 2 * v <=? b)
               end in
  lower && upper && opt_ok (c_mult c) (fun m => (v mod m) =? 0).

(* number members: bounds and values both in half units, nothing is truncated (confloat(...) / Field(...)
   on a float member); multipleOf on binary floats is outside the model *)
Definition sat_schema_h (c : numc) (hv : Z) : bool :=
  let lower := match c_xmin c with
               | XBool true => opt_ok (c_min c) (fun b => b <? hv)
               | XNum x => (x <? hv) && opt_ok (c_min c) (fun b => b <=? hv)
               | _ => opt_ok (c_min c) (fun b => b <=? hv)
               end in
  let upper := match c_xmax c with
               | XBool true => opt_ok (c_max c) (fun b => hv <? b)
               | XNum x => (hv <? x) && opt_ok (c_max c) (fun b => hv <=? b)
               | _ => opt_ok (c_max c) (fun b => hv <=? b)
               end in
  lower && upper.

Definition ktranslate_h (c : numc) : kwargs :=
  {| k_ge := c_min c; k_le := c_max c;
     k_gt := match c_xmin c with XNum v => Some v | _ => None end;
     k_lt := match c_xmax c with XNum v => Some v | _ => None end;
     k_mult := None |}.

Definition sat_model_h (k : kwargs) (hv : Z) : bool :=
  opt_ok (k_ge k) (fun b => b <=? hv) && opt_ok (k_le k) (fun b => hv <=? b)
  && opt_ok (k_gt k) (fun b => b <? hv) && opt_ok (k_lt k) (fun b => hv <? b).

Definition even_opt (o : option Z) : bool := opt_ok o Z.even.
Definition integral (c : numc) : bool :=
  even_opt (c_min c) && even_opt (c_max c)
  && match c_xmin c with XNum v => Z.even v | _ => true end
  && match c_xmax c with XNum v => Z.even v | _ => true end.

(* the draft-6 way of writing a draft-4 record *)
Definition to_draft6 (c : numc) : numc :=
  match cnormalize c with Some c' => c' | None => c end.

(* keyword table: which model keyword a schema keyword must map to *)
Definition expected_kw : list (String.string * list String.string) := [
  ("minimum", ["ge"]); ("maximum", ["le"]); ("exclusiveMinimum", ["gt"]); ("exclusiveMaximum", ["lt"]);
  ("multipleOf", ["multiple_of"]); ("minLength", ["min_length"]); ("maxLength", ["max_length"]);
  ("minItems", ["min_items"; "min_length"]); ("maxItems", ["max_items"; "max_length"]); ("pattern", ["regex"; "pattern"])
]%string.

Fixpoint smem (x : String.string) (l : list String.string) : bool :=
  match l with [] => false | y :: r => String.eqb x y || smem x r end.
Fixpoint sassoc (t : list (String.string * String.string)) (k : String.string) : option String.string :=
  match t with [] => None | (a, b) :: r => if String.eqb a k then Some b else sassoc r k end.

Definition kw_table_ok (t : list (String.string * String.string)) : bool :=
  forallb (fun e => match sassoc t (fst e) with Some m => smem m (snd e) | None => false end) expected_kw.
