(* M8: how one member of an object schema becomes a line of a generated class, and what that line
   means to pydantic v1 / v2, dataclasses, TypedDict and msgspec.
   - flags_of: the member's schema-level state and the options -> the arguments the parser passes to
     the field class (model of JsonSchemaParser.parse_object_fields / get_object_field / get_data_type);
   - the rendered line for every argument vector is NOT modelled by hand: it is the table
     gen/FieldTable.v, produced on every run by rendering the real field classes and class templates
     for every flag combination;
   - required_rt / admits_null / reads: the meaning of the rendered line (validated against the real
     libraries on every distinct cell by the harness). *)
From Coq Require Export List NArith Bool.
Export ListNotations.
Open Scope N_scope.

Inductive kind := KV1 | KV2 | KDC | KTD | KMS.
Inductive dflt := DNo | DNone | DVal.
Inductive eff := ENone | EEllipsis | ENoneV | EValue | EFactory.

Record flags := {
  f_kind : kind; f_req : bool; f_dflt : dflt; f_nullable : option bool; f_thn : bool; f_dtopt : bool;
  f_sdn : bool; f_ua : bool; f_constr : bool; f_udk : bool }.

Record rend := { r_opt : bool; r_notreq : bool; r_eff : eff }.

Definition b2n (b : bool) : N := if b then 1 else 0.
Definition kind_n (k : kind) : N := match k with KV1 => 0 | KV2 => 1 | KDC => 2 | KTD => 3 | KMS => 4 end.
Definition dflt_n (d : dflt) : N := match d with DNo => 0 | DNone => 1 | DVal => 2 end.
Definition nullable_n (n : option bool) : N := match n with None => 0 | Some true => 1 | Some false => 2 end.

(* the same mixed-radix cell_key the reflector writes *)
Definition cell_key (f : flags) : N :=
  ((((((((kind_n (f_kind f) * 2 + b2n (f_req f)) * 3 + dflt_n (f_dflt f)) * 3 + nullable_n (f_nullable f)) * 2
        + b2n (f_thn f)) * 2 + b2n (f_dtopt f)) * 2 + b2n (f_sdn f)) * 2 + b2n (f_ua f)) * 2 + b2n (f_constr f)) * 2
  + b2n (f_udk f).

Fixpoint lookup (t : list (N * rend)) (k : N) : option rend :=
  match t with [] => None | (k', r) :: rest => if k' =? k then Some r else lookup rest k end.

(* ---- schema level ---- *)
Record member := { m_required : bool; m_dflt : dflt; m_type_null : bool; m_nullable_kw : bool; m_constr : bool }.
Record opts := { o_strict : bool; o_force : bool; o_usedef : bool; o_sdn : bool; o_ua : bool; o_fc : bool; o_udk : bool }.

Definition has_default (m : member) : bool := match m_dflt m with DNo => false | _ => true end.

Definition flags_of (k : kind) (m : member) (o : opts) : flags :=
  let req := if o_force o || (o_usedef o && has_default m) then false else m_required m in
  let ua := match k with KMS => true | KDC | KTD => false | _ => o_ua o end in
  {| f_kind := k; f_req := req; f_dflt := m_dflt m;
     f_nullable := if o_strict o && (has_default m || req) then Some (m_nullable_kw m) else None;
     f_thn := m_type_null m; f_dtopt := m_type_null m; f_sdn := o_sdn o; f_ua := ua;
     f_constr := match k with KDC | KTD => false | _ => m_constr m && (o_fc o || ua) end;
     f_udk := match k with KV1 | KV2 => o_udk o | _ => false end |}.

(* ---- meaning of a rendered line ---- *)
Definition required_rt (k : kind) (r : rend) : bool :=
  match k with
  | KTD => negb (r_notreq r)
  | KV1 => match r_eff r with EEllipsis => true | ENone => negb (r_opt r) | _ => false end
  | _ => match r_eff r with ENone | EEllipsis => true | _ => false end
  end.

(* pydantic v1 makes a member with default None implicitly Optional *)
Definition admits_null (k : kind) (r : rend) : bool :=
  r_opt r || match k, r_eff r with KV1, ENoneV => true | _, _ => false end.

(* what an omitted member reads as: 0 = None / absent, 1 = the schema default *)
Definition reads_default (k : kind) (r : rend) : option bool :=
  match k, r_eff r with
  | KTD, _ => Some false
  | _, ENoneV => Some false
  | KV1, ENone => if r_opt r then Some false else None
  | _, EValue | _, EFactory => Some true
  | _, _ => None
  end.

(* the statement of C05 for one member under one option vector (force_optional excluded: that option
   asks for every member to be optional) *)
Definition c05_ok (k : kind) (m : member) (o : opts) (r : rend) : bool :=
  let schema_required := m_required m && negb (o_usedef o && has_default m) in
  (* required and without default: must be supplied *)
  (negb (schema_required && negb (has_default m)) || required_rt k r)
  (* not required: may be omitted, reads None/absent or the default *)
  && (schema_required
      || (negb (required_rt k r)
          && match reads_default k r with
             | Some d => Bool.eqb d (match m_dflt m, k with DVal, KTD => false | DVal, _ => true | _, _ => false end)
             | None => false
             end))
  (* admits null: null accepted *)
  && (negb (m_type_null m || m_nullable_kw m) || admits_null k r).

(* classes where the faithful table refutes the statement (each is a known finding) *)
Definition guard (k : kind) (m : member) (o : opts) : bool :=
  let nullable_schema := m_type_null m || m_nullable_kw m in
  let schema_required := m_required m && negb (o_usedef o && has_default m) in
  negb (o_force o)
  (* G1: required nullable member without default on pydantic / msgspec *)
  && negb (schema_required && negb (has_default m) && nullable_schema && match k with KV1 | KV2 | KMS => true | _ => false end)
  (* G2: nullable:true keyword without --strict-nullable, or on TypedDict *)
  && negb (m_nullable_kw m && negb (m_type_null m) && (negb (o_strict o) || match k with KTD => true | _ => false end))
  (* G3: --strip-default-none on a non-required member without a value default *)
  && negb (o_sdn o && negb schema_required && match m_dflt m with DVal => false | _ => true end).

Definition all_bool := [true; false].
Definition all_members : list member :=
  flat_map (fun r => flat_map (fun d => flat_map (fun t => flat_map (fun n => map (fun c =>
    {| m_required := r; m_dflt := d; m_type_null := t; m_nullable_kw := n; m_constr := c |}) all_bool) all_bool) all_bool)
    [DNo; DNone; DVal]) all_bool.
Definition all_opts : list opts :=
  flat_map (fun a => flat_map (fun b => flat_map (fun c => flat_map (fun d => flat_map (fun e => flat_map (fun f => map (fun g =>
    {| o_strict := a; o_force := b; o_usedef := c; o_sdn := d; o_ua := e; o_fc := f; o_udk := g |})
    all_bool) all_bool) all_bool) all_bool) all_bool) all_bool) all_bool.
Definition all_kinds := [KV1; KV2; KDC; KTD; KMS].

Definition check_all (t : list (N * rend)) (p : kind -> member -> opts -> option rend -> bool) : bool :=
  forallb (fun k => forallb (fun m => forallb (fun o => p k m o (lookup t (cell_key (flags_of k m o)))) all_opts) all_members) all_kinds.
