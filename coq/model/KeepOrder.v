(* M4b: Parser.__sort_models (keep_model_order): alphabetical sort of the classes of a module, then passes
   that push a class behind its successor while one of its base classes is not yet defined (or
   imported).  Names are numbers (their rank in the alphabetical order is all the code uses besides
   equality).  The while loop of the code has no bound; the model takes fuel and returns None when it
   runs out (the code would not terminate: known finding under C11). *)
From Coq Require Export NArith List Bool.
Export ListNotations.
Open Scope N_scope.

Record km := { k_name : N; k_bases : list N }.

Fixpoint memb (x : N) (l : list N) : bool :=
  match l with [] => false | y :: r => (x =? y) || memb x r end.

Fixpoint insert (m : km) (l : list km) : list km :=
  match l with
  | [] => [m]
  | x :: r => if k_name m <=? k_name x then m :: l else x :: insert m r
  end.
Fixpoint isort (l : list km) : list km :=
  match l with [] => [] | x :: r => insert x (isort r) end.

(* all base classes other than the class itself are resolved *)
Definition ready (resolved : list N) (m : km) : bool :=
  forallb (fun b => (b =? k_name m) || memb b resolved) (k_bases m).

(* one for-loop: cur is models[i], rest are models[i+1:]; the last model is never examined *)
Fixpoint pass (resolved : list N) (cur : km) (rest : list km) : list km * bool :=
  match rest with
  | [] => ([cur], false)
  | nxt :: r =>
      if ready resolved cur
      then let '(t, ch) := pass (k_name cur :: resolved) nxt r in (cur :: t, ch)
      else let '(t, _) := pass resolved cur r in (nxt :: t, true)
  end.

Definition pass_all (imported : list N) (ms : list km) : list km * bool :=
  match ms with [] => ([], false) | m :: r => pass imported m r end.

Fixpoint settle (fuel : nat) (imported : list N) (ms : list km) : option (list km) :=
  match fuel with
  | O => None
  | S f => let '(ms', ch) := pass_all imported ms in
           if ch then settle f imported ms' else Some ms'
  end.

Definition keep_order (fuel : nat) (imported : list N) (ms : list km) : option (list km) :=
  settle fuel imported (isort ms).

(* every base class of every class is defined earlier or imported *)
Fixpoint bases_first (resolved : list N) (ms : list km) : bool :=
  match ms with
  | [] => true
  | m :: r => ready resolved m && bases_first (k_name m :: resolved) r
  end.
