(* M10: a JSON Schema sub-language, JSON instances, the model types the generator emits for it and
   what those accept.
   - schema: typed scalars with their constraints (integer bounds through M9 in both draft styles),
     string enums, type [T, null], arrays with item counts, objects with properties / required /
     additionalProperties false, objects used as maps, anyOf.
   - gen: what JsonSchemaParser + the pydantic field/class rendering produce, after the
     canonicalisation the harness applies to the real output (nested classes and root models inlined,
     constraints collected whether they sit in con*(...) or Field(...)): one record per field with
     python name, alias, required, nullable and type.  Member names come from M1 (assign_names).
   - valid: JSON Schema semantics; accepts: pydantic's semantics on exactly typed JSON (no lax
     coercion: an under-approximation of what pydantic accepts). *)
From DMCG Require Export Str Ident IdentInst Constraints.
From Coq Require Import List Bool ZArith NArith.
Import ListNotations.
Open Scope N_scope.

Inductive json :=
| VNull | VBool (b : bool) | VInt (z : Z) | VFlt (h : Z) | VStr (s : str)   (* VFlt h: a non-integral number, h halves *)
| VArr (l : list json) | VObj (m : list (str * json)).

Inductive schema :=
| SInt (c : numc) | SNum | SNumC (c : numc) | SStr (lo hi : option N) | SBool | SNullT | SAnyT
| SEnum (vals : list str)
| SNullable (s : schema)
| SArr (s : schema) (lo hi : option N)
| SMap (s : schema)
| SAny (alts : list schema)
| SObj (props : list (str * (bool * schema))) (closed : bool).   (* name, (required, schema) *)

Record finfo := { f_py : str; f_alias : option str; f_req : bool; f_null : bool }.

Inductive pytype :=
| TInt (k : kwargs) | TFloat | TFloatC (k : kwargs) | TStr (lo hi : option N) | TBool | TNone | TAny
| TEnum (vals : list str)
| TOpt (t : pytype)
| TList (t : pytype) (lo hi : option N)
| TDict (t : pytype)
| TUnion (ts : list pytype)
| TModel (fields : list (finfo * pytype)) (forbid : bool)
| TError.

Definition len_ok (lo hi : option N) (n : nat) : bool :=
  match lo with Some a => (a <=? N.of_nat n)%N | None => true end
  && match hi with Some b => (N.of_nat n <=? b)%N | None => true end.

Fixpoint jlookup (k : str) (m : list (str * json)) : option json :=
  match m with
  | [] => None
  | (a, v) :: r => if str_eqb a k then Some v else jlookup k r
  end.

Definition v_is_null (v : json) : bool := match v with VNull => true | _ => false end.

(* ---- JSON Schema semantics ------------------------------------------------------------------ *)
Fixpoint valid (s : schema) (v : json) {struct s} : bool :=
  match s with
  | SInt c => match v with VInt z => sat_schema c z | _ => false end
  | SNum => match v with VInt _ | VFlt _ => true | _ => false end
  | SNumC c => match v with VInt z => sat_schema_h c (2 * z) | VFlt h => sat_schema_h c h | _ => false end
  | SStr lo hi => match v with VStr x => len_ok lo hi (List.length x) | _ => false end
  | SBool => match v with VBool _ => true | _ => false end
  | SNullT => v_is_null v
  | SAnyT => true
  | SEnum vs => match v with VStr x => mem_str x vs | _ => false end
  | SNullable s' => v_is_null v || valid s' v
  | SArr s' lo hi => match v with VArr l => len_ok lo hi (List.length l) && forallb (valid s') l | _ => false end
  | SMap s' => match v with VObj m => forallb (fun kv => valid s' (snd kv)) m | _ => false end
  | SAny alts => existsb (fun a => valid a v) alts
  | SObj props closed =>
      match v with
      | VObj m =>
          forallb (fun p => match jlookup (fst p) m with
                            | None => negb (fst (snd p))
                            | Some x => valid (snd (snd p)) x
                            end) props
          && (negb closed || forallb (fun kv => mem_str (fst kv) (map fst props)) m)
      | _ => false
      end
  end.

(* the same with the one relaxation C04 allows: null for a member that is not required *)
Fixpoint valid_relaxed (s : schema) (v : json) {struct s} : bool :=
  match s with
  | SInt c => match v with VInt z => sat_schema c z | _ => false end
  | SNum => match v with VInt _ | VFlt _ => true | _ => false end
  | SNumC c => match v with VInt z => sat_schema_h c (2 * z) | VFlt h => sat_schema_h c h | _ => false end
  | SStr lo hi => match v with VStr x => len_ok lo hi (List.length x) | _ => false end
  | SBool => match v with VBool _ => true | _ => false end
  | SNullT => v_is_null v
  | SAnyT => true
  | SEnum vs => match v with VStr x => mem_str x vs | _ => false end
  | SNullable s' => v_is_null v || valid_relaxed s' v
  | SArr s' lo hi => match v with VArr l => len_ok lo hi (List.length l) && forallb (valid_relaxed s') l | _ => false end
  | SMap s' => match v with VObj m => forallb (fun kv => valid_relaxed s' (snd kv)) m | _ => false end
  | SAny alts => existsb (fun a => valid_relaxed a v) alts
  | SObj props closed =>
      match v with
      | VObj m =>
          forallb (fun p => match jlookup (fst p) m with
                            | None => negb (fst (snd p))
                            | Some x => (negb (fst (snd p)) && v_is_null x) || valid_relaxed (snd (snd p)) x
                            end) props
          && (negb closed || forallb (fun kv => mem_str (fst kv) (map fst props)) m)
      | _ => false
      end
  end.

(* ---- the generator -------------------------------------------------------------------------- *)
Definition is_topt (t : pytype) : bool := match t with TOpt _ => true | _ => false end.
Definition is_opt (t : pytype) : bool := match t with TOpt _ | TNone => true | _ => false end.
Definition strip_opt (t : pytype) : pytype := match t with TOpt t' => t' | _ => t end.

(* A required member whose type admits null is written either as a required Optional[T] or as
   Optional[T] = None, depending on the constraint style and on whether it carries constraints (M5 /
   C05 hold the table); rq = it stays required.  Acceptance holds for both, the structural comparison
   and the rejection theorem leave such members out (strict). *)
Definition mk_field (rq : bool) (p : str * (bool * pytype)) (na : str * option str) : finfo * pytype :=
  let t := snd (snd p) in
  let req := fst (snd p) && (rq || negb (is_topt t)) in
  ({| f_py := fst na; f_alias := snd na; f_req := req; f_null := negb req || is_opt t |}, strip_opt t).

Fixpoint zip_fields (rq : bool) (ps : list (str * (bool * pytype))) (ns : list (str * option str)) : list (finfo * pytype) :=
  match ps, ns with
  | p :: ps', n :: ns' => mk_field rq p n :: zip_fields rq ps' ns'
  | _, _ => []
  end.

(* Where a schema sits: the type of a member (possibly under [T, null]), the value type of a map, or
   anywhere else (array items, anyOf members).  fc = --field-constraints.
   The code as it is: item counts are written for a member-level array, and in the field-constraints
   style also for an array that is the item of an array or a union member, never for one that is a map
   value (known finding C04-nested-array-constraints); in the field-constraints style the bounds of a
   scalar that is directly a map value are dropped (known finding C04-dict-value-constraints). *)
Inductive pos := PTop | PIn | PVal.
Definition is_pval (p : pos) : bool := match p with PVal => true | _ => false end.
Definition keeps_counts (fc : bool) (p : pos) : bool :=
  match p with PTop => true | PIn => fc | PVal => false end.
Definition drops_bounds (fc : bool) (p : pos) : bool := fc && is_pval p.

Definition c_none : numc := {| c_min := None; c_max := None; c_xmin := XNone; c_xmax := XNone; c_mult := None |}.
Definition c_is_none (c : numc) : bool :=
  match c with
  | {| c_min := None; c_max := None; c_xmin := XNone; c_xmax := XNone; c_mult := None |} => true
  | _ => false
  end.
Definition on_is_none (o : option N) : bool := match o with None => true | _ => false end.

Definition is_snullt (s : schema) : bool := match s with SNullT => true | _ => false end.

Fixpoint gen (o : opts) (fc rq : bool) (p : pos) (s : schema) {struct s} : pytype :=
  match s with
  | SInt c => match cnormalize (if drops_bounds fc p then c_none else c) with
              | Some c' => TInt (ctranslate c') | None => TError end
  | SNum => TFloat
  | SNumC c => match cnormalize (if drops_bounds fc p then c_none else c) with
               | Some c' => TFloatC (ktranslate_h c') | None => TError end
  | SStr lo hi => if drops_bounds fc p then TStr None None else TStr lo hi
  | SBool => TBool
  | SNullT => TNone
  | SAnyT => TAny
  | SEnum vs => TEnum vs
  | SNullable s' => TOpt (gen o fc rq p s')
  | SArr s' lo hi => if keeps_counts fc p then TList (gen o fc rq PIn s') lo hi else TList (gen o fc rq PIn s') None None
  | SMap s' => TDict (gen o fc rq PVal s')
  | SAny alts =>
      (* a null alternative makes the union optional: Optional[T] for one other alternative, Optional[Union[...]] for more *)
      let ts := flat_map (fun a => if is_snullt a then [] else [gen o fc rq PIn a]) alts in
      if existsb is_snullt alts then TOpt (match ts with [t] => t | _ => TUnion ts end) else TUnion ts
  | SObj props closed =>
      match assign_names U0 Pyd o [] [] (map fst props) with
      | Some names =>
          TModel (zip_fields rq (map (fun q => (fst q, (fst (snd q), gen o fc rq PTop (snd (snd q))))) props) names) closed
      | None => TError
      end
  end.

(* ---- what the generated model accepts ------------------------------------------------------- *)
Definition wire (f : finfo) : str := match f_alias f with Some a => a | None => f_py f end.

Fixpoint accepts (t : pytype) (v : json) {struct t} : bool :=
  match t with
  | TInt k => match v with VInt z => sat_model k z | _ => false end
  | TFloat => match v with VInt _ | VFlt _ => true | _ => false end
  | TFloatC k => match v with VInt z => sat_model_h k (2 * z) | VFlt h => sat_model_h k h | _ => false end
  | TStr lo hi => match v with VStr x => len_ok lo hi (List.length x) | _ => false end
  | TBool => match v with VBool _ => true | _ => false end
  | TNone => v_is_null v
  | TAny => true
  | TEnum vs => match v with VStr x => mem_str x vs | _ => false end
  | TOpt t' => v_is_null v || accepts t' v
  | TList t' lo hi => match v with VArr l => len_ok lo hi (List.length l) && forallb (accepts t') l | _ => false end
  | TDict t' => match v with VObj m => forallb (fun kv => accepts t' (snd kv)) m | _ => false end
  | TUnion ts => existsb (fun a => accepts a v) ts
  | TModel fields forbid =>
      match v with
      | VObj m =>
          forallb (fun f => match jlookup (wire (fst f)) m with
                            | None => negb (f_req (fst f))
                            | Some x => (f_null (fst f) && v_is_null x) || accepts (snd f) x
                            end) fields
          && (negb forbid || forallb (fun kv => mem_str (fst kv) (map (fun f => wire (fst f)) fields)) m)
      | _ => false
      end
  | TError => false
  end.

(* ---- the supported sub-language: the guards of the theorems -------------------------------- *)
Definition is_snullable (s : schema) : bool :=
  match s with SNullable _ => true | SAny alts => existsb is_snullt alts | _ => false end.

Fixpoint nodup_str (l : list str) : bool :=
  match l with [] => true | x :: r => negb (mem_str x r) && nodup_str r end.

Fixpoint supported (s : schema) : bool :=
  match s with
  | SInt c => match cnormalize c with Some _ => integral c | None => false end
  | SNumC c => match cnormalize c with Some _ => true | None => false end
  | SNullable s' => supported s'
  | SArr s' _ _ => supported s'
  | SMap s' => supported s'
  | SAny alts => forallb supported alts
  | SObj props _ =>
      nodup_str (map fst props) && forallb (fun p => supported (snd (snd p))) props
  | _ => true
  end.

(* the sub-language on which nothing is lost either *)
Definition no_counts (s : schema) : bool := match s with SArr _ None None => true | SArr _ _ _ => false | _ => true end.

Fixpoint strict (fc : bool) (p : pos) (s : schema) : bool :=
  match s with
  | SInt c => negb (drops_bounds fc p) || c_is_none c
  | SNumC c => negb (drops_bounds fc p) || c_is_none c
  | SStr lo hi => negb (drops_bounds fc p) || (on_is_none lo && on_is_none hi)
  | SNullable s' => strict fc p s'
  | SArr s' lo hi => (keeps_counts fc p || no_counts s) && strict fc PIn s'
  | SMap s' => strict fc PVal s'
  | SAny alts => forallb (strict fc PIn) alts
  | SObj props _ => forallb (fun q => negb (fst (snd q) && is_snullable (snd (snd q))) && strict fc PTop (snd (snd q))) props
  | _ => true
  end.

(* naming options of a default run *)
Definition schema_opts : opts :=
  {| o_snake := false; o_delim := None; o_prefix := of_string "field"; o_remove := false; o_cap := false;
     o_noalias := false; o_empty := [] |}.

Definition verdicts (s : schema) (v : json) : list bool :=
  [valid s v; accepts (gen schema_opts false false PTop s) v; valid_relaxed s v; supported s; strict false PTop s].

(* ---- canonical text of a generated type (compared with the canonicalised real output) ------- *)
Definition sp : str := [32].
Definition show_on (o : option N) : str := match o with Some n => dec n | None => [126] end.
Definition show_z (z : Z) : str :=
  match z with Z0 => [48] | Zpos p => dec (Npos p) | Zneg p => 45 :: dec (Npos p) end.
Definition show_oz (o : option Z) : str := match o with Some z => show_z z | None => [126] end.
Definition show_b (b : bool) : str := if b then [49] else [48].
Fixpoint show_codes (s : str) : str :=
  match s with [] => [] | [c] => dec c | c :: r => dec c ++ [44] ++ show_codes r end.
Definition show_name (s : str) : str := match s with [] => [45] | _ => show_codes s end.
Fixpoint show_names (l : list str) : str :=
  match l with [] => [] | x :: r => sp ++ show_name x ++ show_names r end.

Fixpoint show_ty (t : pytype) {struct t} : str :=
  match t with
  | TInt k => of_string "(int " ++ show_oz (k_ge k) ++ sp ++ show_oz (k_le k) ++ sp ++ show_oz (k_gt k) ++ sp
              ++ show_oz (k_lt k) ++ sp ++ show_oz (k_mult k) ++ of_string ")"
  | TFloat => of_string "(float)"
  | TFloatC k => match k_ge k, k_le k, k_gt k, k_lt k with
                 | None, None, None, None => of_string "(float)"      (* bounds dropped: prints like a plain float *)
                 | _, _, _, _ => of_string "(floatc " ++ show_oz (k_ge k) ++ sp ++ show_oz (k_le k) ++ sp ++ show_oz (k_gt k) ++ sp
                                 ++ show_oz (k_lt k) ++ of_string ")"
                 end
  | TStr lo hi => of_string "(str " ++ show_on lo ++ sp ++ show_on hi ++ of_string ")"
  | TBool => of_string "(bool)"
  | TNone => of_string "(none)"
  | TAny => of_string "(any)"
  | TEnum vs => of_string "(enum" ++ show_names vs ++ of_string ")"
  | TOpt t' => of_string "(opt " ++ show_ty t' ++ of_string ")"
  | TList t' lo hi => of_string "(list " ++ show_on lo ++ sp ++ show_on hi ++ sp ++ show_ty t' ++ of_string ")"
  | TDict t' => of_string "(dict " ++ show_ty t' ++ of_string ")"
  | TUnion ts => of_string "(union" ++ flat_map (fun a => sp ++ show_ty a) ts ++ of_string ")"
  | TModel fields forbid =>
      of_string "(model " ++ show_b forbid
      ++ flat_map (fun f => of_string " (f " ++ show_name (f_py (fst f)) ++ sp
                            ++ match f_alias (fst f) with Some a => show_name a | None => [126] end ++ sp
                            ++ show_b (f_req (fst f)) ++ sp ++ show_b (f_null (fst f)) ++ sp
                            ++ show_ty (snd f) ++ of_string ")") fields
      ++ of_string ")"
  | TError => of_string "(error)"
  end.

Definition gen_text (fc : bool) (s : schema) : str := show_ty (gen schema_opts fc false PTop s).

(* ---- C14: where a constraint is written ----------------------------------------------------- *)
Definition is_pin (p : pos) : bool := match p with PIn => true | _ => false end.

(* schemas on which the two constraint styles place everything alike: no item counts on an array that is
   an array item or union member, no bounds on a scalar that is directly a map value *)
Fixpoint place_free (p : pos) (s : schema) : bool :=
  match s with
  | SInt c => negb (is_pval p) || c_is_none c
  | SNumC c => negb (is_pval p) || c_is_none c
  | SStr lo hi => negb (is_pval p) || (on_is_none lo && on_is_none hi)
  | SNullable s' => place_free p s'
  | SArr s' lo hi => (negb (is_pin p) || no_counts s) && place_free PIn s'
  | SMap s' => place_free PVal s'
  | SAny alts => forallb (place_free PIn) alts
  | SObj props _ => forallb (fun q => place_free PTop (snd (snd q))) props
  | _ => true
  end.

(* ---- C15: the draft-6 spelling of a schema -------------------------------------------------- *)
Fixpoint to_d6 (s : schema) : schema :=
  match s with
  | SInt c => SInt (to_draft6 c)
  | SNumC c => SNumC (to_draft6 c)
  | SNullable s' => SNullable (to_d6 s')
  | SArr s' lo hi => SArr (to_d6 s') lo hi
  | SMap s' => SMap (to_d6 s')
  | SAny alts => SAny (map to_d6 alts)
  | SObj props closed => SObj (map (fun q => (fst q, (fst (snd q), to_d6 (snd (snd q))))) props) closed
  | _ => s
  end.

(* ---- schemas as prefix tokens (the format the driver reads; used to compare inferred schemas) - *)
Definition show_excl (x : excl) : str :=
  match x with XNone => [126] | XBool true => [116] | XBool false => [102] | XNum v => show_z v end.
Fixpoint show_schema (s : schema) {struct s} : str :=
  match s with
  | SInt c => of_string "I " ++ show_oz (c_min c) ++ sp ++ show_oz (c_max c) ++ sp ++ show_excl (c_xmin c) ++ sp
              ++ show_excl (c_xmax c) ++ sp ++ show_oz (c_mult c)
  | SNum => [78]
  | SNumC c => of_string "F " ++ show_oz (c_min c) ++ sp ++ show_oz (c_max c) ++ sp ++ show_excl (c_xmin c) ++ sp ++ show_excl (c_xmax c)
  | SStr lo hi => of_string "S " ++ show_on lo ++ sp ++ show_on hi
  | SBool => [66]
  | SNullT => [90]
  | SAnyT => [89]
  | SEnum vs => of_string "E " ++ dec (N.of_nat (List.length vs)) ++ show_names vs
  | SNullable s' => of_string "? " ++ show_schema s'
  | SArr s' lo hi => of_string "A " ++ show_on lo ++ sp ++ show_on hi ++ sp ++ show_schema s'
  | SMap s' => of_string "M " ++ show_schema s'
  | SAny alts => of_string "U " ++ dec (N.of_nat (List.length alts)) ++ flat_map (fun a => sp ++ show_schema a) alts
  | SObj props closed =>
      of_string "J " ++ show_b closed ++ sp ++ dec (N.of_nat (List.length props))
      ++ flat_map (fun q => sp ++ show_name (fst q) ++ sp ++ show_b (fst (snd q)) ++ sp ++ show_schema (snd (snd q))) props
  end.
