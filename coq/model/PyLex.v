(* M2a: a model of how CPython tokenises and evaluates the string literals the generator writes:
   single-quoted '...' literals, raw r'...' literals, and triple double-quoted docstrings.
   Conservative: every escape form the model does not interpret makes the lexer fail (None). *)
From DMCG Require Export Str.
Open Scope N_scope.

Definition simple_escape (c : N) : option N :=
  if c =? 92 then Some 92 else if c =? 39 then Some 39 else if c =? 34 then Some 34
  else if c =? 97 then Some 7 else if c =? 98 then Some 8 else if c =? 102 then Some 12
  else if c =? 110 then Some 10 else if c =? 114 then Some 13 else if c =? 116 then Some 9
  else if c =? 118 then Some 11 else None.

Definition hexval (c : N) : option N :=
  if (48 <=? c) && (c <=? 57) then Some (c - 48)
  else if (97 <=? c) && (c <=? 102) then Some (c - 87)
  else if (65 <=? c) && (c <=? 70) then Some (c - 55)
  else None.

(* characters that may not appear raw inside a one-line literal, or that have a meaning there *)
Definition sq_special (c : N) : bool :=
  (c =? 0) || (c =? 10) || (c =? 13) || (c =? 39) || (c =? 92).

Inductive lmode := LNorm | LEsc | LHex1 | LHex2 (h : N).

(* after the opening quote of '...': Some (value, rest after the closing quote) *)
Fixpoint lex_sq (m : lmode) (acc : str) (s : str) : option (str * str) :=
  match s with
  | [] => None
  | c :: r =>
      match m with
      | LNorm =>
          if c =? 39 then Some (rev acc, r)
          else if c =? 92 then lex_sq LEsc acc r
          else if sq_special c then None
          else lex_sq LNorm (c :: acc) r
      | LEsc =>
          match simple_escape c with
          | Some v => lex_sq LNorm (v :: acc) r
          | None => if c =? 120 then lex_sq LHex1 acc r else None
          end
      | LHex1 => match hexval c with Some h => lex_sq (LHex2 h) acc r | None => None end
      | LHex2 h => match hexval c with Some l => lex_sq LNorm (16 * h + l :: acc) r | None => None end
      end
  end.

(* after the opening quote of r'...': the value is the raw text; a backslash protects the next
   character from ending the literal but stays in the value *)
Fixpoint lex_raw (esc : bool) (acc : str) (s : str) : option (str * str) :=
  match s with
  | [] => None
  | c :: r =>
      if esc then
        (if (c =? 0) || (c =? 10) || (c =? 13) then None else lex_raw false (c :: acc) r)
      else if c =? 39 then Some (rev acc, r)
      else if c =? 92 then lex_raw true (c :: acc) r
      else if (c =? 0) || (c =? 10) || (c =? 13) then None
      else lex_raw false (c :: acc) r
  end.

(* after the opening triple double quote: Some (rest after the closing triple quote) *)
Inductive tmode := TQ0 | TQ1 | TQ2 | TEsc | THex1 | THex2.

Fixpoint lex_tq (m : tmode) (s : str) : option str :=
  match s with
  | [] => None
  | c :: r =>
      match m with
      | TEsc => if (c =? 92) || (c =? 34) then lex_tq TQ0 r
                else if c =? 120 then lex_tq THex1 r else None
      | THex1 => match hexval c with Some _ => lex_tq THex2 r | None => None end
      | THex2 => match hexval c with Some _ => lex_tq TQ0 r | None => None end
      | _ =>
          if c =? 34 then
            match m with TQ0 => lex_tq TQ1 r | TQ1 => lex_tq TQ2 r | _ => Some r end
          else if c =? 92 then lex_tq TEsc r
          else if c =? 0 then None
          else lex_tq TQ0 r
      end
  end.

(* a comment runs to the end of the line: the text must not contain a line terminator or NUL *)
Definition comment_ok (s : str) : bool :=
  forallb (fun c => negb ((c =? 0) || (c =? 10) || (c =? 13) || (c =? 12))) s.
