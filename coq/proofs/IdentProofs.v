(* Proofs about M1 (Ident.v), generic in the Unicode tables: everything is proved under the boolean
   side condition [utab_ok U], which props/C07.v discharges by computation on the reflected tables. *)
From Coq Require Import Lia FinFun DecimalN.
From DMCG Require Import Ident.
Open Scope N_scope.
Arguments N.eqb : simpl never.
Arguments N.leb : simpl never.
Arguments N.ltb : simpl never.

(* ---------- basic string facts ---------- *)

Lemma str_eqb_eq a b : str_eqb a b = true <-> a = b.
Proof.
  revert b; induction a as [|x a IH]; destruct b as [|y b]; simpl; split; intro H;
    try reflexivity; try discriminate.
  - apply andb_true_iff in H as [H1 H2]. apply N.eqb_eq in H1. apply IH in H2. congruence.
  - injection H as -> ->. rewrite N.eqb_refl. simpl. apply IH. reflexivity.
Qed.

Lemma mem_str_In x l : mem_str x l = true <-> In x l.
Proof.
  induction l as [|y l IH]; simpl.
  - split; [discriminate | tauto].
  - rewrite orb_true_iff, IH, str_eqb_eq. split; intros [H|H]; auto.
Qed.

Lemma of_string_inj a b : of_string a = of_string b -> a = b.
Proof.
  revert b; induction a as [|x a IH]; destruct b as [|y b]; simpl; intro H; try discriminate; auto.
  injection H as H1 H2. f_equal; [| auto].
  rewrite <- (ascii_N_embedding x), <- (ascii_N_embedding y). congruence.
Qed.

Lemma string_of_uint_inj d e :
  DecimalString.NilEmpty.string_of_uint d = DecimalString.NilEmpty.string_of_uint e -> d = e.
Proof.
  intro H. assert (Some d = Some e) as E.
  { rewrite <- (DecimalString.NilEmpty.usu d), <- (DecimalString.NilEmpty.usu e), H. reflexivity. }
  congruence.
Qed.

Lemma dec_inj n m : dec n = dec m -> n = m.
Proof.
  unfold dec. intro H. apply of_string_inj, string_of_uint_inj in H.
  apply Unsigned.to_uint_inj in H. exact H.
Qed.

Lemma uint_digits d :
  forallb is_ascii_digit (of_string (DecimalString.NilEmpty.string_of_uint d)) = true.
Proof. induction d; simpl; auto. Qed.

Lemma dec_digits n : forallb is_ascii_digit (dec n) = true.
Proof. apply uint_digits. Qed.

Lemma pos_to_uint_nonnil p : Pos.to_uint p <> Decimal.Nil.
Proof.
  intro H. pose proof (DecimalPos.Unsigned.of_to p) as E. rewrite H in E. discriminate.
Qed.

Lemma dec_nonempty n : dec n <> [].
Proof.
  unfold dec. destruct n as [|p]; simpl; [discriminate|].
  pose proof (pos_to_uint_nonnil p) as H.
  destruct (Pos.to_uint p); try congruence; simpl; discriminate.
Qed.

Definition last_digit (s : str) : bool :=
  match rev s with c :: _ => is_ascii_digit c | [] => false end.

Lemma last_digit_app a b : b <> [] -> forallb is_ascii_digit b = true -> last_digit (a ++ b) = true.
Proof.
  intros Hne Hd. unfold last_digit. rewrite rev_app_distr.
  destruct (rev b) as [|c r] eqn:E.
  - apply (f_equal (@rev N)) in E. rewrite rev_involutive in E. simpl in E. congruence.
  - simpl. assert (In c b) as Hin. { apply in_rev. rewrite E. left. reflexivity. }
    rewrite forallb_forall in Hd. apply Hd. exact Hin.
Qed.

(* ---------- the side condition on the tables ---------- *)

Section Proofs.
Context (U : utab).

Definition xsn (c : N) : bool := xids U c && negb (c =? c_us).

Definition cmap_ok (m : cmap) : bool :=
  forallb (fun kv => (negb (xidc U (fst kv)) || forallb (xidc U) (snd kv))
                     && (negb (xsn (fst kv)) || hd_is xsn (snd kv))
                     && (match snd kv with [] => false | _ => true end)) m.

Definition digits : list N := [48; 49; 50; 51; 52; 53; 54; 55; 56; 57].

Definition utab_ok : bool :=
  xidc U c_us && xids U c_us
  && forallb (xidc U) digits
  && ranges_subset (u_xids U) (u_xidc U)
  && cmap_ok (u_lower U) && cmap_ok (u_upper U)
  && forallb (fun k => negb (last_digit k) && negb (mem_str (k ++ [c_us]) (u_attrs U))) (u_kw U)
  && forallb (fun a => negb (last_digit a) && negb (mem_str (a ++ [c_us]) (u_attrs U))) (u_attrs U).

Definition prefix_ok (p : str) : bool := isidentifier U p && hd_is xsn p.

Context (HU : utab_ok = true).

Lemma ok_all :
  xidc U c_us = true /\ xids U c_us = true /\ forallb (xidc U) digits = true
  /\ ranges_subset (u_xids U) (u_xidc U) = true
  /\ cmap_ok (u_lower U) = true /\ cmap_ok (u_upper U) = true
  /\ forallb (fun k => negb (last_digit k) && negb (mem_str (k ++ [c_us]) (u_attrs U))) (u_kw U) = true
  /\ forallb (fun a => negb (last_digit a) && negb (mem_str (a ++ [c_us]) (u_attrs U))) (u_attrs U) = true.
Proof.
  pose proof HU as H. unfold utab_ok in H.
  repeat match type of H with (_ && _) = true => let K := fresh "K" in apply andb_true_iff in H as [H K] end.
  repeat split; assumption.
Qed.

Ltac split_ok :=
  destruct ok_all as (OKusc & OKuss & OKdig & OKsub & OKlow & OKup & OKkw & OKattr).

Lemma range_covered_sound lo hi b c :
  range_covered lo hi b = true -> (lo <=? c) && (c <=? hi) = true -> in_ranges c b = true.
Proof.
  induction b as [|[l h] b IH]; simpl; [discriminate|].
  intros H Hc. apply orb_true_iff in H as [H|H].
  - apply orb_true_iff. left.
    apply andb_true_iff in H as [H1 H2]. apply andb_true_iff in Hc as [H3 H4].
    apply N.leb_le in H1, H2, H3, H4. apply andb_true_iff. split; apply N.leb_le; lia.
  - apply orb_true_iff. right. auto.
Qed.

Lemma ranges_subset_sound a b c :
  ranges_subset a b = true -> in_ranges c a = true -> in_ranges c b = true.
Proof.
  unfold ranges_subset. induction a as [|[lo hi] a IH]; simpl; [discriminate|].
  intros H Hc. apply andb_true_iff in H as [H1 H2]. apply orb_true_iff in Hc as [Hc|Hc].
  - eapply range_covered_sound; eauto.
  - auto.
Qed.

Lemma xids_xidc c : xids U c = true -> xidc U c = true.
Proof. split_ok. unfold xids, xidc. apply ranges_subset_sound. assumption. Qed.

Lemma xidc_us : xidc U c_us = true.
Proof. split_ok. assumption. Qed.

Lemma xidc_digit c : is_ascii_digit c = true -> xidc U c = true.
Proof.
  split_ok. unfold is_ascii_digit. intro Hc. apply andb_true_iff in Hc as [H1 H2].
  apply N.leb_le in H1, H2.
  match goal with Hd : forallb (xidc U) digits = true |- _ => rewrite forallb_forall in Hd; apply Hd end.
  unfold digits.
  assert (c = 48 \/ c = 49 \/ c = 50 \/ c = 51 \/ c = 52 \/ c = 53 \/ c = 54 \/ c = 55 \/ c = 56 \/ c = 57) as E by lia.
  simpl. intuition.
Qed.

Definition allc (s : str) : bool := forallb (xidc U) s.
Definition good (s : str) : bool := hd_is xsn s && allc s.

Lemma good_ident s : good s = true -> isidentifier U s = true.
Proof.
  unfold good, allc. destruct s as [|c r]; simpl; [discriminate|].
  intro H. apply andb_true_iff in H as [H1 H2]. apply andb_true_iff in H2 as [_ H3].
  unfold xsn in H1. apply andb_true_iff in H1 as [H1 _]. rewrite H1, H3. reflexivity.
Qed.

Lemma prefix_good p : prefix_ok p = true -> good p = true.
Proof.
  unfold prefix_ok, good, allc. destruct p as [|c r]; simpl; [discriminate|].
  intro H. apply andb_true_iff in H as [H1 H2]. apply andb_true_iff in H1 as [H1 H3].
  rewrite H2, H3, (xids_xidc _ H1). reflexivity.
Qed.

Lemma allc_app a b : allc (a ++ b) = allc a && allc b.
Proof. apply forallb_app. Qed.

Lemma good_app a b : good a = true -> allc b = true -> good (a ++ b) = true.
Proof.
  unfold good. intros H Hb. apply andb_true_iff in H as [H1 H2]. rewrite allc_app, H2, Hb.
  destruct a; simpl in *; [discriminate | rewrite H1; reflexivity].
Qed.

Lemma sanitize_xidc c : xidc U (sanitize U c) = true.
Proof.
  unfold sanitize. destruct (is_super c || negb (in_ranges c (u_word U))); [apply xidc_us|].
  destruct (xidc U c) eqn:E; [exact E | apply xidc_us].
Qed.

Lemma allc_sanitize s : allc (map (sanitize U) s) = true.
Proof. induction s as [|c s IH]; simpl; [reflexivity|]. rewrite sanitize_xidc. exact IH. Qed.

Lemma strip_us_spec s :
  allc s = true -> allc (strip_us s) = true /\ hd_is (N.eqb c_us) (strip_us s) = false.
Proof.
  induction s as [|c r IH]; simpl; [auto|].
  intro H. apply andb_true_iff in H as [H1 H2].
  destruct (c =? c_us) eqn:E.
  - auto.
  - simpl. rewrite H1, H2. split; [reflexivity|]. rewrite N.eqb_sym. exact E.
Qed.

Lemma hd_xids_not_us_xsn s :
  hd_is (xids U) s = true -> hd_is (N.eqb c_us) s = false -> hd_is xsn s = true.
Proof.
  destruct s as [|c r]; simpl; [discriminate|]. unfold xsn. intros -> H.
  rewrite N.eqb_sym in H. rewrite H. reflexivity.
Qed.

Lemma pre_stem_good o n1 :
  prefix_ok (o_prefix o) = true -> allc n1 = true -> good (pre_stem U o n1) = true.
Proof.
  intros HP H1. pose proof (prefix_good _ HP) as GP.
  assert (forall t, allc t = true -> good (o_prefix o ++ c_us :: t) = true) as Gpre.
  { intros t Ht. apply good_app; [exact GP|]. simpl. rewrite xidc_us. exact Ht. }
  assert (forall t, allc t = true -> good (o_prefix o ++ t) = true) as Gpre2.
  { intros t Ht. apply good_app; assumption. }
  unfold pre_stem.
  set (n2 := if hd_is (isnumeric U) n1 || negb (hd_is (xids U) n1) then o_prefix o ++ c_us :: n1 else n1).
  assert (allc n2 = true /\ hd_is (xids U) n2 = true) as [A2 S2].
  { subst n2. destruct (hd_is (isnumeric U) n1 || negb (hd_is (xids U) n1)) eqn:E.
    - pose proof (Gpre n1 H1) as G. unfold good in G. apply andb_true_iff in G as [G1 G2].
      split; [exact G2|]. destruct (o_prefix o ++ c_us :: n1); simpl in *; [discriminate|].
      unfold xsn in G1. apply andb_true_iff in G1 as [G1 _]. exact G1.
    - apply orb_false_iff in E as [_ E]. apply negb_false_iff in E. auto. }
  clearbody n2.
  destruct (hd_is (N.eqb c_us) n2) eqn:E2.
  - destruct (o_remove o).
    + destruct (strip_us_spec n2 A2) as [A3 N3].
      destruct (hd_is (xids U) (strip_us n2)) eqn:E3; simpl.
      * unfold good. rewrite A3, (hd_xids_not_us_xsn _ E3 N3). reflexivity.
      * apply Gpre. exact A3.
    + pose proof (Gpre2 n2 A2) as G.
      assert (hd_is (xids U) (o_prefix o ++ n2) = true) as E3.
      { unfold good in G. apply andb_true_iff in G as [G1 _].
        destruct (o_prefix o ++ n2); simpl in *; [discriminate|].
        unfold xsn in G1. apply andb_true_iff in G1 as [G1 _]. exact G1. }
      rewrite E3. simpl. exact G.
  - rewrite S2. simpl. unfold good. rewrite A2, (hd_xids_not_us_xsn _ S2 E2). reflexivity.
Qed.

(* ---------- camel_to_snake, lower, upper preserve good ---------- *)

Lemma allc_cons c r : allc (c :: r) = xidc U c && allc r.
Proof. reflexivity. Qed.

Lemma sub1_allc m s : allc s = true -> allc (sub1 m s) = true.
Proof.
  revert m. induction s as [|c r IH]; intros m H; [destruct m; reflexivity|].
  rewrite allc_cons in H. apply andb_true_iff in H as [H1 H2].
  assert (forall m', allc (c :: sub1 m' r) = true) as A.
  { intro m'. rewrite allc_cons, H1. apply IH. exact H2. }
  assert (forall m', allc (c :: c_us :: sub1 m' r) = true) as B.
  { intro m'. rewrite !allc_cons, H1, xidc_us. apply IH. exact H2. }
  destruct m; cbn [sub1]; try apply A.
  - cbn [andb]. destruct r as [|u [|l r']]; try apply A.
    destruct (negb (c =? c_us) && is_ascii_upper u && is_ascii_lower l); [apply B | apply A].
  - destruct (true && is_ascii_lower c); [apply A|].
    destruct r as [|u [|l r']]; try apply A.
    destruct (negb (c =? c_us) && is_ascii_upper u && is_ascii_lower l); [apply B | apply A].
Qed.

Lemma sub1_hd m c r : exists t, sub1 m (c :: r) = c :: t.
Proof.
  destruct m; cbn [sub1]; try (eexists; reflexivity).
  - cbn [andb]. destruct r as [|u [|l r']]; try (eexists; reflexivity).
    destruct (negb (c =? c_us) && is_ascii_upper u && is_ascii_lower l); eexists; reflexivity.
  - destruct (true && is_ascii_lower c); [eexists; reflexivity|].
    destruct r as [|u [|l r']]; try (eexists; reflexivity).
    destruct (negb (c =? c_us) && is_ascii_upper u && is_ascii_lower l); eexists; reflexivity.
Qed.

Lemma sub2_allc b s : allc s = true -> allc (sub2 b s) = true.
Proof.
  revert b. induction s as [|c r IH]; intros b H; [destruct b; reflexivity|].
  rewrite allc_cons in H. apply andb_true_iff in H as [H1 H2].
  assert (forall b', allc (c :: sub2 b' r) = true) as A.
  { intro b'. rewrite allc_cons, H1. apply IH. exact H2. }
  assert (forall b', allc (c :: c_us :: sub2 b' r) = true) as B.
  { intro b'. rewrite !allc_cons, H1, xidc_us. apply IH. exact H2. }
  destruct b; cbn [sub2]; [apply A|].
  destruct r as [|u r']; [rewrite allc_cons, H1; reflexivity|].
  destruct ((is_ascii_lower c || is_ascii_digit c) && is_ascii_upper u); [apply B | apply A].
Qed.

Lemma sub2_hd b c r : exists t, sub2 b (c :: r) = c :: t.
Proof.
  destruct b; cbn [sub2]; [eexists; reflexivity|].
  destruct r as [|u r']; [eexists; reflexivity|].
  destruct ((is_ascii_lower c || is_ascii_digit c) && is_ascii_upper u); eexists; reflexivity.
Qed.

Lemma cmap_get_ok m c :
  cmap_ok m = true ->
  (xidc U c = true -> allc (cmap_get m c) = true) /\
  (xsn c = true -> hd_is xsn (cmap_get m c) = true) /\
  cmap_get m c <> [].
Proof.
  unfold cmap_ok. induction m as [|[k v] m IH]; simpl; intro H.
  - repeat split; intros; try discriminate. + rewrite H0. reflexivity. + rewrite H0. reflexivity.
  - apply andb_true_iff in H as [H1 H2]. apply andb_true_iff in H1 as [H1 H4]. apply andb_true_iff in H1 as [H1 H3].
    simpl in *. destruct (k =? c) eqn:E.
    + apply N.eqb_eq in E. subst k. repeat split.
      * intro Hc. rewrite Hc in H1. simpl in H1. exact H1.
      * intro Hc. rewrite Hc in H3. simpl in H3. exact H3.
      * destruct v; [discriminate | discriminate].
    + apply IH. exact H2.
Qed.

Lemma cmap_str_good m s : cmap_ok m = true -> good s = true -> good (cmap_str m s) = true.
Proof.
  intros Hm. unfold good, cmap_str. destruct s as [|c r]; simpl; [discriminate|].
  intro H. apply andb_true_iff in H as [H1 H2]. apply andb_true_iff in H2 as [H2 H3].
  destruct (cmap_get_ok m c Hm) as [A [B C]].
  fold (allc (cmap_get m c ++ flat_map (cmap_get m) r)). rewrite allc_app, (A H2). simpl.
  assert (allc (flat_map (cmap_get m) r) = true) as Hr.
  { clear -Hm H3 HU. induction r as [|x r IH]; simpl; [reflexivity|].
    simpl in H3. apply andb_true_iff in H3 as [Hx Hr].
    fold (allc (cmap_get m x ++ flat_map (cmap_get m) r)). rewrite allc_app.
    destruct (cmap_get_ok m x Hm) as [A _]. rewrite (A Hx). simpl. apply IH. exact Hr. }
  rewrite Hr, andb_true_r.
  specialize (B H1). destruct (cmap_get m c); simpl in *; [discriminate | exact B].
Qed.

Lemma lower_good s : good s = true -> good (lower U s) = true.
Proof. split_ok. apply cmap_str_good. assumption. Qed.

Lemma upper_good s : good s = true -> good (upper U s) = true.
Proof. split_ok. apply cmap_str_good. assumption. Qed.

Lemma camel_to_snake_good s : good s = true -> good (camel_to_snake U s) = true.
Proof.
  intro H. unfold camel_to_snake. apply lower_good.
  unfold good in *. apply andb_true_iff in H as [H1 H2].
  destruct s as [|c r]; simpl in H1; [discriminate|].
  destruct (sub1_hd Start c r) as [t Et].
  pose proof (sub1_allc Start _ H2) as A1. rewrite Et in *.
  destruct (sub2_hd false c t) as [t2 Et2].
  pose proof (sub2_allc false _ A1) as A2. rewrite Et2 in *.
  simpl. rewrite H1. exact A2.
Qed.

(* ---------- the stem is good ---------- *)

Lemma s2uc_go_nonempty d b s : s <> [] -> hd_is (N.eqb d) s = false -> s2uc_go U d b s <> [].
Proof.
  destruct s as [|c r]; [congruence|]. simpl. intros _ H. rewrite N.eqb_sym in H. rewrite H.
  split_ok. destruct b.
  - destruct (cmap_get_ok (u_upper U) c) as [_ [_ C]]; [assumption|].
    destruct (cmap_get (u_upper U) c); [congruence | discriminate].
  - discriminate.
Qed.

Lemma s2uc_nonempty d w : w <> [] -> s2uc U d w <> [].
Proof.
  destruct w as [|c r]; [congruence|]. intros _. unfold s2uc.
  destruct (c =? d) eqn:E; [discriminate|].
  apply s2uc_go_nonempty; [discriminate|]. simpl. rewrite N.eqb_sym. exact E.
Qed.

Lemma empty_name_nonempty o : empty_name o <> [].
Proof. unfold empty_name. destruct (o_empty o); discriminate. Qed.

Lemma initial_name_nonempty o ign name0 : initial_name U o ign name0 <> [].
Proof.
  unfold initial_name.
  set (n0 := match name0 with [] => empty_name o | _ :: _ => name0 end).
  assert (n0 <> []) as N0. { subst n0. destruct name0; [apply empty_name_nonempty | discriminate]. }
  clearbody n0.
  set (n1 := match n0 with
             | c :: r => if c =? c_hash then match r with [] => empty_name o | _ :: _ => r end else n0
             | [] => n0 end).
  assert (n1 <> []) as N1.
  { subst n1. destruct n0 as [|c r]; [congruence|]. destruct (c =? c_hash); [|discriminate].
    destruct r; [apply empty_name_nonempty | discriminate]. }
  clearbody n1.
  destruct (o_snake o && negb ign); [|exact N1]. destruct (o_delim o); [|exact N1].
  apply s2uc_nonempty. exact N1.
Qed.

Lemma post_stem_good k o ign n4 :
  good n4 = true -> good (post_stem U k o ign n4) = true /\ validate U k (post_stem U k o ign n4) = true.
Proof.
  intro G. unfold post_stem.
  set (n5 := if o_cap o || o_snake o && negb ign then camel_to_snake U n4 else n4).
  assert (good n5 = true) as G5.
  { subst n5. destruct (o_cap o || o_snake o && negb ign); [apply camel_to_snake_good|]; exact G. }
  clearbody n5.
  destruct (iskeyword U n5 || negb (validate U k n5)) eqn:E.
  - split.
    + apply good_app; [exact G5|]. rewrite allc_cons, xidc_us. reflexivity.
    + destruct k; try reflexivity.
      cbn [validate]. apply negb_true_iff. split_ok.
      apply orb_true_iff in E as [E|E].
      * unfold iskeyword in E. apply mem_str_In in E.
        rewrite forallb_forall in OKkw. specialize (OKkw _ E).
        apply andb_true_iff in OKkw as [_ Hk]. apply negb_true_iff in Hk. exact Hk.
      * cbn [validate] in E. apply negb_true_iff, negb_false_iff in E. apply mem_str_In in E.
        rewrite forallb_forall in OKattr. specialize (OKattr _ E).
        apply andb_true_iff in OKattr as [_ Ha]. apply negb_true_iff in Ha. exact Ha.
  - split; [exact G5|]. apply orb_false_iff in E as [_ E]. apply negb_false_iff in E. exact E.
Qed.

Lemma stem_good k o ign name0 :
  prefix_ok (o_prefix o) = true ->
  exists name, stem U k o ign name0 = Some name /\ good name = true /\ validate U k name = true.
Proof.
  intro HP. unfold stem.
  pose proof (initial_name_nonempty o ign name0) as NE.
  destruct (initial_name U o ign name0) as [|c r] eqn:E; [congruence|].
  eexists. split; [reflexivity|].
  apply post_stem_good. apply pre_stem_good; [exact HP | apply allc_sanitize].
Qed.

(* ---------- the retry loop ---------- *)

Definition cand (name : str) (k : N) : str := name ++ c_us :: dec k.

Lemma cand_inj name : Injective (cand name).
Proof.
  intros a b H. unfold cand in H. apply app_inv_head in H. injection H as H. apply dec_inj. exact H.
Qed.

Lemma cand_good name k : good name = true -> good (cand name k) = true.
Proof.
  intro G. unfold cand. apply good_app; [exact G|]. simpl. rewrite xidc_us. simpl.
  unfold allc. apply forallb_forall. intros x Hx. apply xidc_digit.
  pose proof (dec_digits k) as D. rewrite forallb_forall in D. auto.
Qed.

Lemma cand_last_digit name k : last_digit (cand name k) = true.
Proof.
  unfold cand. change (name ++ c_us :: dec k) with (name ++ [c_us] ++ dec k). rewrite app_assoc.
  apply last_digit_app; [apply dec_nonempty | apply dec_digits].
Qed.

Lemma cand_not_kw name k : iskeyword U (cand name k) = false.
Proof.
  destruct (iskeyword U (cand name k)) eqn:E; [|reflexivity].
  unfold iskeyword in E. apply mem_str_In in E. split_ok.
  rewrite forallb_forall in OKkw. specialize (OKkw _ E).
  apply andb_true_iff in OKkw as [Hk _]. rewrite cand_last_digit in Hk. discriminate.
Qed.

Lemma cand_valid kd name k : validate U kd (cand name k) = true.
Proof.
  destruct kd; try reflexivity. simpl. apply negb_true_iff.
  destruct (mem_str (cand name k) (u_attrs U)) eqn:E; [|reflexivity].
  apply mem_str_In in E. split_ok.
  rewrite forallb_forall in OKattr. specialize (OKattr _ E).
  apply andb_true_iff in OKattr as [Ha _]. rewrite cand_last_digit in Ha. discriminate.
Qed.

Lemma bad_cand kd excl name k :
  good name = true -> bad U kd excl (cand name k) = mem_str (cand name k) excl.
Proof.
  intro G. unfold bad. rewrite (good_ident _ (cand_good name k G)), cand_not_kw. reflexivity.
Qed.

Lemma retry_out fuel c kd excl name :
  retry U fuel c kd excl name = OutOfFuel ->
  forall j, (j < fuel)%nat -> bad U kd excl (cand name (c + N.of_nat j)) = true.
Proof.
  revert c. induction fuel as [|f IH]; intros c H j Hj; [lia|].
  simpl in H. fold (cand name c) in H.
  destruct (bad U kd excl (cand name c)) eqn:E; [|discriminate].
  destruct j as [|j].
  - rewrite N.add_0_r. exact E.
  - specialize (IH (c + 1) H j ltac:(lia)).
    replace (c + N.of_nat (Datatypes.S j)) with (c + 1 + N.of_nat j) by lia. exact IH.
Qed.

Lemma retry_terminates fuel kd excl name c :
  (List.length excl < fuel)%nat -> good name = true -> retry U fuel c kd excl name <> OutOfFuel.
Proof.
  intros Hf G H.
  pose proof (retry_out _ _ _ _ _ H) as B.
  set (l := map (fun j => cand name (c + N.of_nat j)) (seq 0 (Datatypes.S (List.length excl)))).
  assert (NoDup l) as ND.
  { subst l. apply Injective_map_NoDup; [|apply seq_NoDup].
    intros a b E. apply cand_inj in E. lia. }
  assert (incl l excl) as INC.
  { subst l. intros x Hx. apply in_map_iff in Hx as [j [<- Hj]]. apply in_seq in Hj.
    specialize (B j ltac:(lia)). rewrite (bad_cand _ _ _ _ G) in B. apply mem_str_In. exact B. }
  pose proof (NoDup_incl_length ND INC) as L. subst l. rewrite map_length, seq_length in L. lia.
Qed.

Lemma retry_ok fuel c kd excl name r :
  retry U fuel c kd excl name = Ok r -> exists j, r = cand name j /\ bad U kd excl r = false.
Proof.
  revert c. induction fuel as [|f IH]; intros c H; [discriminate|].
  simpl in H. fold (cand name c) in H.
  destruct (bad U kd excl (cand name c)) eqn:E.
  - eapply IH; eauto.
  - injection H as <-. eauto.
Qed.

(* ---------- what get_valid_name returns ---------- *)

Definition legal (s : str) : bool := isidentifier U s && negb (iskeyword U s).

Theorem gvn_plain_total fuel kd o excl ign name0 :
  (List.length excl < fuel)%nat ->
  prefix_ok (o_prefix o) = true ->
  exists r, get_valid_name_plain U fuel kd o excl ign name0 = Ok r
    /\ legal r = true
    /\ mem_str r excl = false
    /\ hd_is (N.eqb c_us) r = false
    /\ (kd = Pyd -> o_cap o = false -> mem_str r (u_attrs U) = false).
Proof.
  intros Hf HP. unfold get_valid_name_plain.
  destruct (stem_good kd o ign name0 HP) as [name [-> [G V]]].
  set (nn := if o_cap o then upper U name else name).
  assert (good nn = true) as GN. { subst nn. destruct (o_cap o); [apply upper_good|]; exact G. }
  assert (forall s, good s = true -> hd_is (N.eqb c_us) s = false) as NUS.
  { intros s Hs. unfold good in Hs. apply andb_true_iff in Hs as [Hs _]. destruct s as [|c s]; [reflexivity|].
    simpl in *. unfold xsn in Hs. apply andb_true_iff in Hs as [_ Hs]. apply negb_true_iff in Hs.
    rewrite N.eqb_sym. exact Hs. }
  destruct (bad U kd excl nn) eqn:B.
  - destruct (retry U fuel 1 kd excl name) as [r| |] eqn:R.
    + exists r. split; [reflexivity|].
      destruct (retry_ok _ _ _ _ _ _ R) as [j [-> Bj]].
      pose proof (cand_good name j G) as Gc.
      rewrite (bad_cand _ _ _ _ G) in Bj.
      unfold legal. rewrite (good_ident _ Gc), cand_not_kw. repeat split; auto.
      intros -> _. pose proof (cand_valid Pyd name j) as Vc. simpl in Vc. apply negb_true_iff in Vc. exact Vc.
    + exfalso. exact (retry_terminates fuel kd excl name 1 Hf G R).
    + exfalso. clear -R. revert R. generalize 1. generalize fuel.
      induction fuel0 as [|f IH]; intros c R; simpl in R; [discriminate|].
      destruct (bad U kd excl (name ++ c_us :: dec c)); [eapply IH; eauto | discriminate].
  - exists nn. split; [reflexivity|].
    unfold bad in B. apply orb_false_iff in B as [B B3]. apply orb_false_iff in B as [_ B2].
    unfold legal. rewrite (good_ident _ GN), B2. repeat split; auto.
    intros -> Hc. subst nn. rewrite Hc. simpl in V. apply negb_true_iff in V. exact V.
Qed.

Theorem gvn_total kd o excl ign name0 :
  prefix_ok (o_prefix o) = true ->
  exists r, get_valid_name U (2 + List.length excl) kd o excl ign name0 = Ok r
    /\ legal r = true
    /\ mem_str r excl = false
    /\ hd_is (N.eqb c_us) r = false
    /\ (kd = Pyd -> o_cap o = false -> mem_str r (u_attrs U) = false)
    /\ (kd = Enm -> str_eqb r s_mro = false).
Proof.
  intro HP. unfold get_valid_name. destruct kd.
  - destruct (gvn_plain_total (2 + List.length excl) Plain o excl ign name0 ltac:(lia) HP) as [r [R [L [M [H A]]]]].
    exists r. repeat split; auto; discriminate.
  - destruct (gvn_plain_total (2 + List.length excl) Pyd o excl ign name0 ltac:(lia) HP) as [r [R [L [M [H A]]]]].
    exists r. repeat split; auto; discriminate.
  - destruct (gvn_plain_total (2 + List.length excl) Enm o (s_mro :: excl) ign
                (if str_eqb name0 s_mro then s_mro ++ [c_us] else name0) ltac:(simpl; lia) HP)
      as [r [R [L [M [H A]]]]].
    exists r. cbn [mem_str] in M. apply orb_false_iff in M as [M1 M2]. repeat split; auto; discriminate.
Qed.

(* get_valid_field_name_and_alias: the wire name is kept whenever the identifier differs *)
Theorem fna_alias kd o aliases excl field :
  prefix_ok (o_prefix o) = true ->
  exists v a, field_name_and_alias U (2 + List.length excl) kd o aliases excl field = Ok2 v a
    /\ (o_noalias o = false -> v <> field -> a = Some field)
    /\ (a = None \/ a = Some field)
    /\ (assoc_str aliases field = None ->
         legal v = true /\ mem_str v excl = false /\ hd_is (N.eqb c_us) v = false).
Proof.
  intro HP. unfold field_name_and_alias.
  destruct (assoc_str aliases field) as [al|] eqn:EA.
  - exists al, (Some field). repeat split; auto; discriminate.
  - destruct (gvn_total kd o excl false field HP) as [r [R [L [M [H _]]]]]. rewrite R.
    exists r. eexists. split; [reflexivity|]. repeat split; auto.
    + intros Hn Hd. rewrite Hn. cbn [orb].
      destruct (str_eqb field r) eqn:E; [|reflexivity].
      apply str_eqb_eq in E. congruence.
    + destruct (o_noalias o || str_eqb field r); auto.
Qed.

(* names given to the members of one class are pairwise distinct (no user alias map) *)
Theorem assign_names_nodup kd o fields : forall excl,
  prefix_ok (o_prefix o) = true ->
  exists l, assign_names U kd o [] excl fields = Some l
    /\ List.length l = List.length fields
    /\ NoDup (map fst l)
    /\ (forall v, In v (map fst l) -> ~ In v excl /\ legal v = true)
    /\ (forall f v a, In (f, (v, a)) (combine fields l) -> o_noalias o = false -> v <> f -> a = Some f).
Proof.
  induction fields as [|f r IH]; intros excl HP.
  - exists []. cbn. repeat split; auto; try constructor; try (intros; contradiction).
  - cbn [assign_names].
    destruct (fna_alias kd o [] excl f HP) as [v [a [E [A1 [A2 A3]]]]]. rewrite E.
    destruct (A3 eq_refl) as [L [M _]].
    destruct (IH (v :: excl) HP) as [l [El [Len [ND [Hin Hal]]]]]. rewrite El.
    exists ((v, a) :: l). split; [reflexivity|]. split; [cbn [List.length]; f_equal; exact Len|].
    split; [|split].
    + cbn. constructor; [|exact ND]. intro Hv. apply Hin in Hv as [Hv _]. apply Hv. left. reflexivity.
    + intros w Hw. cbn [map fst In] in Hw. destruct Hw as [<-|Hw].
      * split; [|exact L]. intro Hx. apply mem_str_In in Hx. congruence.
      * destruct (Hin w Hw) as [N1 N2]. split; [|exact N2]. intro Hx. apply N1. right. exact Hx.
    + intros f' v' a' [Hc|Hc] Hn Hd.
      * injection Hc as <- <- <-. auto.
      * eapply Hal; eauto.
Qed.

End Proofs.
