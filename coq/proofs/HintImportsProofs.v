(* Every typing / collections name an annotation uses is imported by the same IR tree (M3b). *)
From DMCG Require Import HintImports TypeHintProofs IdentProofs.
From Coq Require Import List Bool.
Import ListNotations.
Open Scope N_scope.

Section DtInd.
  Context (P : dt -> Prop).
  Context (H : forall typ children lits ref opt c, Forall P children -> P (DT typ children lits ref opt c)).
  Fixpoint dt_ind' (t : dt) : P t :=
    match t with
    | DT typ children lits ref opt c =>
        H typ children lits ref opt c
          ((fix go (l : list dt) : Forall P l :=
              match l with [] => Forall_nil _ | x :: r => Forall_cons x (dt_ind' x) (go r) end) children)
    end.
End DtInd.

Definition sub (a b : list str) : Prop := forall x, In x a -> In x b.

Lemma sub_refl a : sub a a. Proof. intros x H; exact H. Qed.
Lemma sub_trans a b c : sub a b -> sub b c -> sub a c. Proof. intros H1 H2 x H. auto. Qed.
Lemma sub_nil a : sub [] a. Proof. intros x []. Qed.
Lemma sub_app_l a b c : sub a c -> sub b c -> sub (a ++ b) c.
Proof. intros H1 H2 x H. apply in_app_or in H as [H|H]; auto. Qed.
Lemma sub_app_r1 a b c : sub a b -> sub a (b ++ c). Proof. intros H x Hx. apply in_or_app. auto. Qed.
Lemma sub_app_r2 a b c : sub a c -> sub a (b ++ c). Proof. intros H x Hx. apply in_or_app. auto. Qed.

Lemma sub_flat_map {A} (f g : A -> list str) l :
  (forall x, In x l -> sub (f x) (g x)) -> sub (flat_map f l) (flat_map g l).
Proof.
  intros H y Hy. apply in_flat_map in Hy as [x [Hx Hy]]. apply in_flat_map. exists x. split; auto. apply (H x Hx). exact Hy.
Qed.

Lemma sub_flat_map_in {A} (f : A -> list str) l x : In x l -> sub (f x) (flat_map f l).
Proof. intros Hx y Hy. apply in_flat_map. eauto. Qed.

(* ---- operator spelling: the alternatives of a chain need no more than the hint itself ------- *)
Lemma needs_chain o h : uo o = true -> sub (flat_map (needs o) (chain h)) (needs o h).
Proof.
  intro U. induction h as [s|l|hd args IH|alts IH|x IH| |] using hint_ind'; cbn [chain flat_map needs]; try (rewrite app_nil_r; apply sub_refl).
  - rewrite U. cbn [app]. intros y Hy. apply in_flat_map in Hy as [z [Hz Hy]].
    apply in_flat_map in Hz as [a [Ha Hz]]. rewrite Forall_forall in IH.
    apply in_flat_map. exists a. split; [exact Ha|]. apply (IH a Ha). apply in_flat_map. eauto.
  - rewrite flat_map_app. cbn [flat_map needs]. rewrite !app_nil_r. exact IH.
Qed.

Lemma needs_of_parts o l : uo o = true -> sub (needs o (of_parts l)) (flat_map (needs o) l).
Proof.
  intro U. destruct l as [|x [|y r]]; cbn [of_parts needs flat_map]; try apply sub_nil.
  - rewrite app_nil_r. apply sub_refl.
  - rewrite U. cbn [app]. apply sub_refl.
Qed.

Lemma sub_flat_filter {A} (f : A -> list str) (p : A -> bool) l : sub (flat_map f (filter p l)) (flat_map f l).
Proof.
  intros y Hy. apply in_flat_map in Hy as [x [Hx Hy]]. apply filter_In in Hx as [Hx _]. apply in_flat_map. eauto.
Qed.

Lemma needs_rn_op o h : uo o = true -> sub (needs o (rn_op h)) (needs o h).
Proof.
  intro U. destruct h; cbn [rn_op]; try apply sub_refl.
  all: eapply sub_trans; [apply needs_of_parts; exact U|]; eapply sub_trans; [apply sub_flat_filter|]; apply needs_chain; exact U.
Qed.

(* ---- typing spelling -------------------------------------------------------------------------- *)
Lemma needs_of_parts_ty o l : sub (needs o (of_parts l)) ((if uo o then [] else [s_Union]) ++ flat_map (needs o) l).
Proof.
  destruct l as [|x [|y r]]; cbn [of_parts needs flat_map]; try apply sub_nil.
  - rewrite app_nil_r. apply sub_app_r2. apply sub_refl.
  - apply sub_refl.
Qed.

Lemma needs_rn_ty o h : sub (needs o (rn_ty h)) (needs o h).
Proof.
  induction h as [s|l|hd args IH|alts IH|x IH| |] using hint_ind'; cbn [rn_ty]; try apply sub_refl.
  eapply sub_trans; [apply needs_of_parts_ty|]. cbn [needs].
  apply sub_app_l; [apply sub_app_r1; apply sub_refl|]. apply sub_app_r2.
  intros y Hy. apply in_flat_map in Hy as [z [Hz Hy]]. apply in_flat_map in Hz as [a [Ha Hz]].
  apply in_flat_map. exists a. split; [exact Ha|].
  destruct (is_hnone a); [contradiction|]. rewrite Forall_forall in IH.
  destruct a; destruct Hz as [<-|[]]; try exact Hy. apply (IH _ Ha). exact Hy.
Qed.

Lemma needs_rn o h : sub (needs o (rn o h)) (needs o h).
Proof. unfold rn. destruct (uo o) eqn:U; [apply needs_rn_op; exact U|apply needs_rn_ty]. Qed.

Lemma needs_make_optional o w : sub (needs o (make_optional o w)) (needs o w).
Proof.
  unfold make_optional. destruct (is_hempty (rn o w) || is_hnone (rn o w)); [apply sub_nil|].
  cbn [needs]. apply needs_rn.
Qed.

(* ---- unions ----------------------------------------------------------------------------------- *)
Lemma union_fold_needs o : forall hs acc opt acc' opt',
  union_fold o hs acc opt = (acc', opt') ->
  sub (flat_map (needs o) acc') (flat_map (needs o) acc ++ flat_map (needs o) hs).
Proof.
  induction hs as [|h r IH]; intros acc opt acc' opt' H; cbn [union_fold] in H.
  - injection H as <- _. cbn [flat_map]. rewrite app_nil_r. apply sub_refl.
  - cbn [flat_map]. destruct (mem_hint h acc).
    + eapply sub_trans; [eapply IH; eauto|]. apply sub_app_l; [apply sub_app_r1; apply sub_refl|].
      apply sub_app_r2. apply sub_app_r2. apply sub_refl.
    + destruct (is_hnone h).
      * eapply sub_trans; [eapply IH; eauto|]. apply sub_app_l; [apply sub_app_r1; apply sub_refl|].
        apply sub_app_r2. apply sub_app_r2. apply sub_refl.
      * eapply sub_trans; [eapply IH; eauto|]. rewrite flat_map_app. cbn [flat_map]. rewrite app_nil_r.
        apply sub_app_l; [apply sub_app_l|].
        -- apply sub_app_r1. apply sub_refl.
        -- apply sub_app_r2. apply sub_app_r1. apply needs_rn.
        -- apply sub_app_r2. apply sub_app_r2. apply sub_refl.
Qed.

Lemma needs_mk_union o alts :
  sub (needs o (mk_union o alts)) ((if uo o then [] else [s_Union]) ++ flat_map (needs o) alts).
Proof.
  unfold mk_union. destruct alts as [|x [|y r]].
  - destruct (uo o) eqn:U; cbn [flat_map needs]; rewrite ?U; cbn [app]; apply sub_refl.
  - cbn [flat_map]. rewrite app_nil_r. apply sub_app_r2. apply sub_refl.
  - destruct (uo o) eqn:U; cbn [needs]; rewrite ?U; cbn [app]; [|apply sub_refl].
    intros z Hz. apply in_flat_map in Hz as [a [Ha Hz]]. apply in_flat_map in Ha as [b [Hb Ha]].
    apply in_flat_map. exists b. split; [exact Hb|].
    destruct b; try (destruct Ha as [<-|[]]; exact Hz).
    cbn [needs]. rewrite U. cbn [app]. apply in_flat_map. eauto.
Qed.

(* ---- containers -------------------------------------------------------------------------------- *)
Lemma cname_list o : container_name (list_name o) = true.
Proof. unfold list_name. destruct (gc o), (sc o); reflexivity. Qed.

Lemma needs_atom_clean o s : container_name s = false -> needs o (HAtom s) = [].
Proof. intro H. cbn [needs]. rewrite H. reflexivity. Qed.

Lemma row_names tbl o : row_ok tbl o = true ->
  forall c printed, (c = CList /\ printed = list_name o) \/ (c = CSet /\ printed = set_name o) \/ ((exists k, c = CDict k) /\ printed = dict_name o) ->
    sub (if container_name printed && negb (builtin_name printed) then [printed] else []) (cont_import tbl o c).
Proof.
  unfold row_ok, cont_import. destruct (row_of tbl o) as [[l s] d]. intro H.
  apply andb_true_iff in H as [H Hd]. apply andb_true_iff in H as [Hl Hs].
  intros c printed [[-> ->]|[[-> ->]|[[k ->] ->]]].
  - destruct (builtin_name (list_name o)); [rewrite andb_false_r; apply sub_nil|].
    destruct l as [i|]; [|discriminate]. apply str_eqb_eq in Hl. subst i.
    destruct (container_name (list_name o)); cbn; [apply sub_refl|apply sub_nil].
  - destruct (builtin_name (set_name o)); [rewrite andb_false_r; apply sub_nil|].
    destruct s as [i|]; [|discriminate]. apply str_eqb_eq in Hs. subst i.
    destruct (container_name (set_name o)); cbn; [apply sub_refl|apply sub_nil].
  - destruct (builtin_name (dict_name o)); [rewrite andb_false_r; apply sub_nil|].
    destruct d as [i|]; [|discriminate]. apply str_eqb_eq in Hd. subst i.
    destruct (container_name (dict_name o)); cbn; [apply sub_refl|apply sub_nil].
Qed.

Lemma needs_wrap tbl o c base :
  row_ok tbl o = true -> match c with CDict (Some k) => container_name k = false | _ => True end ->
  sub (needs o (wrap o c base)) (cont_import tbl o c ++ needs o base).
Proof.
  intros R K. pose proof (row_names tbl o R) as N.
  destruct c as [| | |key]; cbn [wrap].
  - apply sub_app_r2. apply sub_refl.
  - destruct (is_hempty base); cbn [needs flat_map]; rewrite ?app_nil_r.
    + apply sub_app_r1. apply (N CList). auto.
    + apply sub_app_l; [apply sub_app_r1; apply (N CList); auto|apply sub_app_r2; apply sub_refl].
  - destruct (is_hempty base); cbn [needs flat_map]; rewrite ?app_nil_r.
    + apply sub_app_r1. apply (N CSet). auto.
    + apply sub_app_l; [apply sub_app_r1; apply (N CSet); auto|apply sub_app_r2; apply sub_refl].
  - assert (D : sub (if container_name (dict_name o) && negb (builtin_name (dict_name o)) then [dict_name o] else []) (cont_import tbl o (CDict key)))
      by (apply (N (CDict key)); right; right; eauto).
    assert (Kk : needs o (HAtom (match key with Some k => k | None => of_string "str" end)) = []).
    { destruct key as [k|]; [apply needs_atom_clean; exact K|reflexivity]. }
    destruct key as [k|]; destruct (is_hempty base) eqn:E; cbn [needs flat_map]; cbn [needs] in Kk; rewrite ?Kk; cbn [app]; rewrite ?app_nil_r.
    all: try (apply sub_app_l; [apply sub_app_r1; exact D|]).
    all: try (apply sub_app_r2; apply sub_refl).
    all: try (apply sub_nil).
    all: try (apply sub_app_r1; exact D).
Qed.

(* ---- the theorem -------------------------------------------------------------------------------- *)
Theorem hint_names_imported tbl o : row_ok tbl o = true ->
  forall t, clean_dt t = true -> sub (needs o (type_hint o t)) (imports_of tbl o t).
Proof.
  intro R. induction t as [typ children lits ref opt c IH] using dt_ind'. intro C.
  cbn [clean_dt] in C. apply andb_true_iff in C as [C Cch]. apply andb_true_iff in C as [C Ck].
  apply andb_true_iff in C as [Ct Cr].
  assert (K : match c with CDict (Some k) => container_name k = false | _ => True end).
  { destruct c as [| | |[k|]]; auto. apply negb_true_iff. exact Ck. }
  assert (IHc : forall ch, In ch children -> sub (needs o (fst (th o ch))) (imports_of tbl o ch)).
  { intros ch Hch. rewrite Forall_forall in IH. apply IH; auto. eapply forallb_forall in Cch; eauto. }
  unfold type_hint. cbn [th imports_of].
  set (parts := match typ with
                | Some s => (HAtom s, opt)
                | None => match children with
                          | _ :: _ :: _ => let '(alts, o') := union_fold o (map (fun ch => fst (th o ch)) children) [] false in (mk_union o alts, opt || o')
                          | [ch] => (fst (th o ch), opt)
                          | [] => match lits with _ :: _ => (HLit lits, opt) | [] => match ref with Some r => (HAtom r, opt) | None => (HEmpty, opt) end end
                          end
                end).
  assert (B : sub (needs o (fst parts))
                  ((if multi children && negb (uo o) then [s_Union] else []) ++ (if nonempty lits then [s_Literal] else [])
                   ++ flat_map (imports_of tbl o) children)).
  { unfold parts. destruct typ as [s|].
    - cbn [fst]. rewrite needs_atom_clean; [apply sub_nil|]. apply negb_true_iff. exact Ct.
    - destruct children as [|c1 [|c2 r]].
      + destruct lits as [|l0 lr]; cbn [fst].
        * destruct ref as [r0|]; cbn [fst]; [rewrite needs_atom_clean; [apply sub_nil|apply negb_true_iff; exact Cr]|apply sub_nil].
        * cbn [needs nonempty multi andb app]. intros x [<-|[]]. left. reflexivity.
      + cbn [fst multi andb app flat_map]. rewrite app_nil_r. apply sub_app_r2. apply IHc. left. reflexivity.
      + destruct (union_fold o (map (fun ch => fst (th o ch)) (c1 :: c2 :: r)) [] false) as [alts o'] eqn:UF. cbn [fst].
        eapply sub_trans; [apply needs_mk_union|]. cbn [multi andb].
        apply sub_app_l.
        * destruct (uo o); cbn [negb]; [apply sub_nil|apply sub_app_r1; apply sub_refl].
        * apply sub_app_r2. apply sub_app_r2.
          eapply sub_trans; [eapply union_fold_needs; exact UF|].
          intros x Hx. apply in_app_or in Hx as [Hx|Hx]; [contradiction|].
          apply in_flat_map in Hx as [h [Hh Hx]]. apply in_map_iff in Hh as [ch [<- Hch]].
          apply in_flat_map. exists ch. split; [exact Hch|]. apply (IHc ch Hch). exact Hx. }
  destruct parts as [base opt1] eqn:EP. cbn [fst] in B.
  assert (W : sub (needs o (wrap o c base))
                  ((if multi children && negb (uo o) then [s_Union] else []) ++ (if nonempty lits then [s_Literal] else [])
                   ++ cont_import tbl o c ++ flat_map (imports_of tbl o) children)).
  { eapply sub_trans; [apply (needs_wrap tbl o c base R K)|].
    apply sub_app_l.
    - apply sub_app_r2. apply sub_app_r2. apply sub_app_r1. apply sub_refl.
    - intros x Hx. apply B in Hx. apply in_app_or in Hx as [Hx|Hx]; [apply in_or_app; auto|].
      apply in_app_or in Hx as [Hx|Hx]; apply in_or_app; right; apply in_or_app; [auto|right; apply in_or_app; auto]. }
  destruct (opt1 && negb (is_any (wrap o c base))); cbn [fst]; [|exact W].
  eapply sub_trans; [apply needs_make_optional|exact W].
Qed.

Lemma all_spells_complete o : In o all_spells.
Proof. destruct o as [[|] [|] [|]]; cbn; tauto. Qed.

Theorem hint_names_imported_all tbl : table_ok tbl = true ->
  forall o t, clean_dt t = true -> sub (needs o (type_hint o t)) (imports_of tbl o t).
Proof.
  intros T o t C. apply hint_names_imported; auto.
  unfold table_ok in T. eapply forallb_forall in T; [exact T|apply all_spells_complete].
Qed.
