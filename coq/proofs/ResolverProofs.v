From Coq Require Import Lia FinFun.
From DMCG Require Import Resolver IdentProofs.
Open Scope N_scope.

Lemma ucand_inj camel name : Injective (ucand camel name).
Proof.
  intros a b H. unfold ucand in H. destruct camel.
  - apply app_inv_head in H. apply dec_inj. exact H.
  - apply app_inv_head in H. injection H as H. apply dec_inj. exact H.
Qed.

Lemma uniq_some fuel camel name : forall count taken cur r,
  uniq fuel camel name count taken cur = Some r ->
  mem_str r taken = false /\ (r = cur \/ exists k, r = ucand camel name k).
Proof.
  induction fuel as [|f IH]; intros count taken cur r H; cbn [uniq] in H.
  - destruct (mem_str cur taken) eqn:M; [discriminate|]. injection H as <-. auto.
  - destruct (mem_str cur taken) eqn:M.
    + apply IH in H as [H1 [H2|[k H2]]]; split; auto; right; eauto.
    + injection H as <-. auto.
Qed.

Lemma uniq_none fuel camel name : forall count taken cur,
  uniq fuel camel name count taken cur = None ->
  mem_str cur taken = true /\
  forall j, (j < fuel)%nat -> mem_str (ucand camel name (count + N.of_nat j)) taken = true.
Proof.
  induction fuel as [|f IH]; intros count taken cur H; cbn [uniq] in H.
  - destruct (mem_str cur taken) eqn:M; [|discriminate]. split; [reflexivity | intros; lia].
  - destruct (mem_str cur taken) eqn:M; [|discriminate]. split; [reflexivity|].
    apply IH in H as [H1 H2]. intros j Hj. destruct j as [|j].
    + rewrite N.add_0_r. exact H1.
    + replace (count + N.of_nat (Datatypes.S j)) with (count + 1 + N.of_nat j) by lia. apply H2. lia.
Qed.

(* the loop ends within |taken| + 1 rounds with a name that is not taken *)
Theorem get_unique_name_total camel name taken :
  exists r, get_unique_name (Datatypes.S (List.length taken)) camel name taken = Some r
            /\ mem_str r taken = false
            /\ (r = name \/ exists k, r = ucand camel name k).
Proof.
  unfold get_unique_name.
  destruct (uniq (Datatypes.S (List.length taken)) camel name 1 taken name) as [r|] eqn:E.
  - exists r. split; [reflexivity|]. eapply uniq_some; eauto.
  - exfalso. apply uniq_none in E as [_ B].
    set (l := map (fun j => ucand camel name (1 + N.of_nat j)) (seq 0 (Datatypes.S (List.length taken)))).
    assert (NoDup l) as ND.
    { subst l. apply Injective_map_NoDup; [|apply seq_NoDup]. intros a b Hab. apply ucand_inj in Hab. lia. }
    assert (incl l taken) as INC.
    { subst l. intros x Hx. apply in_map_iff in Hx as [j [<- Hj]]. apply in_seq in Hj.
      apply mem_str_In. apply B. lia. }
    pose proof (NoDup_incl_length ND INC) as L. subst l. rewrite map_length, seq_length in L. lia.
Qed.

(* names handed out one after the other are pairwise distinct and avoid the names taken before *)
Theorem assign_unique_distinct camel names : forall taken,
  exists l, assign_unique camel taken names = Some l
    /\ List.length l = List.length names /\ NoDup l /\ (forall x, In x l -> ~ In x taken).
Proof.
  induction names as [|n r IH]; intro taken.
  - exists []. repeat split; try constructor; intros; contradiction.
  - cbn [assign_unique]. destruct (get_unique_name_total camel n taken) as [u [E [M _]]]. rewrite E.
    destruct (IH (u :: taken)) as [l [El [Len [ND Hin]]]]. rewrite El.
    exists (u :: l). split; [reflexivity|]. split; [cbn [List.length]; f_equal; exact Len|]. split.
    + constructor; [|exact ND]. intro Hu. apply (Hin u Hu). left. reflexivity.
    + intros x [<-|Hx]; [intro Hx; apply mem_str_In in Hx; congruence|].
      intro Ht. apply (Hin x Hx). right. exact Ht.
Qed.

(* ---------- get_relative_path ---------- *)

Lemma grp_started b : forall t, grp b t true = (List.length b, t).
Proof.
  induction b as [|x b IH]; intro t.
  - reflexivity.
  - destruct t as [|y t]; cbn [grp andb negb]; rewrite ?andb_false_r, IH; reflexivity.
Qed.

Lemma grp_nil_base t s : grp [] t s = (O, t).
Proof. reflexivity. Qed.

(* following the relative path from the base directory leads to the target: for all absolute paths *)
Theorem relative_path_roundtrip b : forall t, apply_rel b (grp b t false) = t.
Proof.
  induction b as [|x b IH]; intro t.
  - rewrite grp_nil_base. reflexivity.
  - destruct t as [|y t]; cbn [grp].
    + rewrite grp_started. unfold apply_rel. cbn [fst snd List.length]. rewrite PeanoNat.Nat.sub_diag. reflexivity.
    + destruct (x =? y) eqn:E; cbn [andb negb].
      * apply N.eqb_eq in E. subst y. specialize (IH t). unfold apply_rel in *.
        destruct (grp b t false) as [p c] eqn:G. cbn [fst snd] in *.
        assert (p <= List.length b)%nat as Hp.
        { clear -G. revert t p c G. induction b as [|z b IHb]; intros t p c G.
          - rewrite grp_nil_base in G. injection G as <- _. lia.
          - destruct t as [|w t]; cbn [grp] in G.
            + rewrite grp_started in G. injection G as <- _. cbn. lia.
            + destruct (z =? w); cbn [andb negb] in G.
              * apply IHb in G. cbn. lia.
              * rewrite grp_started in G. injection G as <- _. cbn. lia. }
        cbn [List.length]. replace (Datatypes.S (List.length b) - p)%nat with (Datatypes.S (List.length b - p)) by lia.
        cbn [firstn app]. rewrite IH. reflexivity.
      * rewrite grp_started. unfold apply_rel. cbn [fst snd List.length]. rewrite PeanoNat.Nat.sub_diag. reflexivity.
Qed.
