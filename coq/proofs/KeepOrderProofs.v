From DMCG Require Import KeepOrder.
From Coq Require Import Permutation Lia.
Open Scope N_scope.

Lemma insert_perm m l : Permutation (insert m l) (m :: l).
Proof.
  induction l as [|x r IH]; cbn [insert]; [reflexivity|].
  destruct (k_name m <=? k_name x); [reflexivity|].
  rewrite IH. apply perm_swap.
Qed.

Lemma isort_perm l : Permutation (isort l) l.
Proof.
  induction l as [|x r IH]; cbn [isort]; [reflexivity|].
  rewrite insert_perm. constructor. exact IH.
Qed.

Lemma pass_perm : forall rest resolved cur t ch,
  pass resolved cur rest = (t, ch) -> Permutation t (cur :: rest).
Proof.
  induction rest as [|nxt r IH]; intros resolved cur t ch H; cbn [pass] in H.
  - injection H as <- _. reflexivity.
  - destruct (ready resolved cur).
    + destruct (pass (k_name cur :: resolved) nxt r) as [t' ch'] eqn:E. injection H as <- _.
      constructor. eapply IH; eauto.
    + destruct (pass resolved cur r) as [t' ch'] eqn:E. injection H as <- _.
      rewrite (IH _ _ _ _ E). apply perm_swap.
Qed.

Lemma pass_all_perm imported ms t ch : pass_all imported ms = (t, ch) -> Permutation t ms.
Proof.
  destruct ms as [|m r]; cbn [pass_all]; intro H.
  - injection H as <- _. reflexivity.
  - eapply pass_perm; eauto.
Qed.

Lemma settle_perm : forall fuel imported ms r, settle fuel imported ms = Some r -> Permutation r ms.
Proof.
  induction fuel as [|f IH]; intros imported ms r H; cbn [settle] in H; [discriminate|].
  destruct (pass_all imported ms) as [ms' ch] eqn:E. apply pass_all_perm in E.
  destruct ch.
  - rewrite (IH _ _ _ H). exact E.
  - injection H as <-. exact E.
Qed.

Theorem keep_order_perm fuel imported ms r :
  keep_order fuel imported ms = Some r -> Permutation r ms.
Proof.
  unfold keep_order. intro H. rewrite (settle_perm _ _ _ _ H). apply isort_perm.
Qed.

(* when a pass changes nothing, every class but the last has its bases before it *)
Lemma pass_fixed : forall rest resolved cur t,
  pass resolved cur rest = (t, false) ->
  t = cur :: rest /\ bases_first resolved (removelast (cur :: rest)) = true.
Proof.
  induction rest as [|nxt r IH]; intros resolved cur t H; cbn [pass] in H.
  - injection H as <-. split; reflexivity.
  - destruct (ready resolved cur) eqn:R.
    + destruct (pass (k_name cur :: resolved) nxt r) as [t' ch'] eqn:E. injection H as <- ->.
      destruct (IH _ _ _ E) as [-> HB]. split; [reflexivity|].
      change (removelast (cur :: nxt :: r)) with (cur :: removelast (nxt :: r)).
      cbn [bases_first]. rewrite R, HB. reflexivity.
    + destruct (pass resolved cur r) as [t' ch'] eqn:E. discriminate.
Qed.

Theorem keep_order_bases_first fuel imported ms r :
  keep_order fuel imported ms = Some r -> bases_first imported (removelast r) = true.
Proof.
  unfold keep_order. generalize (isort ms). clear ms.
  induction fuel as [|f IH]; intros ms H; cbn [settle] in H; [discriminate|].
  destruct (pass_all imported ms) as [ms' ch] eqn:E. destruct ch; [eapply IH; eauto|].
  injection H as <-. destruct ms as [|m rest]; cbn [pass_all] in E.
  - injection E as <-. reflexivity.
  - apply pass_fixed in E as [-> HB]. exact HB.
Qed.
