From Coq Require Import Lia ZifyBool.
From DMCG Require Import Constraints.
Open Scope Z_scope.
Ltac Zify.zify_post_hook ::= Z.to_euclidean_division_equations.

Lemma int_of_half_even b : Z.even b = true -> 2 * int_of_half b = b.
Proof.
  intro H. unfold int_of_half. apply Z.even_spec in H as [k ->].
  rewrite (Z.mul_comm 2 k), Z.quot_mul by lia. lia.
Qed.

(* for whole-number bounds: the generated integer field accepts exactly the instances the schema
   accepts, in both draft styles (the pre-validator included) *)
Theorem constraints_preserved c c' v :
  cnormalize c = Some c' -> integral c = true ->
  sat_model (ctranslate c') v = sat_schema c v.
Proof.
  unfold cnormalize, integral. intros N I.
  repeat (apply andb_true_iff in I as [I ?]).
  destruct c as [mn mx xmn xmx mu]. cbn [c_min c_max c_xmin c_xmax c_mult] in *.
  unfold sat_model, sat_schema, ctranslate. cbn [c_min c_max c_xmin c_xmax c_mult k_ge k_le k_gt k_lt k_mult].
  destruct xmx as [|[|]|ux]; destruct xmn as [|[|]|un]; destruct mx as [ma|]; destruct mn as [mi|];
    cbn [option_map opt_ok even_opt] in *; try discriminate; injection N as <-;
    cbn [c_min c_max c_xmin c_xmax c_mult option_map opt_ok];
    repeat match goal with
           | H : Z.even ?b = true |- _ => let E := fresh "E" in pose proof (int_of_half_even b H) as E; clear H
           end;
    destruct mu as [m|]; cbn [opt_ok]; lia.
Qed.

(* a draft-4 record and its draft-6 spelling normalise to the same record *)
Theorem draft4_draft6_same mn mx mu :
  cnormalize {| c_min := Some mn; c_max := Some mx; c_xmin := XBool true; c_xmax := XBool true; c_mult := mu |}
  = cnormalize {| c_min := None; c_max := None; c_xmin := XNum mn; c_xmax := XNum mx; c_mult := mu |}
  /\ cnormalize {| c_min := Some mn; c_max := Some mx; c_xmin := XBool false; c_xmax := XBool false; c_mult := mu |}
     = cnormalize {| c_min := Some mn; c_max := Some mx; c_xmin := XNone; c_xmax := XNone; c_mult := mu |}
  /\ cnormalize {| c_min := Some mn; c_max := Some mx; c_xmin := XBool true; c_xmax := XBool false; c_mult := mu |}
     = cnormalize {| c_min := None; c_max := Some mx; c_xmin := XNum mn; c_xmax := XNone; c_mult := mu |}.
Proof. repeat split. Qed.

(* normalisation is the identity on draft-6 records and never changes what a record means *)
Theorem normalize_preserves_meaning c c' v :
  cnormalize c = Some c' -> sat_schema c' v = sat_schema c v.
Proof.
  unfold cnormalize. destruct c as [mn mx xmn xmx mu]. cbn [c_min c_max c_xmin c_xmax c_mult].
  destruct xmx as [|[|]|ux]; destruct xmn as [|[|]|un]; destruct mx as [ma|]; destruct mn as [mi|];
    try discriminate; intro N; injection N as <-; unfold sat_schema;
    cbn [c_min c_max c_xmin c_xmax c_mult opt_ok]; destruct mu; cbn [opt_ok]; lia.
Qed.

(* number members: the keyword arguments mean exactly what the schema says, for all bounds *)
Theorem constraints_preserved_h c c' hv :
  cnormalize c = Some c' -> sat_model_h (ktranslate_h c') hv = sat_schema_h c hv.
Proof.
  unfold cnormalize. destruct c as [mn mx xmn xmx mu]. cbn [c_min c_max c_xmin c_xmax c_mult].
  destruct xmx as [|[|]|x]; destruct mx as [m1|]; destruct xmn as [|[|]|y]; destruct mn as [m2|];
    intro H; try discriminate; injection H as <-;
    unfold sat_model_h, sat_schema_h, ktranslate_h; cbn [c_min c_max c_xmin c_xmax c_mult k_ge k_le k_gt k_lt opt_ok];
    repeat match goal with
           | |- context [?a <=? ?b] => destruct (a <=? b)
           | |- context [?a <? ?b] => destruct (a <? b)
           end; reflexivity.
Qed.
