From Coq Require Import Lia.
From DMCG Require Import Atomic.

Section Proofs.
Context {world FS dir : Type}.
Context (fs : world -> FS) (cwd : world -> dir) (set_cwd : dir -> world -> world).
Context (sem : nat -> world -> world * bool).

Lemma run_index_ge : forall l n w w' j, run sem n l w = (w', Some j) -> n <= j.
Proof.
  induction l as [|x l IH]; intros n w w' j H; cbn [run] in H; [discriminate|].
  destruct (sem n w) as [w1 b]. destruct b; [injection H as _ <-; lia|].
  apply IH in H. lia.
Qed.

(* a failure at statement j, when no statement up to and including j writes, leaves the file system
   exactly as it was - whatever the statements do otherwise *)
Theorem fail_before_write_untouched (all : list stmt)
  (frame : forall i s w, nth_error all i = Some s -> s_writes s = false -> fs (fst (sem i w)) = fs w) :
  forall stmts i w w' j,
    (forall k s, nth_error stmts k = Some s -> nth_error all (i + k) = Some s) ->
    run sem i stmts w = (w', Some j) ->
    (forall k s, nth_error all k = Some s -> k <= j -> s_writes s = false) ->
    fs w' = fs w.
Proof.
  induction stmts as [|s r IH]; intros i w w' j Hsub H Hw; cbn [run] in H.
  - discriminate.
  - destruct (sem i w) as [w1 raised] eqn:E.
    assert (nth_error all i = Some s) as Hs.
    { specialize (Hsub 0 s eq_refl). rewrite Nat.add_0_r in Hsub. exact Hsub. }
    destruct raised.
    + injection H as <- <-. pose proof (frame i s w Hs (Hw i s Hs (le_n i))) as F. rewrite E in F. exact F.
    + pose proof (run_index_ge _ _ _ _ _ H) as Ge.
      rewrite (IH (S i) w1 w' j); auto.
      * pose proof (frame i s w Hs (Hw i s Hs ltac:(lia))) as F. rewrite E in F. exact F.
      * intros k s0 Hk. specialize (Hsub (S k) s0 Hk). replace (S i + k) with (i + S k) by lia. exact Hsub.
Qed.

(* the working directory after the chdir block is the one before it, whether the body raised or not,
   provided setting the directory is what cwd reads back *)
Theorem chdir_restores (get_set : forall d w, cwd (set_cwd d w) = d) d body w :
  cwd (fst (with_chdir cwd set_cwd d body w)) = cwd w.
Proof.
  unfold with_chdir. destruct (body (set_cwd d w)) as [w' r]. cbn [fst]. apply get_set.
Qed.

End Proofs.
