(* Proofs about M10 (model/Schema.v): acceptance of valid instances, rejection of invalid ones on the
   strict sub-language, wire names of generated members. *)
From DMCG Require Import Schema IdentProofs ConstraintsProofs.
From Coq Require Import List Bool ZArith NArith Lia.
Import ListNotations.
Open Scope N_scope.

(* ---- induction over schemas (lists of sub-schemas inside) ---------------------------------- *)
Section SchemaInd.
  Context (P : schema -> Prop).
  Context (HInt : forall c, P (SInt c)) (HNum : P SNum) (HNumC : forall c, P (SNumC c)) (HStr : forall lo hi, P (SStr lo hi))
          (HBool : P SBool) (HNullT : P SNullT) (HAnyT : P SAnyT) (HEnum : forall vs, P (SEnum vs))
          (HNullable : forall s, P s -> P (SNullable s))
          (HArr : forall s lo hi, P s -> P (SArr s lo hi))
          (HMap : forall s, P s -> P (SMap s))
          (HAny : forall alts, Forall P alts -> P (SAny alts))
          (HObj : forall props closed, Forall (fun p => P (snd (snd p))) props -> P (SObj props closed)).

  Fixpoint schema_ind' (s : schema) : P s :=
    match s with
    | SInt c => HInt c
    | SNum => HNum
    | SNumC c => HNumC c
    | SStr lo hi => HStr lo hi
    | SBool => HBool
    | SNullT => HNullT
    | SAnyT => HAnyT
    | SEnum vs => HEnum vs
    | SNullable s' => HNullable s' (schema_ind' s')
    | SArr s' lo hi => HArr s' lo hi (schema_ind' s')
    | SMap s' => HMap s' (schema_ind' s')
    | SAny alts =>
        HAny alts ((fix go (l : list schema) : Forall P l :=
                      match l with
                      | [] => Forall_nil _
                      | x :: r => Forall_cons x (schema_ind' x) (go r)
                      end) alts)
    | SObj props closed =>
        HObj props closed
             ((fix go (l : list (str * (bool * schema))) : Forall (fun p => P (snd (snd p))) l :=
                 match l with
                 | [] => Forall_nil _
                 | x :: r => Forall_cons x (schema_ind' (snd (snd x))) (go r)
                 end) props)
    end.
End SchemaInd.

(* ---- names: the wire name of a generated member is the schema's member name ---------------- *)
Definition wire2 (na : str * option str) : str := match snd na with Some a => a | None => fst na end.

Lemma assign_names_wire kd o : o_noalias o = false ->
  forall fields excl l, assign_names U0 kd o [] excl fields = Some l -> map wire2 l = fields.
Proof.
  intros Hno. induction fields as [|f r IH]; intros excl l H.
  - cbn in H. injection H as <-. reflexivity.
  - cbn [assign_names] in H. unfold field_name_and_alias in H. cbn [assoc_str] in H.
    destruct (get_valid_name U0 (2 + List.length excl) kd o excl false f) as [v| |] eqn:E; try discriminate.
    destruct (assign_names U0 kd o [] (v :: excl) r) as [l'|] eqn:E2; try discriminate.
    injection H as <-. cbn [map]. f_equal; [|eapply IH; eauto].
    unfold wire2. cbn [fst snd]. rewrite Hno. cbn [orb].
    destruct (str_eqb f v) eqn:E3; [|reflexivity]. apply str_eqb_eq in E3. auto.
Qed.

Lemma wire_mk_field rq p n : wire (fst (mk_field rq p n)) = wire2 n.
Proof. reflexivity. Qed.

Lemma zip_wires rq : forall ps ns, map wire2 ns = map fst ps ->
  map (fun f => wire (fst f)) (zip_fields rq ps ns) = map fst ps.
Proof.
  induction ps as [|p ps IH]; intros [|n ns] H; cbn [zip_fields map] in *; try discriminate; auto.
  injection H as H1 H2. rewrite wire_mk_field, H1, (IH _ H2). reflexivity.
Qed.

Lemma c_is_none_eq c : c_is_none c = true -> c = c_none.
Proof.
  destruct c as [[?|] [?|] [|?|?] [|?|?] [?|]]; cbn; intro H; try discriminate. reflexivity.
Qed.

(* ---- small facts ----------------------------------------------------------------------------- *)
Definition union_base (ts : list pytype) : pytype := match ts with [t] => t | _ => TUnion ts end.
Definition alt_types (o : opts) (fc rq : bool) (alts : list schema) : list pytype :=
  flat_map (fun a => if is_snullt a then [] else [gen o fc rq PIn a]) alts.

Lemma gen_any o fc rq p alts :
  gen o fc rq p (SAny alts) =
  if existsb is_snullt alts then TOpt (union_base (alt_types o fc rq alts)) else TUnion (alt_types o fc rq alts).
Proof. reflexivity. Qed.

Lemma accepts_union_base ts v : accepts (union_base ts) v = existsb (fun t => accepts t v) ts.
Proof.
  destruct ts as [|t [|t' r]]; cbn [union_base accepts existsb]; auto. rewrite orb_false_r. reflexivity.
Qed.

Lemma in_alt_types o fc rq alts t :
  In t (alt_types o fc rq alts) <-> exists a, In a alts /\ is_snullt a = false /\ t = gen o fc rq PIn a.
Proof.
  unfold alt_types. rewrite in_flat_map. split.
  - intros [a [Ha Ht]]. destruct (is_snullt a) eqn:E; [contradiction|]. destruct Ht as [<-|[]]. eauto.
  - intros [a [Ha [E ->]]]. exists a. split; [exact Ha|]. rewrite E. left. reflexivity.
Qed.

Lemma gen_topt_inv o fc rq p s t : gen o fc rq p s = TOpt t -> is_snullable s = true.
Proof.
  destruct s; try rewrite gen_any; cbn [gen is_snullable]; intro H; try discriminate; auto.
  all: try (destruct (cnormalize _); discriminate); try (destruct (drops_bounds fc p); discriminate);
    try (destruct (keeps_counts fc p); discriminate); try (destruct (assign_names _ _ _ _ _ _); discriminate).
  destruct (existsb is_snullt alts); [reflexivity|discriminate].
Qed.

Lemma gen_tnone_inv o fc rq p s : gen o fc rq p s = TNone -> s = SNullT.
Proof.
  destruct s; try rewrite gen_any; cbn [gen]; intro H; try discriminate; auto.
  all: try (destruct (cnormalize _); discriminate); try (destruct (drops_bounds fc p); discriminate);
    try (destruct (keeps_counts fc p); discriminate); try (destruct (assign_names _ _ _ _ _ _); discriminate).
  destruct (existsb is_snullt alts); discriminate.
Qed.

Lemma accepts_strip t x : accepts t x = true -> (is_opt t && v_is_null x) || accepts (strip_opt t) x = true.
Proof.
  destruct t; cbn [is_opt strip_opt andb orb]; auto.
  all: cbn [accepts]; intro H; try (apply orb_true_iff in H as [H|H]); rewrite H; auto using orb_true_r.
Qed.

Definition conv (o : opts) (fc rq : bool) (p : str * (bool * schema)) : str * (bool * pytype) :=
  (fst p, (fst (snd p), gen o fc rq PTop (snd (snd p)))).

Lemma map_fst_conv o fc rq props : map fst (map (conv o fc rq) props) = map fst props.
Proof. rewrite map_map. reflexivity. Qed.

Lemma names_total o : utab_ok U0 = true -> prefix_ok U0 (o_prefix o) = true ->
  forall fields, exists names, assign_names U0 Pyd o [] [] fields = Some names.
Proof.
  intros HU HP fields. destruct (assign_names_nodup U0 HU Pyd o fields [] HP) as [names [E _]]. eauto.
Qed.

(* ---- acceptance ------------------------------------------------------------------------------ *)
Section Accept.
  Context (o : opts) (fc rq : bool) (Hno : o_noalias o = false).

  Definition vfun (m : list (str * json)) (p : str * (bool * schema)) : bool :=
    match jlookup (fst p) m with None => negb (fst (snd p)) | Some x => valid (snd (snd p)) x end.
  Definition afun (m : list (str * json)) (f : finfo * pytype) : bool :=
    match jlookup (wire (fst f)) m with
    | None => negb (f_req (fst f))
    | Some x => (f_null (fst f) && v_is_null x) || accepts (snd f) x
    end.

  Lemma fields_accept m : forall props ns,
    map wire2 ns = map fst props ->
    Forall (fun p => forall p0 v, supported (snd (snd p)) = true -> valid (snd (snd p)) v = true ->
                                   accepts (gen o fc rq p0 (snd (snd p))) v = true) props ->
    forallb (fun p => supported (snd (snd p))) props = true ->
    forallb (vfun m) props = true ->
    forallb (afun m) (zip_fields rq (map (conv o fc rq) props) ns) = true.
  Proof.
    induction props as [|p props IH]; intros [|n ns] Hw HF HS HV; cbn [zip_fields map forallb] in *; try discriminate; auto.
    injection Hw as Hw1 Hw2. inversion HF as [|? ? Hp HF']; subst.
    apply andb_true_iff in HS as [HS1 HS2].
    apply andb_true_iff in HV as [HV1 HV2].
    apply andb_true_iff. split; [|apply IH; auto].
    unfold afun. rewrite wire_mk_field, Hw1. unfold vfun in HV1.
    cbn [mk_field conv fst snd f_req f_null].
    destruct (jlookup (fst p) m) as [x|].
    - specialize (Hp PTop x HS1 HV1). apply accepts_strip in Hp.
      apply orb_true_iff in Hp as [Hp|Hp]; [|rewrite Hp; apply orb_true_r].
      apply andb_true_iff in Hp as [Hp1 Hp2]. rewrite Hp1, Hp2, orb_true_r. reflexivity.
    - apply negb_true_iff in HV1. rewrite HV1. reflexivity.
  Qed.


  Context (Hnames : forall fields, exists names, assign_names U0 Pyd o [] [] fields = Some names).

  Theorem accept_valid : forall s p v,
    supported s = true -> valid s v = true -> accepts (gen o fc rq p s) v = true.
  Proof.
    induction s as [c| |c2|lo hi| | | |vs|s IH|s lo hi IH|s IH|alts IH|props closed IH] using schema_ind';
      intros p v HS HV; cbn [gen valid accepts supported] in *; auto.
    - destruct (cnormalize c) as [c'|] eqn:E; [|discriminate].
      destruct v; try discriminate.
      destruct (drops_bounds fc p); [reflexivity|].
      rewrite E. cbn [accepts]. rewrite (constraints_preserved c c' z E HS). exact HV.
    - destruct (cnormalize c2) as [c'|] eqn:E; [|discriminate].
      destruct (drops_bounds fc p); [destruct v; try discriminate; reflexivity|].
      rewrite E. destruct v; try discriminate; cbn [accepts]; rewrite (constraints_preserved_h c2 c' _ E); exact HV.
    - destruct v; try discriminate. destruct (drops_bounds fc p); [reflexivity|exact HV].
    - apply orb_true_iff in HV as [HV|HV]; [rewrite HV; reflexivity|].
      rewrite (IH p v HS HV). apply orb_true_r.
    - destruct v; try discriminate. apply andb_true_iff in HV as [HL HV].
      assert (HA : forallb (accepts (gen o fc rq PIn s)) l = true).
      { apply forallb_forall. intros x Hx. apply IH; auto. eapply forallb_forall in HV; eauto. }
      destruct (keeps_counts fc p); cbn [accepts]; rewrite HA; [rewrite HL; reflexivity|reflexivity].
    - destruct v; try discriminate. cbn [accepts]. apply forallb_forall. intros kv Hkv.
      apply IH; auto. eapply forallb_forall in HV; [|exact Hkv]. exact HV.
    - fold (alt_types o fc rq alts). apply existsb_exists in HV as [a [Ha HV]].
      assert (HX : is_snullt a = false -> existsb (fun t => accepts t v) (alt_types o fc rq alts) = true).
      { intro En. apply existsb_exists. exists (gen o fc rq PIn a). split; [apply in_alt_types; eauto|].
        rewrite Forall_forall in IH. apply IH; auto. eapply forallb_forall in HS; eauto. }
      destruct (existsb is_snullt alts) eqn:EN; cbn [accepts].
      + fold (union_base (alt_types o fc rq alts)). rewrite accepts_union_base.
        destruct (is_snullt a) eqn:En; [|rewrite (HX eq_refl); apply orb_true_r].
        destruct a; try discriminate. cbn [valid] in HV. rewrite HV. reflexivity.
      + apply HX. destruct (is_snullt a) eqn:En; [|reflexivity].
        exfalso. assert (existsb is_snullt alts = true) by (apply existsb_exists; eauto). congruence.
    - apply andb_true_iff in HS as [HN HS].
      destruct (Hnames (map fst props)) as [names E]. rewrite E.
      pose proof (assign_names_wire Pyd o Hno _ _ _ E) as HW.
      destruct v; try discriminate. cbn [accepts]. apply andb_true_iff in HV as [HV1 HV2].
      apply andb_true_iff. split.
      + apply fields_accept; auto.
      + rewrite zip_wires; [rewrite map_map; exact HV2|]. rewrite map_map. exact HW.
  Qed.
End Accept.

(* ---- rejection on the strict sub-language --------------------------------------------------- *)
Section Reject.
  Context (o : opts) (fc rq : bool) (Hno : o_noalias o = false).

  Definition rfun (m : list (str * json)) (p : str * (bool * schema)) : bool :=
    match jlookup (fst p) m with
    | None => negb (fst (snd p))
    | Some x => (negb (fst (snd p)) && v_is_null x) || valid_relaxed (snd (snd p)) x
    end.

  Lemma fields_reject m : forall props ns,
    map wire2 ns = map fst props ->
    Forall (fun p => forall p0 v, supported (snd (snd p)) = true -> strict fc p0 (snd (snd p)) = true ->
                                   accepts (gen o fc rq p0 (snd (snd p))) v = true ->
                                   valid_relaxed (snd (snd p)) v = true) props ->
    forallb (fun p => supported (snd (snd p))) props = true ->
    forallb (fun p => negb (fst (snd p) && is_snullable (snd (snd p))) && strict fc PTop (snd (snd p))) props = true ->
    forallb (afun m) (zip_fields rq (map (conv o fc rq) props) ns) = true ->
    forallb (rfun m) props = true.
  Proof.
    induction props as [|p props IH]; intros [|n ns] Hw HF HS HT HA; cbn [zip_fields map forallb] in *; try discriminate; auto.
    injection Hw as Hw1 Hw2. inversion HF as [|? ? Hp HF']; subst.
    apply andb_true_iff in HS as [HS1 HS2]. apply andb_true_iff in HT as [HT1 HT2].
    apply andb_true_iff in HT1 as [HT0 HT1].
    apply andb_true_iff in HA as [HA1 HA2].
    apply andb_true_iff. split; [|eapply IH; eauto].
    unfold afun in HA1. rewrite wire_mk_field, Hw1 in HA1. unfold rfun.
    cbn [mk_field conv fst snd f_req f_null] in HA1.
    destruct p as [nm [req s]]. cbn [fst snd] in *.
    assert (Hreq : req && (rq || negb (is_topt (gen o fc rq PTop s))) = req).
    { destruct req; cbn [andb]; auto. cbn [andb] in HT0. apply negb_true_iff in HT0.
      destruct (gen o fc rq PTop s) eqn:G; cbn; auto using orb_true_r.
      apply gen_topt_inv in G. congruence. }
    rewrite Hreq in HA1.
    destruct (jlookup nm m) as [x|]; [|exact HA1].
    destruct (gen o fc rq PTop s) eqn:G; cbn [is_opt strip_opt orb] in HA1;
      try (rewrite <- G in HA1;
           apply orb_true_iff in HA1 as [HA1|HA1];
           [apply andb_true_iff in HA1 as [H1 H2]; rewrite orb_false_r in H1; rewrite H1, H2; reflexivity
           |rewrite (Hp PTop x HS1 HT1 HA1); apply orb_true_r]).
    - (* TNone *)
      apply gen_tnone_inv in G. subst s. cbn [valid_relaxed].
      apply orb_true_iff in HA1 as [HA1|HA1].
      + apply andb_true_iff in HA1 as [_ H2]. rewrite H2. apply orb_true_r.
      + cbn [accepts] in HA1. rewrite HA1. apply orb_true_r.
    - (* TOpt: the schema is [T, null] *)
      assert (HX : accepts (gen o fc rq PTop s) x = true).
      { rewrite G. cbn [accepts]. apply orb_true_iff in HA1 as [HA1|HA1].
        - apply andb_true_iff in HA1 as [_ H2]. rewrite H2. reflexivity.
        - rewrite HA1. apply orb_true_r. }
      rewrite (Hp PTop x HS1 HT1 HX). apply orb_true_r.
  Qed.

  Context (Hnames : forall fields, exists names, assign_names U0 Pyd o [] [] fields = Some names).

  Theorem reject_invalid : forall s p v,
    supported s = true -> strict fc p s = true -> accepts (gen o fc rq p s) v = true -> valid_relaxed s v = true.
  Proof.
    induction s as [c| |c2|lo hi| | | |vs|s IH|s lo hi IH|s IH|alts IH|props closed IH] using schema_ind';
      intros p v HS HT HA; cbn [gen valid_relaxed accepts supported strict] in *; auto.
    - assert (Hc : (if drops_bounds fc p then c_none else c) = c).
      { destruct (drops_bounds fc p); [|reflexivity]. cbn [negb orb] in HT. symmetry. apply c_is_none_eq. exact HT. }
      rewrite Hc in HA.
      destruct (cnormalize c) as [c'|] eqn:E; [|discriminate].
      destruct v; try discriminate. cbn [accepts] in HA. rewrite <- (constraints_preserved c c' z E HS). exact HA.
    - assert (Hc : (if drops_bounds fc p then c_none else c2) = c2).
      { destruct (drops_bounds fc p); [|reflexivity]. cbn [negb orb] in HT. symmetry. apply c_is_none_eq. exact HT. }
      rewrite Hc in HA.
      destruct (cnormalize c2) as [c'|] eqn:E; [|discriminate].
      destruct v; try discriminate; cbn [accepts] in HA; rewrite <- (constraints_preserved_h c2 c' _ E); exact HA.
    - destruct (drops_bounds fc p); cbn [negb orb] in HT; [|exact HA].
      apply andb_true_iff in HT as [H1 H2]. destruct lo; [discriminate|]. destruct hi; [discriminate|]. exact HA.
    - apply orb_true_iff in HA as [HA|HA]; [rewrite HA; reflexivity|].
      rewrite (IH p v HS HT HA). apply orb_true_r.
    - apply andb_true_iff in HT as [HT1 HT2].
      assert (HB : forall l, forallb (accepts (gen o fc rq PIn s)) l = true -> forallb (valid_relaxed s) l = true).
      { intros l H. apply forallb_forall. intros x Hx. eapply IH; eauto. eapply forallb_forall in H; eauto. }
      destruct (keeps_counts fc p) eqn:Etf; cbn [orb] in HT1.
      + destruct v; try discriminate. cbn [accepts] in HA. apply andb_true_iff in HA as [HL HA].
        rewrite HL, (HB _ HA). reflexivity.
      + destruct lo; [discriminate|]. destruct hi; [discriminate|].
        destruct v; try discriminate. cbn [accepts] in HA. apply andb_true_iff in HA as [HL HA].
        rewrite HL, (HB _ HA). reflexivity.
    - destruct v; try discriminate. cbn [accepts] in HA. apply forallb_forall. intros kv Hkv.
      eapply forallb_forall in HA; [|exact Hkv]. eapply IH; eauto.
    - fold (alt_types o fc rq alts) in HA.
      assert (HX : existsb (fun t => accepts t v) (alt_types o fc rq alts) = true -> existsb (fun a => valid_relaxed a v) alts = true).
      { intro H. apply existsb_exists in H as [t [Ht H]]. apply in_alt_types in Ht as [a [Ha [En ->]]].
        apply existsb_exists. exists a. split; [exact Ha|].
        rewrite Forall_forall in IH. eapply IH; eauto; eapply forallb_forall; eauto. }
      destruct (existsb is_snullt alts) eqn:EN; cbn [accepts] in HA.
      + fold (union_base (alt_types o fc rq alts)) in HA. rewrite accepts_union_base in HA.
        apply orb_true_iff in HA as [HA|HA]; [|exact (HX HA)].
        apply existsb_exists in EN as [a [Ha En]]. destruct a; try discriminate.
        apply existsb_exists. exists SNullT. split; [exact Ha|exact HA].
      + exact (HX HA).
    - apply andb_true_iff in HS as [HN HS].
      destruct (Hnames (map fst props)) as [names E]. rewrite E in HA.
      pose proof (assign_names_wire Pyd o Hno _ _ _ E) as HW.
      destruct v; try discriminate. cbn [accepts] in HA. apply andb_true_iff in HA as [HA1 HA2].
      apply andb_true_iff. split.
      + eapply fields_reject; eauto.
      + rewrite zip_wires in HA2; [rewrite map_map in HA2; exact HA2|]. rewrite map_map. exact HW.
  Qed.
End Reject.

Lemma zip_pynames rq : forall ps ns, List.length ns = List.length ps ->
  map (fun f => f_py (fst f)) (zip_fields rq ps ns) = map fst ns.
Proof.
  induction ps as [|p ps IH]; intros [|n ns] HL; cbn [zip_fields map List.length] in *; try discriminate; auto.
  injection HL as HL. rewrite (IH _ HL). reflexivity.
Qed.

(* ---- member wire names: dumping by alias gives the schema's member names back -------------- *)
Theorem model_wire_names o fc rq props closed :
  o_noalias o = false -> utab_ok U0 = true -> prefix_ok U0 (o_prefix o) = true ->
  exists fields, gen o fc rq PTop (SObj props closed) = TModel fields closed
    /\ map (fun f => wire (fst f)) fields = map fst props
    /\ NoDup (map (fun f => f_py (fst f)) fields).
Proof.
  intros Hno HU HP. cbn [gen].
  destruct (assign_names_nodup U0 HU Pyd o (map fst props) [] HP) as [names [E [Len [ND _]]]]. rewrite E.
  pose proof (assign_names_wire Pyd o Hno _ _ _ E) as HW.
  eexists. split; [reflexivity|]. split.
  - rewrite zip_wires; [rewrite map_map; reflexivity|]. rewrite map_map. exact HW.
  - rewrite zip_pynames; [exact ND|]. rewrite Len, !map_length. reflexivity.
Qed.

(* ---- the two constraint styles generate the same class tree -------------------------------- *)
Lemma existsb_ext_in' {A} (f g : A -> bool) l : (forall a, In a l -> f a = g a) -> existsb f l = existsb g l.
Proof.
  induction l as [|x r IH]; intro H; cbn [existsb]; [reflexivity|].
  rewrite (H x (or_introl eq_refl)), IH; [reflexivity|]. intros a Ha. apply H. right. exact Ha.
Qed.

Lemma flat_map_ext_in {A B} (f g : A -> list B) l : (forall a, In a l -> f a = g a) -> flat_map f l = flat_map g l.
Proof.
  induction l as [|x r IH]; intro H; cbn [flat_map]; [reflexivity|].
  rewrite (H x (or_introl eq_refl)), IH; [reflexivity|]. intros a Ha. apply H. right. exact Ha.
Qed.

Lemma flat_map_map {A B C} (g : A -> B) (f : B -> list C) l : flat_map f (map g l) = flat_map (fun a => f (g a)) l.
Proof. induction l as [|x r IH]; cbn [flat_map map]; [reflexivity|]. rewrite IH. reflexivity. Qed.

Lemma existsb_map {A B} (g : A -> B) (f : B -> bool) l : existsb f (map g l) = existsb (fun a => f (g a)) l.
Proof. induction l as [|x r IH]; cbn [existsb map]; [reflexivity|]. rewrite IH. reflexivity. Qed.

Theorem gen_fc_invariant o rq : forall s p, place_free p s = true -> gen o true rq p s = gen o false rq p s.
Proof.
  induction s as [c| |c2|lo hi| | | |vs|s IH|s lo hi IH|s IH|alts IH|props closed IH] using schema_ind';
    intros p HF; cbn [gen place_free] in *; auto.
  - destruct p; cbn [drops_bounds is_pval andb negb orb] in *; auto.
    apply c_is_none_eq in HF. subst c. reflexivity.
  - destruct p; cbn [drops_bounds is_pval andb negb orb] in *; auto.
    apply c_is_none_eq in HF. subst c2. reflexivity.
  - destruct p; cbn [drops_bounds is_pval andb negb orb] in *; auto.
    apply andb_true_iff in HF as [H1 H2]. destruct lo; [discriminate|]. destruct hi; [discriminate|]. reflexivity.
  - rewrite (IH p HF). reflexivity.
  - apply andb_true_iff in HF as [H1 H2]. rewrite (IH PIn H2).
    destruct p; cbn [keeps_counts is_pin negb orb] in *; auto.
    destruct lo; [discriminate|]. destruct hi; [discriminate|]. reflexivity.
  - rewrite (IH PVal HF). reflexivity.
  - assert (E : alt_types o true rq alts = alt_types o false rq alts).
    { apply flat_map_ext_in. intros a Ha. destruct (is_snullt a); [reflexivity|]. f_equal.
      rewrite Forall_forall in IH. apply IH; auto. eapply forallb_forall in HF; [|exact Ha]. exact HF. }
    change (gen o true rq p (SAny alts) = gen o false rq p (SAny alts)). rewrite !gen_any, E. reflexivity.
  - destruct (assign_names U0 Pyd o [] [] (map fst props)) as [names|]; [|reflexivity].
    f_equal. f_equal. apply map_ext_in. intros q Hq. rewrite Forall_forall in IH.
    rewrite (IH q Hq PTop); [reflexivity|]. eapply forallb_forall in HF; [|exact Hq]. exact HF.
Qed.

(* ---- draft-4 boolean flags and their draft-6 spelling generate the same class tree ---------- *)
Lemma cnormalize_idem c c' : cnormalize c = Some c' -> cnormalize c' = Some c'.
Proof.
  unfold cnormalize. destruct c as [mn mx xmn xmx mu]. cbn [c_min c_max c_xmin c_xmax c_mult].
  destruct xmx as [|[|]|x]; destruct mx as [m1|]; destruct xmn as [|[|]|y]; destruct mn as [m2|];
    intro H; try discriminate; injection H as <-; reflexivity.
Qed.

Lemma cnormalize_to_draft6 c : cnormalize c <> None -> cnormalize (to_draft6 c) = cnormalize c.
Proof.
  unfold to_draft6. destruct (cnormalize c) as [c'|] eqn:E; [|congruence].
  intros _. apply cnormalize_idem in E. exact E.
Qed.

Lemma map_fst_keep {A B C} (g : A * B -> C) (l : list (A * B)) :
  map fst (map (fun q => (fst q, g q)) l) = map fst l.
Proof. rewrite map_map. reflexivity. Qed.

Theorem gen_draft_invariant o fc rq : forall s p, gen o fc rq p (to_d6 s) = gen o fc rq p s.
Proof.
  induction s as [c| |c2|lo hi| | | |vs|s IH|s lo hi IH|s IH|alts IH|props closed IH] using schema_ind';
    intros p; cbn [gen to_d6]; auto.
  - destruct (drops_bounds fc p); [reflexivity|].
    unfold to_draft6. destruct (cnormalize c) as [c'|] eqn:E; [|rewrite E; reflexivity].
    rewrite (cnormalize_idem _ _ E). reflexivity.
  - destruct (drops_bounds fc p); [reflexivity|].
    unfold to_draft6. destruct (cnormalize c2) as [c'|] eqn:E; [|rewrite E; reflexivity].
    rewrite (cnormalize_idem _ _ E). reflexivity.
  - rewrite IH. reflexivity.
  - rewrite IH. reflexivity.
  - rewrite IH. reflexivity.
  - change (gen o fc rq p (SAny (map to_d6 alts)) = gen o fc rq p (SAny alts)). rewrite !gen_any.
    assert (E1 : existsb is_snullt (map to_d6 alts) = existsb is_snullt alts).
    { rewrite existsb_map. apply existsb_ext_in'. intros a _. destruct a; reflexivity. }
    assert (E2 : alt_types o fc rq (map to_d6 alts) = alt_types o fc rq alts).
    { unfold alt_types. rewrite flat_map_map. apply flat_map_ext_in. intros a Ha.
      replace (is_snullt (to_d6 a)) with (is_snullt a) by (destruct a; reflexivity).
      destruct (is_snullt a); [reflexivity|]. f_equal. rewrite Forall_forall in IH. apply IH. exact Ha. }
    rewrite E1, E2. reflexivity.
  - rewrite map_fst_keep.
    destruct (assign_names U0 Pyd o [] [] (map fst props)) as [names|]; [|reflexivity].
    f_equal. f_equal. rewrite map_map. cbn [fst snd]. apply map_ext_in. intros q Hq. rewrite Forall_forall in IH.
    rewrite (IH q Hq). reflexivity.
Qed.
