(* A loop that goes round again only after a bounded measure strictly grew stops within bound+1 rounds:
   the shape of the reserved_refs fix-points of JsonSchemaParser._parse_file and
   _resolve_unparsed_json_pointer (the measure is the number of JSON pointers already resolved, the
   bound the number of pointers in the document set). *)
From Coq Require Import Arith Lia.

Section Growing.
  Context {S : Type} (size : S -> nat) (bound : nat) (step : S -> option S).
  Context (Hgrow : forall s s', step s = Some s' -> size s < size s')
          (Hbound : forall s s', step s = Some s' -> size s' <= bound).

  Fixpoint run (fuel : nat) (s : S) : option S :=
    match fuel with
    | O => None
    | Datatypes.S f => match step s with None => Some s | Some s' => run f s' end
    end.

  Theorem growing_loop_terminates : forall fuel s, bound + 1 - size s < fuel -> exists r, run fuel s = Some r /\ step r = None.
  Proof.
    induction fuel as [|f IH]; intros s H; [lia|].
    cbn [run]. destruct (step s) as [s'|] eqn:E; [|eauto].
    apply IH. pose proof (Hgrow _ _ E). pose proof (Hbound _ _ E). lia.
  Qed.
End Growing.
