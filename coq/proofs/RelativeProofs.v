(* Proofs about M5: what the generator writes resolves, by Python's rule, to the referenced model. *)
From Coq Require Import Lia.
From DMCG Require Import Relative.
Open Scope N_scope.
Arguments N.eqb : simpl never.

Lemma strip_common_spec a : forall b,
  exists p, a = p ++ fst (strip_common a b) /\ b = p ++ snd (strip_common a b).
Proof.
  induction a as [|x a IH]; intro b.
  - exists []. destruct b; split; reflexivity.
  - destruct b as [|y b]; [exists []; split; reflexivity|].
    cbn [strip_common]. destruct (x =? y) eqn:E.
    + apply N.eqb_eq in E. subst y. destruct (IH b) as [p [H1 H2]].
      exists (x :: p). cbn [app]. split; congruence.
    + exists []. split; reflexivity.
Qed.

Definition is_nil (p : path) : bool := match p with [] => true | _ => false end.

(* the class of (importer, reference) pairs the theorem covers; its complement is refuted below *)
Definition guard (use_exact is_base init : bool) (cur rp : path) : bool :=
  let cr := fst (strip_common cur rp) in
  let rest := snd (strip_common cur rp) in
  (negb (is_nil cr) || (is_nil cur && negb init))
  && negb ((use_exact || is_base) && is_nil rest).

Lemma base_ok p cr init :
  cr <> [] ->
  let pkg := package_of init (p ++ cr) in
  let up := (length cr + (if init then 1 else 0) - 1)%nat in
  Nat.leb up (length pkg) = true /\ firstn (length pkg - up) pkg = p.
Proof.
  intro Hne. destruct init; cbn [package_of].
  - split.
    + apply PeanoNat.Nat.leb_le. rewrite app_length. lia.
    + rewrite app_length.
      replace (length p + length cr - (length cr + 1 - 1))%nat with (length p + 0)%nat by lia.
      rewrite firstn_app_2. cbn. apply app_nil_r.
  - rewrite removelast_app by exact Hne.
    assert (length (removelast cr) = length cr - 1)%nat as L.
    { destruct cr as [|c cr]; [congruence|].
      rewrite (app_removelast_last 0 Hne) at 2. rewrite app_length. cbn [length]. lia. }
    split.
    + apply PeanoNat.Nat.leb_le. rewrite app_length, L. lia.
    + rewrite app_length, L.
      replace (length p + (length cr - 1) - (length cr + 0 - 1))%nat with (length p + 0)%nat by lia.
      rewrite firstn_app_2. cbn. apply app_nil_r.
Qed.

Lemma py_resolve_eq pkg dots extra right p :
  (dots <> 0)%nat ->
  Nat.leb (dots - 1) (length pkg) = true -> firstn (length pkg - (dots - 1)) pkg = p ->
  py_resolve pkg {| i_dots := dots; i_extra := extra; i_right := right |} = Some (p ++ extra ++ [right]).
Proof.
  intros Hd H1 H2. unfold py_resolve. cbn [i_dots i_extra i_right].
  destruct dots as [|up]; [congruence|].
  replace (Datatypes.S up - 1)%nat with up in * by lia. rewrite H1, H2. reflexivity.
Qed.

Lemma resolve_up p cr init extra right :
  cr <> [] ->
  py_resolve (package_of init (p ++ cr))
    (init_adjust init {| i_dots := length cr; i_extra := extra; i_right := right |})
  = Some (p ++ extra ++ [right]).
Proof.
  intro Hne. destruct (base_ok p cr init Hne) as [B1 B2].
  assert (length cr <> 0)%nat as L0 by (destruct cr; [congruence | cbn; lia]).
  unfold init_adjust. destruct init; cbn [i_dots i_extra i_right].
  - apply py_resolve_eq; try lia.
    + replace (Datatypes.S (length cr) - 1)%nat with (length cr + 1 - 1)%nat by lia. exact B1.
    + replace (Datatypes.S (length cr) - 1)%nat with (length cr + 1 - 1)%nat by lia. exact B2.
  - apply py_resolve_eq; try lia.
    + replace (length cr - 1)%nat with (length cr + 0 - 1)%nat by lia. exact B1.
    + replace (length cr - 1)%nat with (length cr + 0 - 1)%nat by lia. exact B2.
Qed.

Theorem written_resolves use_exact is_base init cur rp name w :
  written use_exact is_base init cur rp name = Some w ->
  guard use_exact is_base init cur rp = true ->
  resolve_use (package_of init cur) w = Some (rp ++ [name]).
Proof.
  unfold written, relative, guard.
  destruct (path_eqb cur rp) eqn:PE; [discriminate|].
  destruct (strip_common_spec cur rp) as [p [Hc Hr]].
  destruct (strip_common cur rp) as [cr rest]. cbn [fst snd] in *.
  intros W G. apply andb_true_iff in G as [G1 G2].
  destruct cr as [|c cr'].
  - (* the importer path is a prefix of the reference path: only the root module is covered *)
    cbn [is_nil negb orb] in G1. destruct cur as [|x cur']; [|discriminate].
    cbn [is_nil andb] in G1. apply negb_true_iff in G1. subst init.
    destruct p; [|discriminate]. cbn [app] in Hr. subst rest.
    destruct rp as [|r rp'].
    + (* same module: excluded by path_eqb *) cbn in PE. discriminate.
    + assert (removelast (r :: rp') ++ [last (r :: rp') 0] = r :: rp') as RL
        by (symmetry; apply app_removelast_last; discriminate).
      remember (removelast (r :: rp')) as rl. remember (last (r :: rp') 0) as la.
      destruct (use_exact || is_base); injection W as <-; unfold resolve_use, init_adjust, exact, py_resolve;
        cbn [package_of removelast fst snd i_dots i_extra i_right length Nat.leb firstn Nat.sub app tl];
        rewrite ?app_nil_r, RL; reflexivity.
  - (* the importer has to go up length (c :: cr') levels *)
    assert (c :: cr' <> []) as Hne by discriminate.
    subst cur.
    destruct rest as [|r rest'].
    + (* the reference lives in an ancestor package: the class itself is imported *)
      rewrite app_nil_r in Hr. subst p.
      destruct (use_exact || is_base); [cbn in G2; discriminate|].
      injection W as <-. unfold resolve_use. cbn [fst snd tl].
      pose proof (resolve_up rp (c :: cr') init [] name Hne) as RU. cbn [length] in RU |- *.
      rewrite RU. cbn [app]. rewrite app_nil_r. reflexivity.
    + assert (removelast (r :: rest') ++ [last (r :: rest') 0] = r :: rest') as RL
        by (symmetry; apply app_removelast_last; discriminate).
      remember (removelast (r :: rest')) as rl. remember (last (r :: rest') 0) as la.
      pose proof (fun e r => resolve_up p (c :: cr') init e r Hne) as RU. cbn [length] in RU.
      destruct (use_exact || is_base); injection W as <-; unfold resolve_use, exact;
        cbn [fst snd i_dots i_extra i_right tl length];
        rewrite RU; subst rp;
        rewrite <- ?app_assoc; cbn [app]; rewrite ?app_nil_r;
        change (r :: rest' ++ [name]) with ((r :: rest') ++ [name]); rewrite <- RL, <- app_assoc; reflexivity.
Qed.
