(* Proofs about M6 (Imports.v): the counter invariant over all append/remove histories. *)
From Coq Require Import ZArith Lia.
From DMCG Require Import Imports IdentProofs.
Open Scope N_scope.

Lemma key_eqb_eq a b : fkey_eqb a b = true <-> a = b.
Proof.
  destruct a, b; cbn [fkey_eqb]; split; intro H; try discriminate; try reflexivity.
  - apply str_eqb_eq in H. congruence.
  - injection H as ->. apply str_eqb_eq. reflexivity.
Qed.

Lemma pair_eqb_eq p q : pair_eqb p q = true <-> p = q.
Proof.
  destruct p as [a b], q as [c d]. unfold pair_eqb. cbn [fst snd].
  rewrite andb_true_iff, key_eqb_eq, str_eqb_eq. split; [intros [-> ->]; reflexivity | intro H; injection H; auto].
Qed.

Lemma pair_eqb_refl p : pair_eqb p p = true.
Proof. apply pair_eqb_eq. reflexivity. Qed.

Lemma pair_eqb_neq p q : pair_eqb p q = false <-> p <> q.
Proof.
  split; intro H.
  - intro E. apply pair_eqb_eq in E. congruence.
  - destruct (pair_eqb p q) eqn:E; [apply pair_eqb_eq in E; congruence | reflexivity].
Qed.

Lemma pair_eqb_sym p q : pair_eqb p q = pair_eqb q p.
Proof.
  destruct (pair_eqb p q) eqn:E.
  - apply pair_eqb_eq in E. subst. symmetry. apply pair_eqb_refl.
  - symmetry. apply pair_eqb_neq. apply pair_eqb_neq in E. congruence.
Qed.

Lemma cnt_add_spec c p d q :
  cnt_of (cnt_add c p d) q = (cnt_of c q + (if pair_eqb p q then d else 0))%Z.
Proof.
  induction c as [|[[k n] z] r IH]; cbn [cnt_add cnt_of].
  - rewrite (pair_eqb_sym q). destruct p as [pk pn]. cbn [fst snd]. destruct (pair_eqb (pk, pn) q); lia.
  - destruct (pair_eqb p (k, n)) eqn:E.
    + apply pair_eqb_eq in E. subst p. cbn [cnt_of]. rewrite (pair_eqb_sym q).
      destruct (pair_eqb (k, n) q); lia.
    + cbn [cnt_of]. destruct (pair_eqb q (k, n)) eqn:F.
      * apply pair_eqb_eq in F. subst q. rewrite E. lia.
      * exact IH.
Qed.

Lemma has_pair_app l p q : has_pair (l ++ [p]) q = has_pair l q || pair_eqb q p.
Proof. unfold has_pair. rewrite existsb_app. cbn [existsb]. rewrite orb_false_r. reflexivity. Qed.

Lemma has_pair_filter l p q :
  has_pair (filter (fun x => negb (pair_eqb p x)) l) q = has_pair l q && negb (pair_eqb p q).
Proof.
  unfold has_pair. induction l as [|x l IH]; cbn [filter existsb]; [reflexivity|].
  destruct (pair_eqb p x) eqn:E; cbn [negb existsb].
  - rewrite IH. apply pair_eqb_eq in E. subst x.
    destruct (pair_eqb q p) eqn:F; cbn [orb]; [|reflexivity].
    rewrite (pair_eqb_sym p q), F. cbn [negb]. rewrite andb_false_r. reflexivity.
  - rewrite IH. destruct (pair_eqb q x) eqn:F; cbn [orb]; [|reflexivity].
    apply pair_eqb_eq in F. subst x. rewrite E. reflexivity.
Qed.

(* the invariant: a name is in the set of its fkey exactly when its counter is positive, counters
   are never negative, and a fkey is in the dict exactly when its set is non-empty *)
Definition inv (s : st) : Prop :=
  (forall p, has_pair (s_pairs s) p = Z.ltb 0 (cnt_of (s_cnt s) p))
  /\ (forall p, (0 <= cnt_of (s_cnt s) p)%Z)
  /\ (forall k, order_has (s_order s) k = fkey_used (s_pairs s) k).

Lemma inv_empty : inv empty.
Proof. repeat split; intros; cbn; try reflexivity; lia. Qed.

Lemma key_used_has_pair l p : has_pair l p = true -> fkey_used l (fst p) = true.
Proof.
  unfold has_pair, fkey_used. rewrite !existsb_exists. intros [q [Hq E]]. exists q. split; [exact Hq|].
  apply pair_eqb_eq in E. subst q. apply key_eqb_eq. reflexivity.
Qed.

Lemma append_inv s i : inv s -> inv (append s i).
Proof.
  intros [I1 [I2 I3]]. unfold append. set (p := pair_of i). repeat split; cbn [s_pairs s_cnt s_order].
  - intro q. rewrite cnt_add_spec. pose proof (I2 p) as Pp. pose proof (I2 q) as Pq.
    destruct (has_pair (s_pairs s) p) eqn:H.
    + rewrite I1. rewrite I1 in H. apply Z.ltb_lt in H.
      destruct (pair_eqb p q) eqn:E; [|rewrite Z.add_0_r; reflexivity].
      apply pair_eqb_eq in E. subst q.
      rewrite (proj2 (Z.ltb_lt 0 (cnt_of (s_cnt s) p)) H), (proj2 (Z.ltb_lt 0 (cnt_of (s_cnt s) p + 1)) ltac:(lia)). reflexivity.
    + rewrite has_pair_app, I1. rewrite I1 in H. apply Z.ltb_ge in H.
      rewrite (pair_eqb_sym q p). destruct (pair_eqb p q) eqn:E.
      * apply pair_eqb_eq in E. subst q. rewrite orb_true_r.
        rewrite (proj2 (Z.ltb_lt 0 (cnt_of (s_cnt s) p + 1)) ltac:(lia)). reflexivity.
      * rewrite orb_false_r, Z.add_0_r. reflexivity.
  - intro q. rewrite cnt_add_spec. pose proof (I2 q). destruct (pair_eqb p q); lia.
  - intro k.
    assert (fkey_used (if has_pair (s_pairs s) p then s_pairs s else s_pairs s ++ [p]) k
            = fkey_used (s_pairs s) k || fkey_eqb k (fst p)) as KU.
    { destruct (has_pair (s_pairs s) p) eqn:H.
      - destruct (fkey_eqb k (fst p)) eqn:E; [|rewrite orb_false_r; reflexivity].
        apply key_eqb_eq in E. subst k. rewrite (key_used_has_pair _ _ H). reflexivity.
      - unfold fkey_used. rewrite existsb_app. cbn [existsb]. rewrite orb_false_r. reflexivity. }
    rewrite KU. destruct (order_has (s_order s) (fst p)) eqn:H.
    + rewrite I3. destruct (fkey_eqb k (fst p)) eqn:E; [|rewrite orb_false_r; reflexivity].
      apply key_eqb_eq in E. subst k. rewrite <- I3, H. reflexivity.
    + unfold order_has. rewrite existsb_app. cbn [existsb]. rewrite orb_false_r.
      fold (order_has (s_order s) k). rewrite I3. reflexivity.
Qed.

Lemma key_used_filter_other l p k :
  fkey_eqb k (fst p) = false ->
  fkey_used (filter (fun q => negb (pair_eqb p q)) l) k = fkey_used l k.
Proof.
  intro E. unfold fkey_used. induction l as [|x l IH]; cbn [filter existsb]; [reflexivity|].
  destruct (pair_eqb p x) eqn:F; cbn [negb existsb].
  - apply pair_eqb_eq in F. subst x. rewrite E. cbn [orb]. exact IH.
  - rewrite IH. reflexivity.
Qed.

Lemma has_key_filter l k k' :
  order_has (filter (fun x => negb (fkey_eqb k x)) l) k' = order_has l k' && negb (fkey_eqb k k').
Proof.
  unfold order_has. induction l as [|x l IH]; cbn [filter existsb]; [reflexivity|].
  destruct (fkey_eqb k x) eqn:E; cbn [negb existsb].
  - rewrite IH. apply key_eqb_eq in E. subst x. destruct (fkey_eqb k' k) eqn:F; cbn [orb]; [|reflexivity].
    apply key_eqb_eq in F. subst k'. rewrite (proj2 (key_eqb_eq k k) eq_refl). cbn [negb]. rewrite andb_false_r. reflexivity.
  - rewrite IH. destruct (fkey_eqb k' x) eqn:F; cbn [orb]; [|reflexivity].
    apply key_eqb_eq in F. subst x. rewrite E. reflexivity.
Qed.

Lemma remove_inv s i :
  inv s -> Z.ltb 0 (cnt_of (s_cnt s) (pair_of i)) = true -> inv (remove s i).
Proof.
  intros [I1 [I2 I3]] Hpos. apply Z.ltb_lt in Hpos. unfold remove. set (p := pair_of i) in *.
  pose proof (cnt_add_spec (s_cnt s) p (-1) p) as Cp. rewrite pair_eqb_refl in Cp.
  destruct (Z.eqb (cnt_of (cnt_add (s_cnt s) p (-1)) p) 0) eqn:Z0.
  - apply Z.eqb_eq in Z0. repeat split; cbn [s_pairs s_cnt s_order].
    + intro q. rewrite has_pair_filter, I1, cnt_add_spec. destruct (pair_eqb p q) eqn:E.
      * apply pair_eqb_eq in E. subst q. cbn [negb]. rewrite andb_false_r. symmetry. apply Z.ltb_ge. lia.
      * cbn [negb]. rewrite andb_true_r, Z.add_0_r. reflexivity.
    + intro q. rewrite cnt_add_spec. pose proof (I2 q). destruct (pair_eqb p q) eqn:E; [|lia].
      apply pair_eqb_eq in E. subst q. lia.
    + intro k. destruct (fkey_eqb k (fst p)) eqn:E.
      * apply key_eqb_eq in E. subst k.
        destruct (fkey_used (filter (fun q => negb (pair_eqb p q)) (s_pairs s)) (fst p)) eqn:KU.
        -- rewrite I3. unfold fkey_used in *. rewrite existsb_exists in *. destruct KU as [q [Hq Eq]].
           apply filter_In in Hq as [Hq _]. exists q. split; assumption.
        -- rewrite has_key_filter. rewrite (proj2 (key_eqb_eq (fst p) (fst p)) eq_refl). cbn [negb]. apply andb_false_r.
      * rewrite (key_used_filter_other _ _ _ E).
        destruct (fkey_used (filter (fun q => negb (pair_eqb p q)) (s_pairs s)) (fst p)).
        -- apply I3.
        -- rewrite has_key_filter, I3.
           assert (fkey_eqb (fst p) k = false) as E'.
           { destruct (fkey_eqb (fst p) k) eqn:F; [|reflexivity]. apply key_eqb_eq in F. subst k.
             rewrite (proj2 (key_eqb_eq (fst p) (fst p)) eq_refl) in E. discriminate. }
           rewrite E'. cbn [negb]. apply andb_true_r.
  - apply Z.eqb_neq in Z0. repeat split; cbn [s_pairs s_cnt s_order].
    + intro q. rewrite I1, cnt_add_spec. destruct (pair_eqb p q) eqn:E; [|rewrite Z.add_0_r; reflexivity].
      apply pair_eqb_eq in E. subst q. rewrite (proj2 (Z.ltb_lt _ _) Hpos). symmetry. apply Z.ltb_lt.
      pose proof (I2 p). lia.
    + intro q. rewrite cnt_add_spec. pose proof (I2 q). destruct (pair_eqb p q) eqn:E; [|lia].
      apply pair_eqb_eq in E. subst q. lia.
    + exact I3.
Qed.

Theorem run_inv ops : forall s, inv s -> ops_ok s ops = true -> inv (run ops s).
Proof.
  induction ops as [|[i|i] r IH]; intros s I H; cbn [run fold_left step ops_ok] in *.
  - exact I.
  - apply IH; [apply append_inv; exact I | exact H].
  - apply andb_true_iff in H as [H1 H2]. apply IH; [apply remove_inv; assumption | exact H2].
Qed.

(* consequence for dump: no line without a name *)
Theorem dump_lines_nonempty s : inv s -> forall k l, In (k, l) (dump_lines s) -> l <> [].
Proof.
  intros [_ [_ I3]] k l H. unfold dump_lines in H. apply in_map_iff in H as [k' [E Hk]].
  injection E as <- <-. unfold line_names.
  assert (order_has (s_order s) k' = true) as HK.
  { unfold order_has. apply existsb_exists. exists k'. split; [exact Hk | apply key_eqb_eq; reflexivity]. }
  rewrite I3 in HK. unfold fkey_used in HK. apply existsb_exists in HK as [q [Hq Eq]].
  intro Hnil. apply map_eq_nil in Hnil.
  assert (In q (filter (fun p => fkey_eqb k' (fst p)) (s_pairs s))) as Hin by (apply filter_In; split; assumption).
  rewrite Hnil in Hin. destruct Hin.
Qed.
