(* Base classes come first (C11): in the output of sort_data_models every model has each of its base
   classes - other than itself, and among the models handed in - strictly before it.  For the models
   placed by the sweep this is the resolved test; for the models of the circular phase it follows from
   the fix-point of the stable sort on "index of the last base" (the inheritance bubble loop). *)
From Coq Require Import Lia Permutation Sorting.Sorted.
From DMCG Require Import SortModels SortProofs.
Open Scope N_scope.
Arguments N.eqb : simpl never.

Definition bb (K : list N) (s : list node) : Prop :=
  forall l1 m l2, s = l1 ++ m :: l2 ->
    forall b, In b (n_bases m) -> b <> n_path m -> In b K -> In b (keys l1).

Lemma keys_app a b : keys (a ++ b) = keys a ++ keys b.
Proof. unfold keys. apply map_app. Qed.

Lemma bb_snoc K s m :
  bb K s -> (forall b, In b (n_bases m) -> b <> n_path m -> In b K -> In b (keys s)) -> bb K (s ++ [m]).
Proof.
  intros I Hm l1 x l2 E. symmetry in E. apply split_snoc in E as [[-> [-> ->]]|[l2' [-> ->]]].
  - exact Hm.
  - exact (I l1 x l2' eq_refl).
Qed.

Lemma in_rcs_base m b : In b (n_bases m) -> In b (rcs m).
Proof. intro H. unfold rcs. apply in_or_app. auto. Qed.

Lemma sweep_bb K ms : forall sorted upd unres s' u' un',
  bb K sorted -> sweep ms sorted upd unres = (s', u', un') -> bb K s'.
Proof.
  induction ms as [|m r IH]; intros sorted upd unres s' u' un' I H; cbn [sweep] in H.
  - injection H as <- _ _. exact I.
  - destruct (rcs m) as [|r0 rr] eqn:E.
    + eapply IH; [|exact H]. apply bb_snoc; auto. intros b Hb. apply in_rcs_base in Hb. rewrite E in Hb. contradiction.
    + destruct (only_self m) eqn:OS.
      * eapply IH; [|exact H]. apply bb_snoc; auto. intros b Hb Hn.
        exfalso. apply Hn. eapply only_self_spec; eauto. apply in_rcs_base. exact Hb.
      * destruct (resolved sorted m) eqn:R.
        -- eapply IH; [|exact H]. apply bb_snoc; auto. intros b Hb Hn _.
           unfold resolved in R. eapply forallb_forall in R; [|apply in_rcs_base; exact Hb].
           apply orb_true_iff in R as [R|R]; [apply N.eqb_eq in R; congruence|]. apply memN_In. exact R.
        -- eapply IH; eauto.
Qed.

(* ---- the fix-point of the bubble loop ------------------------------------------------------- *)
Lemma bubble_fix f : forall l l', bubble f l = Some l' -> same_paths (isort (bkey l') l') l' = true.
Proof.
  induction f as [|f IH]; intros l l' H; cbn [bubble] in H; [discriminate|].
  destruct (same_paths (isort (bkey l) l) l) eqn:E.
  - injection H as <-. exact E.
  - eapply IH; eauto.
Qed.

Definition le_by (k : node -> nat) (x y : node) : Prop := (k x <= k y)%nat.

Lemma insert_sorted k x l : StronglySorted (le_by k) l -> StronglySorted (le_by k) (insert_by k x l).
Proof.
  induction 1 as [|y r Hr IH Hy]; cbn [insert_by].
  - constructor; constructor.
  - destruct (Nat.leb (k x) (k y)) eqn:E.
    + apply Nat.leb_le in E. constructor; [constructor; auto|].
      constructor; [exact E|]. rewrite Forall_forall in *. intros z Hz. specialize (Hy z Hz). unfold le_by in *. lia.
    + apply Nat.leb_gt in E. constructor; [exact IH|].
      rewrite Forall_forall in *. intros z Hz.
      apply (Permutation_in _ (insert_perm k x r)) in Hz. destruct Hz as [<-|Hz]; [unfold le_by; lia|auto].
Qed.

Lemma isort_sorted k l : StronglySorted (le_by k) (isort k l).
Proof. induction l as [|x r IH]; cbn [isort]; [constructor|]. apply insert_sorted. exact IH. Qed.

Lemma same_path_eq l x y :
  NoDup (keys l) -> In x l -> In y l -> n_path x = n_path y -> x = y.
Proof.
  induction l as [|z r IH]; cbn [keys map In]; intros ND Hx Hy E; [contradiction|].
  inversion ND as [|? ? Hn ND']; subst.
  destruct Hx as [<-|Hx]; destruct Hy as [<-|Hy]; auto.
  - exfalso. apply Hn. rewrite E. apply in_map. exact Hy.
  - exfalso. apply Hn. rewrite <- E. apply in_map. exact Hx.
Qed.

Lemma same_paths_eq : forall a b, NoDup (keys b) -> Permutation a b -> same_paths a b = true -> a = b.
Proof.
  induction a as [|x a IH]; intros [|y b] ND P H; cbn [same_paths] in H; try discriminate; auto.
  apply andb_true_iff in H as [H1 H2]. apply N.eqb_eq in H1.
  assert (x = y).
  { eapply (same_path_eq (y :: b)); auto.
    - eapply Permutation_in; [exact P|left; reflexivity].
    - left. reflexivity. }
  subst y. f_equal. apply IH; auto.
  - cbn [keys map] in ND. inversion ND; auto.
  - eapply Permutation_cons_inv; eauto.
Qed.

Lemma fix_sorted l : NoDup (keys l) -> same_paths (isort (bkey l) l) l = true -> StronglySorted (le_by (bkey l)) l.
Proof.
  intros ND H. rewrite <- (same_paths_eq _ _ ND (isort_perm _ _) H) at 2. apply isort_sorted.
Qed.

(* ---- positions ------------------------------------------------------------------------------- *)
Lemma idx_nth p : forall l j, index_of p l = Some j -> exists m, nth_error l j = Some m /\ n_path m = p.
Proof.
  induction l as [|x r IH]; intros j H; cbn [index_of] in H; [discriminate|].
  destruct (n_path x =? p) eqn:E.
  - injection H as <-. apply N.eqb_eq in E. exists x. auto.
  - destruct (index_of p r) as [i|] eqn:E2; [|discriminate]. injection H as <-.
    destruct (IH i eq_refl) as [m [H1 H2]]. exists m. auto.
Qed.

Lemma idx_in p : forall l, In p (keys l) -> exists j, index_of p l = Some j.
Proof.
  induction l as [|x r IH]; cbn [keys map In index_of]; [contradiction|].
  intros [H|H].
  - rewrite H, N.eqb_refl. eauto.
  - destruct (n_path x =? p); [eauto|]. destruct (IH H) as [j ->]. eauto.
Qed.

Lemma idx_of_nth : forall l j m, NoDup (keys l) -> nth_error l j = Some m -> index_of (n_path m) l = Some j.
Proof.
  induction l as [|x r IH]; intros [|j] m ND H; cbn [nth_error] in H; try discriminate.
  - injection H as ->. cbn [index_of]. rewrite N.eqb_refl. reflexivity.
  - cbn [keys map] in ND. inversion ND as [|? ? Hn ND']; subst. cbn [index_of].
    destruct (n_path x =? n_path m) eqn:E.
    + apply N.eqb_eq in E. exfalso. apply Hn. rewrite E. apply in_map. eapply nth_error_In; eauto.
    + rewrite (IH j m ND' H). reflexivity.
Qed.

Lemma bkey_ge l m b j : In b (n_bases m) -> index_of b l = Some j -> (S j <= bkey l m)%nat.
Proof.
  unfold bkey. induction (n_bases m) as [|x r IH]; cbn [In fold_right]; [contradiction|].
  intros [->|H] Hj.
  - rewrite Hj. lia.
  - specialize (IH H Hj). destruct (index_of x l); lia.
Qed.

Lemma bkey_witness l m : (0 < bkey l m)%nat -> exists b, In b (n_bases m) /\ index_of b l = Some (bkey l m - 1)%nat.
Proof.
  unfold bkey. induction (n_bases m) as [|x r IH]; cbn [fold_right In]; [lia|].
  destruct (index_of x l) as [i|] eqn:E.
  - intro H. destruct (Nat.le_gt_cases (fold_right (fun b acc => match index_of b l with Some i0 => Nat.max (S i0) acc | None => acc end) 0%nat r) (S i)) as [Hle|Hgt].
    + exists x. split; [auto|]. rewrite E. f_equal. lia.
    + destruct IH as [b [Hb Hi]]; [lia|]. exists b. split; [auto|]. rewrite Hi. f_equal. lia.
  - intro H. destruct (IH H) as [b [Hb Hi]]. eauto.
Qed.

Lemma sorted_nth k : forall l i j x y, StronglySorted (le_by k) l ->
  nth_error l i = Some x -> nth_error l j = Some y -> (i < j)%nat -> (k x <= k y)%nat.
Proof.
  induction l as [|z r IH]; intros i j x y HS Hi Hj Hlt; [destruct i; discriminate|].
  inversion HS as [|? ? Hr Hz]; subst.
  destruct j as [|j]; [lia|]. cbn [nth_error] in Hj.
  destruct i as [|i]; cbn [nth_error] in Hi.
  - injection Hi as ->. rewrite Forall_forall in Hz. apply Hz. eapply nth_error_In; eauto.
  - eapply IH; eauto. lia.
Qed.

(* no model of a list sorted at the fix-point has a base at or behind its own position *)
Lemma no_high l :
  NoDup (keys l) -> (forall m, In m l -> ~ In (n_path m) (n_bases m)) -> StronglySorted (le_by (bkey l)) l ->
  forall d j m, (length l - j <= d)%nat -> nth_error l j = Some m -> (S j <= bkey l m)%nat -> False.
Proof.
  intros ND NS HS. induction d as [|d IH]; intros j m Hd Hj Hk.
  - assert (j < length l)%nat by (apply nth_error_Some; congruence). lia.
  - destruct (bkey_witness l m) as [b [Hb Hi]]; [lia|].
    destruct (idx_nth _ _ _ Hi) as [m' [Hn' Hp']].
    set (j' := (bkey l m - 1)%nat) in *.
    assert (j <= j')%nat by (unfold j'; lia).
    destruct (Nat.eq_dec j' j) as [E|E].
    + rewrite E in Hn'. rewrite Hj in Hn'. injection Hn' as <-.
      apply (NS m); [eapply nth_error_In; eauto|]. rewrite Hp'. exact Hb.
    + assert (j < j')%nat by lia.
      assert (j' < length l)%nat by (apply nth_error_Some; congruence).
      pose proof (sorted_nth _ _ _ _ _ _ HS Hj Hn' H0) as Hle.
      apply (IH j' m'); [lia|exact Hn'|]. unfold j' in *. lia.
Qed.

Lemma nth_app_mid {A} (p : list A) m q : nth_error (p ++ m :: q) (length p) = Some m.
Proof. induction p as [|x r IH]; cbn [app length nth_error]; auto. Qed.

Lemma fix_order l :
  NoDup (keys l) -> (forall m, In m l -> ~ In (n_path m) (n_bases m)) -> StronglySorted (le_by (bkey l)) l ->
  forall p m q, l = p ++ m :: q -> forall b, In b (n_bases m) -> b <> n_path m -> In b (keys l) -> In b (keys p).
Proof.
  intros ND NS HS p m q E b Hb Hn Hk.
  assert (Hm : nth_error l (length p) = Some m) by (rewrite E; apply nth_app_mid).
  destruct (idx_in _ _ Hk) as [j Hj]. destruct (idx_nth _ _ _ Hj) as [mb [Hnb Hpb]].
  destruct (Nat.lt_ge_cases j (length p)) as [Hlt|Hge].
  - rewrite E in Hnb. rewrite nth_error_app1 in Hnb by exact Hlt.
    rewrite <- Hpb. apply in_map. eapply nth_error_In; eauto.
  - exfalso. destruct (Nat.eq_dec j (length p)) as [Ej|Ej].
    + rewrite Ej in Hnb. rewrite Hm in Hnb. injection Hnb as <-. congruence.
    + assert (length p < j)%nat by lia.
      pose proof (bkey_ge l m b j Hb Hj) as Hk1.
      pose proof (sorted_nth _ _ _ _ _ _ HS Hm Hnb H) as Hle. unfold le_by in Hle.
      apply (no_high l ND NS HS (length l) j mb); [lia|exact Hnb|lia].
Qed.

(* ---- through finish and the recursion ------------------------------------------------------- *)
Lemma sweep_unres_sub ms : forall sorted upd unres s' u' un',
  sweep ms sorted upd unres = (s', u', un') -> forall m, In m un' -> In m unres \/ In m ms.
Proof.
  induction ms as [|x r IH]; intros sorted upd unres s' u' un' H m Hm; cbn [sweep] in H.
  - injection H as _ _ <-. auto.
  - destruct (rcs x) as [|r0 rr].
    + destruct (IH _ _ _ _ _ _ H m Hm); cbn [In]; auto.
    + destruct (only_self x).
      * destruct (IH _ _ _ _ _ _ H m Hm); cbn [In]; auto.
      * destruct (resolved sorted x).
        -- destruct (IH _ _ _ _ _ _ H m Hm); cbn [In]; auto.
        -- destruct (IH _ _ _ _ _ _ H m Hm) as [H1|H1]; cbn [In]; auto.
           apply in_app_or in H1 as [H1|[<-|[]]]; auto.
Qed.

Lemma bb_app K s l :
  bb K s ->
  (forall p m q, l = p ++ m :: q -> forall b, In b (n_bases m) -> b <> n_path m -> In b K -> In b (keys (s ++ p))) ->
  bb K (s ++ l).
Proof.
  revert s. induction l as [|x r IH]; intros s I H.
  - rewrite app_nil_r. exact I.
  - change (s ++ x :: r) with (s ++ [x] ++ r). rewrite app_assoc. apply IH.
    + apply bb_snoc; auto. intros b Hb Hn Hk. specialize (H [] x r eq_refl b Hb Hn Hk). rewrite app_nil_r in H. exact H.
    + intros p m q E b Hb Hn Hk. rewrite <- app_assoc. apply (H (x :: p) m q); auto. cbn [app]. f_equal. exact E.
Qed.

Lemma perm_keys a b : Permutation a b -> Permutation (keys a) (keys b).
Proof. unfold keys. apply Permutation_map. Qed.

Lemma nodup_app_r {A} (a b : list A) : NoDup (a ++ b) -> NoDup b.
Proof. induction a as [|x r IH]; cbn [app]; auto. intro H. inversion H; auto. Qed.

Lemma finish_bb K unres sorted upd s' u' :
  bb K sorted -> NoDup (keys (sorted ++ unres)) ->
  (forall m, In m unres -> ~ In (n_path m) (n_bases m)) ->
  (forall b, In b K -> In b (keys (sorted ++ unres))) ->
  finish unres sorted upd = Some (s', u') -> bb K s'.
Proof.
  intros I ND NS HK. unfold finish. destruct (bubble _ unres) as [l|] eqn:B; [|discriminate].
  intro H. apply circular_app in H. subst s'.
  pose proof (bubble_perm _ _ _ B) as P. pose proof (bubble_fix _ _ _ B) as F.
  assert (NDl : NoDup (keys l)).
  { rewrite keys_app in ND. apply nodup_app_r in ND.
    eapply Permutation_NoDup; [apply Permutation_sym; apply perm_keys; exact P|exact ND]. }
  assert (NSl : forall m, In m l -> ~ In (n_path m) (n_bases m)).
  { intros m Hm. apply NS. eapply Permutation_in; eauto. }
  pose proof (fix_sorted l NDl F) as HS.
  apply bb_app; auto. intros p m q E b Hb Hn Hk.
  rewrite keys_app. apply in_or_app.
  specialize (HK b Hk). rewrite keys_app in HK. apply in_app_or in HK as [HK|HK]; [auto|].
  right. eapply (fix_order l NDl NSl HS); eauto.
  eapply Permutation_in; [apply Permutation_sym; apply perm_keys; exact P|exact HK].
Qed.

Lemma sort_rec_bb K budget : forall ms sorted upd s' u',
  bb K sorted -> NoDup (keys (sorted ++ ms)) ->
  (forall m, In m ms -> ~ In (n_path m) (n_bases m)) ->
  (forall b, In b K -> In b (keys (sorted ++ ms))) ->
  sort_rec budget ms sorted upd = Some (s', u') -> bb K s'.
Proof.
  induction budget as [|bud IH]; intros ms sorted upd s' u' I ND NS HK H; cbn [sort_rec] in H;
    destruct (sweep ms sorted upd []) as [[s1 u1] un1] eqn:SW;
    pose proof (sweep_bb K _ _ _ _ _ _ _ I SW) as I1;
    pose proof (sweep_perm _ _ _ _ _ _ _ SW) as P; cbn [app] in P;
    assert (ND1 : NoDup (keys (s1 ++ un1))) by (eapply Permutation_NoDup; [apply Permutation_sym; apply perm_keys; exact P|exact ND]);
    assert (NS1 : forall m, In m un1 -> ~ In (n_path m) (n_bases m))
      by (intros m Hm; destruct (sweep_unres_sub _ _ _ _ _ _ _ SW m Hm) as [[]|Hx]; auto);
    assert (HK1 : forall b, In b K -> In b (keys (s1 ++ un1)))
      by (intros b Hb; eapply Permutation_in; [apply Permutation_sym; apply perm_keys; exact P|auto]).
  - destruct un1 as [|x un1]; [injection H as <- _; exact I1|].
    destruct (Nat.eqb (length s1) (length sorted)); eapply finish_bb; eauto.
  - destruct un1 as [|x un1]; [injection H as <- _; exact I1|].
    destruct (Nat.eqb (length s1) (length sorted)); [eapply finish_bb; eauto|eapply IH; eauto].
Qed.

Theorem sort_bases_first budget ms s u :
  NoDup (keys ms) -> (forall m, In m ms -> ~ In (n_path m) (n_bases m)) ->
  sort_data_models budget ms = Some (s, u) ->
  forall l1 m l2, s = l1 ++ m :: l2 ->
    forall b, In b (n_bases m) -> b <> n_path m -> In b (keys ms) -> In b (keys l1).
Proof.
  intros ND NS H. unfold sort_data_models in H.
  apply (sort_rec_bb (keys ms) budget ms [] [] s u); auto.
  intros l1 m l2 E. destruct l1; discriminate.
Qed.
