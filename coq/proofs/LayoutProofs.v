(* Proofs about the package layout model (model/Layout.v). *)
From Coq Require Import List NArith Bool Arith Lia Sorted.
From DMCG Require Import Relative Layout.
Import ListNotations.
Open Scope N_scope.

Lemma path_eqb_eq : forall a b, path_eqb a b = true <-> a = b.
Proof.
  induction a as [|x a IH]; destruct b as [|y b]; cbn; split; intro H; try congruence; try discriminate.
  - apply andb_true_iff in H. destruct H as [H1 H2]. apply N.eqb_eq in H1. apply IH in H2. congruence.
  - inversion H; subst. apply andb_true_iff. split; [apply N.eqb_refl | apply IH; reflexivity].
Qed.

Lemma path_eqb_len : forall a b, length a <> length b -> path_eqb a b = false.
Proof.
  intros a b H. destruct (path_eqb a b) eqn:E; [|reflexivity]. apply path_eqb_eq in E. subst. congruence.
Qed.

(* the processing order is a permutation sorted by descending length *)
Definition ge_len (a b : path) : Prop := (length b <= length a)%nat.

Lemma before_len : forall a b, lay_before a b = true -> ge_len a b.
Proof.
  unfold lay_before, ge_len. intros a b H. apply orb_true_iff in H. destruct H as [H|H].
  - apply Nat.ltb_lt in H. lia.
  - apply andb_true_iff in H. destruct H as [H _]. apply Nat.eqb_eq in H. lia.
Qed.

Lemma not_before_len : forall a b, lay_before a b = false -> ge_len b a.
Proof.
  unfold lay_before, ge_len. intros a b H. apply orb_false_iff in H. destruct H as [H _].
  apply Nat.ltb_ge in H. exact H.
Qed.

Lemma insert_In : forall x l z, In z (lay_insert x l) <-> z = x \/ In z l.
Proof.
  intros x l z. induction l as [|y r IH]; cbn.
  - intuition congruence.
  - destruct (lay_before x y); cbn.
    + intuition congruence.
    + rewrite IH. intuition congruence.
Qed.

Lemma insert_sorted : forall x l, StronglySorted ge_len l -> StronglySorted ge_len (lay_insert x l).
Proof.
  intros x l H. induction H as [|y r Hs IH Hall]; cbn.
  - constructor; constructor.
  - destruct (lay_before x y) eqn:E.
    + constructor; [constructor; assumption|]. apply before_len in E. constructor; [exact E|].
      eapply Forall_impl; [|exact Hall]. unfold ge_len in *. intros a Ha. lia.
    + constructor; [exact IH|]. apply Forall_forall. intros z Hz. apply insert_In in Hz. destruct Hz as [Hz|Hz].
      * subst. apply not_before_len. exact E.
      * rewrite Forall_forall in Hall. apply Hall. exact Hz.
Qed.

Lemma order_In : forall M z, In z (process_order M) <-> In z M.
Proof.
  induction M as [|x M IH]; intro z; cbn; [tauto|]. rewrite insert_In, IH. intuition congruence.
Qed.

Lemma order_sorted : forall M, StronglySorted ge_len (process_order M).
Proof. induction M as [|x M IH]; cbn; [constructor | apply insert_sorted; exact IH]. Qed.

Lemma sorted_prefix_ge : forall l1 c l2, StronglySorted ge_len (l1 ++ c :: l2) -> Forall (fun x => ge_len x c) l1.
Proof.
  induction l1 as [|y l1 IH]; intros c l2 H; [constructor|]. cbn in H. inversion H as [|? ? Hs Hall]; subst.
  constructor; [|eapply IH; exact Hs]. rewrite Forall_forall in Hall. apply Hall. apply in_or_app. right. left. reflexivity.
Qed.

Lemma sorted_suffix_le : forall l1 c l2, StronglySorted ge_len (l1 ++ c :: l2) -> Forall (fun x => ge_len c x) l2.
Proof.
  induction l1 as [|y l1 IH]; intros c l2 H; cbn in H; inversion H as [|? ? Hs Hall]; subst; [exact Hall | eapply IH; exact Hs].
Qed.

(* the keys visited between two processed keys are strictly longer than the later one *)
Lemma between__len : forall prev k lo x, (k <= length prev)%nat -> In x (between_ prev k lo) -> (lo < length x)%nat.
Proof.
  intros prev k lo. induction k as [|k IH]; intros x Hk Hx; cbn [between_] in Hx; [contradiction|].
  destruct (lo <? S k)%nat eqn:E; [|contradiction]. destruct Hx as [Hx|Hx].
  - subst. rewrite firstn_length. apply Nat.ltb_lt in E. lia.
  - apply IH; [lia | exact Hx].
Qed.

Lemma between_len : forall prev cur x, In x (between prev cur) -> (length cur < length x)%nat.
Proof.
  intros prev cur x H. unfold between in H. destruct (1 <? length prev - length cur)%nat; [|contradiction].
  eapply between__len; [|exact H]. lia.
Qed.

Lemma visit_In : forall l prev x, In x l -> In x (lay_visit prev l).
Proof.
  induction l as [|m l IH]; intros prev x H; [contradiction|]. cbn. apply in_or_app. right. destruct H as [H|H]; [left; exact H | right; apply IH; exact H].
Qed.

Lemma visit_len : forall n l prev, Forall (fun x => (n <= length x)%nat) l -> Forall (fun x => (n <= length x)%nat) (lay_visit prev l).
Proof.
  intros n l. induction l as [|m l IH]; intros prev H; cbn; [constructor|]. inversion H as [|? ? Hm Hl]; subst.
  apply Forall_app. split.
  - apply Forall_forall. intros x Hx. apply between_len in Hx. lia.
  - constructor; [exact Hm | apply IH; exact Hl].
Qed.

Lemma visit_split : forall n l1 prev c l2, Forall (fun x => (n <= length x)%nat) l1 -> (n <= length c)%nat ->
  exists V1, lay_visit prev (l1 ++ c :: l2) = V1 ++ c :: lay_visit c l2 /\ Forall (fun x => (n <= length x)%nat) V1.
Proof.
  intros n l1. induction l1 as [|m l1 IH]; intros prev c l2 H Hc.
  - exists (between prev c). cbn. split; [reflexivity|]. apply Forall_forall. intros x Hx. apply between_len in Hx. lia.
  - inversion H as [|? ? Hm Hl]; subst. destruct (IH m c l2 Hl Hc) as [V1 [E F]].
    exists (between prev m ++ m :: V1). split.
    + cbn. rewrite E. rewrite <- app_assoc. reflexivity.
    + apply Forall_app. split; [|constructor; assumption]. apply Forall_forall. intros x Hx. apply between_len in Hx. lia.
Qed.

(* directories registered after a run of visited keys *)
Definition regs (reg : list path) (vs : list path) : list path :=
  fold_left (fun r m => match m with [] => r | _ => lay_parent m :: r end) vs reg.

Lemma lookup_skip : forall m V1 reg rest, (forall x, In x V1 -> path_eqb x m = false) ->
  lookup_pkg (lay_assign reg (V1 ++ rest)) m = lookup_pkg (lay_assign (regs reg V1) rest) m.
Proof.
  intros m V1. induction V1 as [|x V1 IH]; intros reg rest H; [reflexivity|].
  assert (path_eqb x m = false) as Hx by (apply H; left; reflexivity).
  destruct x as [|a x]; cbn [app lay_assign lookup_pkg regs fold_left].
  - rewrite Hx. apply IH. intros y Hy. apply H. right. exact Hy.
  - rewrite Hx. apply IH. intros y Hy. apply H. right. exact Hy.
Qed.

Lemma registered_mono : forall reg x m, lay_registered reg m = true -> lay_registered (x :: reg) m = true.
Proof. intros reg x m H. unfold lay_registered in *. cbn. rewrite H. apply orb_true_r. Qed.

Lemma registered_head : forall reg m, lay_registered (m :: reg) m = true.
Proof. intros reg m. unfold lay_registered. cbn. assert (path_eqb m m = true) as E by (apply path_eqb_eq; reflexivity). rewrite E. reflexivity. Qed.

Lemma lookup_registered : forall m r reg, m <> [] -> lay_registered reg m = true -> In m r -> lookup_pkg (lay_assign reg r) m = Some true.
Proof.
  intros m r. induction r as [|x r IH]; intros reg Hm Hreg Hin; [contradiction|].
  destruct x as [|a x]; cbn [lay_assign lookup_pkg].
  - destruct m as [|b m]; [congruence|]. cbn [path_eqb]. apply IH; [congruence | exact Hreg|]. destruct Hin as [Hin|Hin]; [discriminate | exact Hin].
  - destruct (path_eqb (a :: x) m) eqn:E.
    + apply path_eqb_eq in E. subst. f_equal. apply registered_mono. exact Hreg.
    + apply IH; [exact Hm | apply registered_mono; exact Hreg |]. destruct Hin as [Hin|Hin]; [|exact Hin].
      rewrite Hin in E. assert (path_eqb m m = true) as X by (apply path_eqb_eq; reflexivity). congruence.
Qed.

Lemma parent_len : forall c, c <> [] -> length c = S (length (lay_parent c)).
Proof.
  intros c H. unfold lay_parent. destruct (exists_last H) as [l [a E]]. subst. rewrite removelast_last, app_length. cbn. lia.
Qed.

(* a module key that has a key exactly one level below it among the module keys is written as a package *)
Theorem child_makes_package : forall M m c, In m M -> In c M -> c <> [] -> lay_parent c = m -> m <> [] ->
  lookup_pkg (layout M) m = Some true.
Proof.
  intros M m c Hm Hc Hcne Hpar Hmne. unfold layout.
  pose proof (parent_len c Hcne) as Hlen. rewrite Hpar in Hlen.
  assert (In c (process_order M)) as Hc' by (apply order_In; exact Hc).
  destruct (in_split _ _ Hc') as [l1 [l2 E]].
  pose proof (order_sorted M) as Hs. rewrite E in Hs.
  pose proof (sorted_prefix_ge _ _ _ Hs) as Hpre. pose proof (sorted_suffix_le _ _ _ Hs) as Hsuf.
  assert (Forall (fun x => (length c <= length x)%nat) l1) as Hl1 by (eapply Forall_impl; [|exact Hpre]; unfold ge_len; intros a Ha; exact Ha).
  destruct (visit_split (length c) l1 [] c l2 Hl1 (le_n _)) as [V1 [EV FV]].
  rewrite E, EV.
  rewrite lookup_skip.
  2:{ intros x Hx. apply path_eqb_len. rewrite Forall_forall in FV. specialize (FV x Hx). lia. }
  destruct c as [|a c']; [congruence|]. cbn [lay_assign lookup_pkg].
  rewrite (path_eqb_len (a :: c') m) by lia.
  rewrite Hpar. apply lookup_registered; [exact Hmne | apply registered_head |].
  apply visit_In.
  assert (In m (process_order M)) as Hm' by (apply order_In; exact Hm).
  rewrite E in Hm'. apply in_app_or in Hm'. destruct Hm' as [Hm'|[Hm'|Hm']].
  - rewrite Forall_forall in Hl1. specialize (Hl1 m Hm'). lia.
  - rewrite <- Hm' in Hlen. lia.
  - exact Hm'.
Qed.

(* ... so a set of module keys in which every key with a descendant also has a child is laid out without a
   module file shadowed by a directory *)
Definition child_closed (M : list path) : Prop :=
  forall m m', In m M -> In m' M -> m <> [] -> strict_prefix m m' = true ->
    exists c, In c M /\ c <> [] /\ lay_parent c = m.

Theorem child_closed_sound : forall M, child_closed M -> layout_sound M = true.
Proof.
  intros M H. unfold layout_sound. apply negb_true_iff. destruct (existsb (shadowed M) M) eqn:E; [|reflexivity].
  apply existsb_exists in E. destruct E as [m [Hm Hsh]]. unfold shadowed in Hsh.
  destruct (lookup_pkg (layout M) m) as [[|]|] eqn:L; try discriminate.
  apply existsb_exists in Hsh. destruct Hsh as [m' [Hm' Hp]].
  destruct m as [|a m0].
  - (* the root key is always a package *)
    exfalso. clear - L Hm. unfold layout in L.
    assert (forall vs reg, In [] vs -> lookup_pkg (lay_assign reg vs) [] = Some true) as X.
    { induction vs as [|x vs IH]; intros reg Hin; [contradiction|]. destruct x as [|b x]; cbn [lay_assign lookup_pkg path_eqb]; [reflexivity|].
      apply IH. destruct Hin as [Hin|Hin]; [discriminate | exact Hin]. }
    rewrite X in L; [discriminate|]. apply visit_In. apply order_In. exact Hm.
  - destruct (H (a :: m0) m' Hm Hm') as [c [Hc [Hcne Hpar]]]; [discriminate | exact Hp |].
    rewrite (child_makes_package M (a :: m0) c Hm Hc Hcne Hpar) in L by discriminate. discriminate.
Qed.

(* the layout is not right for every set of module keys: a, a.b.c and an unrelated x.y *)
Theorem layout_shadow_witness :
  let M := [[1]; [1; 2; 3]; [4; 5]] in
  In [1] M /\ In [1; 2; 3] M /\ strict_prefix [1] [1; 2; 3] = true /\ lookup_pkg (layout M) [1] = Some false.
Proof. vm_compute. repeat split; auto. Qed.

(* ... while with an unrelated key x of depth one in place of x.y the package between is visited and a is a package *)
Example layout_between_example : lookup_pkg (layout [[1]; [1; 2; 3]; [4]]) [1] = Some true.
Proof. vm_compute. reflexivity. Qed.

(* ---------------------------------------------------------------------------------------------
   On child-closed key sets the generator's layout is the idealised rule "package iff some key lies below" *)

Lemma is_prefix_refl : forall a, is_prefix a a = true.
Proof. induction a as [|x a IH]; cbn; [reflexivity|]. rewrite N.eqb_refl. exact IH. Qed.

Lemma is_prefix_trans : forall a b c, is_prefix a b = true -> is_prefix b c = true -> is_prefix a c = true.
Proof.
  induction a as [|x a IH]; intros b c H1 H2; [reflexivity|].
  destruct b as [|y b]; [discriminate|]. destruct c as [|z c]; [discriminate|]. cbn in *.
  apply andb_true_iff in H1. destruct H1 as [E1 P1]. apply andb_true_iff in H2. destruct H2 as [E2 P2].
  apply N.eqb_eq in E1. apply N.eqb_eq in E2. subst. rewrite N.eqb_refl. cbn. eapply IH; eassumption.
Qed.

Lemma is_prefix_len : forall a b, is_prefix a b = true -> (length a <= length b)%nat.
Proof.
  induction a as [|x a IH]; intros b H; cbn; [lia|]. destruct b as [|y b]; [discriminate|]. cbn in *.
  apply andb_true_iff in H. destruct H as [_ H]. apply IH in H. lia.
Qed.

Lemma is_prefix_firstn : forall k p, is_prefix (firstn k p) p = true.
Proof.
  induction k as [|k IH]; intro p; [reflexivity|]. destruct p as [|x p]; [reflexivity|]. cbn. rewrite N.eqb_refl. apply IH.
Qed.

Lemma is_prefix_removelast : forall x, is_prefix (removelast x) x = true.
Proof.
  induction x as [|a x IH]; [reflexivity|]. destruct x as [|b x]; [reflexivity|].
  change (removelast (a :: b :: x)) with (a :: removelast (b :: x)). cbn [is_prefix]. rewrite N.eqb_refl. exact IH.
Qed.

Lemma between__prefix : forall prev k lo x, In x (between_ prev k lo) -> is_prefix x prev = true.
Proof.
  intros prev k lo. induction k as [|k IH]; intros x H; cbn [between_] in H; [contradiction|].
  destruct (lo <? S k)%nat; [|contradiction]. destruct H as [H|H]; [subst; apply is_prefix_firstn | apply IH; exact H].
Qed.

Lemma between_prefix : forall prev cur x, In x (between prev cur) -> is_prefix x prev = true /\ prev <> [].
Proof.
  intros prev cur x H. unfold between in H. destruct (1 <? length prev - length cur)%nat eqn:E; [|contradiction].
  split; [eapply between__prefix; exact H|]. intro Hp. subst. cbn in E. discriminate.
Qed.

Lemma visited_prefix : forall (M : list path) l prev x, (prev = [] \/ In prev M) -> (forall y, In y l -> In y M) ->
  In x (lay_visit prev l) -> exists p, In p M /\ is_prefix x p = true.
Proof.
  intros M l. induction l as [|m l IH]; intros prev x Hprev Hl H; [contradiction|]. cbn in H.
  apply in_app_or in H. destruct H as [H|[H|H]].
  - apply between_prefix in H. destruct H as [H Hne]. destruct Hprev as [Hprev|Hprev]; [congruence|]. exists prev. split; assumption.
  - subst. exists x. split; [apply Hl; left; reflexivity | apply is_prefix_refl].
  - apply (IH m x); [right; apply Hl; left; reflexivity | intros y Hy; apply Hl; right; exact Hy | exact H].
Qed.

Lemma registered_cons : forall reg p m, lay_registered (p :: reg) m = path_eqb m p || lay_registered reg m.
Proof. reflexivity. Qed.

Lemma lookup_unregistered : forall m vs reg, m <> [] -> (forall x, In x vs -> x <> [] -> lay_parent x <> m) ->
  lay_registered reg m = false -> In m vs -> lookup_pkg (lay_assign reg vs) m = Some false.
Proof.
  intros m vs. induction vs as [|x vs IH]; intros reg Hm Hpar Hreg Hin; [contradiction|].
  destruct x as [|a x]; cbn [lay_assign lookup_pkg].
  - destruct m as [|b m]; [congruence|]. cbn [path_eqb]. apply IH; [congruence | intros y Hy; apply Hpar; right; exact Hy | exact Hreg |].
    destruct Hin as [Hin|Hin]; [discriminate | exact Hin].
  - assert (lay_registered (lay_parent (a :: x) :: reg) m = false) as Hreg'.
    { rewrite registered_cons, Hreg, orb_false_r. destruct (path_eqb m (lay_parent (a :: x))) eqn:E; [|reflexivity].
      apply path_eqb_eq in E. exfalso. apply (Hpar (a :: x)); [left; reflexivity | discriminate | congruence]. }
    destruct (path_eqb (a :: x) m) eqn:E.
    + apply path_eqb_eq in E. rewrite E. rewrite E in Hreg'. rewrite Hreg'. reflexivity.
    + apply IH; [exact Hm | intros y Hy; apply Hpar; right; exact Hy | exact Hreg' |].
      destruct Hin as [Hin|Hin]; [|exact Hin]. rewrite Hin in E. assert (path_eqb m m = true) as X by (apply path_eqb_eq; reflexivity). congruence.
Qed.

(* a key with no key strictly below it is written as a plain module file, for every key set *)
Theorem leaf_is_module : forall M m, In m M -> m <> [] -> existsb (strict_prefix m) M = false ->
  lookup_pkg (layout M) m = Some false.
Proof.
  intros M m Hm Hne Hleaf. unfold layout. apply lookup_unregistered; [exact Hne | | reflexivity | apply visit_In; apply order_In; exact Hm].
  intros x Hx Hxne Hpar.
  destruct (visited_prefix M (process_order M) [] x (or_introl eq_refl)) as [p [Hp Hpre]]; [intros y Hy; apply order_In; exact Hy | exact Hx |].
  assert (strict_prefix m p = true) as S.
  { unfold strict_prefix. apply andb_true_iff. split.
    - eapply is_prefix_trans; [|exact Hpre]. rewrite <- Hpar. apply is_prefix_removelast.
    - apply negb_true_iff. apply path_eqb_len. pose proof (parent_len x Hxne) as L. rewrite Hpar in L. apply is_prefix_len in Hpre. lia. }
  assert (existsb (strict_prefix m) M = true) as X by (apply existsb_exists; exists p; split; assumption). congruence.
Qed.

(* on child-closed key sets the layout is exactly the idealised rule of Relative.is_init *)
Theorem layout_is_init : forall M m, child_closed M -> In m M -> m <> [] -> lookup_pkg (layout M) m = Some (is_init M m).
Proof.
  intros M m HC Hm Hne. unfold is_init. destruct m as [|a m0]; [congruence|].
  destruct (existsb (strict_prefix (a :: m0)) M) eqn:E.
  - apply existsb_exists in E. destruct E as [m' [Hm' Hp]].
    destruct (HC (a :: m0) m' Hm Hm' Hne Hp) as [c [Hc [Hcne Hpar]]].
    eapply child_makes_package; eassumption.
  - apply leaf_is_module; assumption.
Qed.
