(* Proofs about the package layout model (model/Layout.v). *)
From Coq Require Import List NArith Bool Arith Lia Sorted.
From DMCG Require Import Relative Layout.
Import ListNotations.
Open Scope N_scope.

Lemma path_eqb_eq : forall a b, path_eqb a b = true <-> a = b.
Proof.
  induction a as [|x a IH]; destruct b as [|y b]; cbn; split; intro H; try congruence; try discriminate.
  - apply andb_true_iff in H. destruct H as [H1 H2]. apply N.eqb_eq in H1. apply IH in H2. congruence.
  - inversion H; subst. apply andb_true_iff. split; [apply N.eqb_refl | apply IH; reflexivity].
Qed.

Lemma path_eqb_len : forall a b, length a <> length b -> path_eqb a b = false.
Proof.
  intros a b H. destruct (path_eqb a b) eqn:E; [|reflexivity]. apply path_eqb_eq in E. subst. congruence.
Qed.

(* the processing order is a permutation sorted by descending length *)
Definition ge_len (a b : path) : Prop := (length b <= length a)%nat.

Lemma before_len : forall a b, lay_before a b = true -> ge_len a b.
Proof.
  unfold lay_before, ge_len. intros a b H. apply orb_true_iff in H. destruct H as [H|H].
  - apply Nat.ltb_lt in H. lia.
  - apply andb_true_iff in H. destruct H as [H _]. apply Nat.eqb_eq in H. lia.
Qed.

Lemma not_before_len : forall a b, lay_before a b = false -> ge_len b a.
Proof.
  unfold lay_before, ge_len. intros a b H. apply orb_false_iff in H. destruct H as [H _].
  apply Nat.ltb_ge in H. exact H.
Qed.

Lemma insert_In : forall x l z, In z (lay_insert x l) <-> z = x \/ In z l.
Proof.
  intros x l z. induction l as [|y r IH]; cbn.
  - intuition congruence.
  - destruct (lay_before x y); cbn.
    + intuition congruence.
    + rewrite IH. intuition congruence.
Qed.

Lemma insert_sorted : forall x l, StronglySorted ge_len l -> StronglySorted ge_len (lay_insert x l).
Proof.
  intros x l H. induction H as [|y r Hs IH Hall]; cbn.
  - constructor; constructor.
  - destruct (lay_before x y) eqn:E.
    + constructor; [constructor; assumption|]. apply before_len in E. constructor; [exact E|].
      eapply Forall_impl; [|exact Hall]. unfold ge_len in *. intros a Ha. lia.
    + constructor; [exact IH|]. apply Forall_forall. intros z Hz. apply insert_In in Hz. destruct Hz as [Hz|Hz].
      * subst. apply not_before_len. exact E.
      * rewrite Forall_forall in Hall. apply Hall. exact Hz.
Qed.

Lemma order_In : forall M z, In z (process_order M) <-> In z M.
Proof.
  induction M as [|x M IH]; intro z; cbn; [tauto|]. rewrite insert_In, IH. intuition congruence.
Qed.

Lemma order_sorted : forall M, StronglySorted ge_len (process_order M).
Proof. induction M as [|x M IH]; cbn; [constructor | apply insert_sorted; exact IH]. Qed.

Lemma sorted_prefix_ge : forall l1 c l2, StronglySorted ge_len (l1 ++ c :: l2) -> Forall (fun x => ge_len x c) l1.
Proof.
  induction l1 as [|y l1 IH]; intros c l2 H; [constructor|]. cbn in H. inversion H as [|? ? Hs Hall]; subst.
  constructor; [|eapply IH; exact Hs]. rewrite Forall_forall in Hall. apply Hall. apply in_or_app. right. left. reflexivity.
Qed.

Lemma sorted_suffix_le : forall l1 c l2, StronglySorted ge_len (l1 ++ c :: l2) -> Forall (fun x => ge_len c x) l2.
Proof.
  induction l1 as [|y l1 IH]; intros c l2 H; cbn in H; inversion H as [|? ? Hs Hall]; subst; [exact Hall | eapply IH; exact Hs].
Qed.

(* the keys visited between two processed keys are strictly longer than the later one *)
Lemma between__len : forall prev k lo x, (k <= length prev)%nat -> In x (between_ prev k lo) -> (lo < length x)%nat.
Proof.
  intros prev k lo. induction k as [|k IH]; intros x Hk Hx; cbn [between_] in Hx; [contradiction|].
  destruct (lo <? S k)%nat eqn:E; [|contradiction]. destruct Hx as [Hx|Hx].
  - subst. rewrite firstn_length. apply Nat.ltb_lt in E. lia.
  - apply IH; [lia | exact Hx].
Qed.

Lemma between_len : forall prev cur x, In x (between prev cur) -> (length cur < length x)%nat.
Proof.
  intros prev cur x H. unfold between in H. destruct (1 <? length prev - length cur)%nat; [|contradiction].
  eapply between__len; [|exact H]. lia.
Qed.

Lemma visit_In : forall l prev x, In x l -> In x (lay_visit prev l).
Proof.
  induction l as [|m l IH]; intros prev x H; [contradiction|]. cbn. apply in_or_app. right. destruct H as [H|H]; [left; exact H | right; apply IH; exact H].
Qed.

Lemma visit_len : forall n l prev, Forall (fun x => (n <= length x)%nat) l -> Forall (fun x => (n <= length x)%nat) (lay_visit prev l).
Proof.
  intros n l. induction l as [|m l IH]; intros prev H; cbn; [constructor|]. inversion H as [|? ? Hm Hl]; subst.
  apply Forall_app. split.
  - apply Forall_forall. intros x Hx. apply between_len in Hx. lia.
  - constructor; [exact Hm | apply IH; exact Hl].
Qed.

Lemma visit_split : forall n l1 prev c l2, Forall (fun x => (n <= length x)%nat) l1 -> (n <= length c)%nat ->
  exists V1, lay_visit prev (l1 ++ c :: l2) = V1 ++ c :: lay_visit c l2 /\ Forall (fun x => (n <= length x)%nat) V1.
Proof.
  intros n l1. induction l1 as [|m l1 IH]; intros prev c l2 H Hc.
  - exists (between prev c). cbn. split; [reflexivity|]. apply Forall_forall. intros x Hx. apply between_len in Hx. lia.
  - inversion H as [|? ? Hm Hl]; subst. destruct (IH m c l2 Hl Hc) as [V1 [E F]].
    exists (between prev m ++ m :: V1). split.
    + cbn. rewrite E. rewrite <- app_assoc. reflexivity.
    + apply Forall_app. split; [|constructor; assumption]. apply Forall_forall. intros x Hx. apply between_len in Hx. lia.
Qed.

(* directories registered after a run of visited keys *)
Definition regs (reg : list path) (vs : list path) : list path :=
  fold_left (fun r m => match m with [] => r | _ => lay_parent m :: r end) vs reg.

Lemma lookup_skip : forall m V1 reg rest, (forall x, In x V1 -> path_eqb x m = false) ->
  lookup_pkg (lay_assign reg (V1 ++ rest)) m = lookup_pkg (lay_assign (regs reg V1) rest) m.
Proof.
  intros m V1. induction V1 as [|x V1 IH]; intros reg rest H; [reflexivity|].
  assert (path_eqb x m = false) as Hx by (apply H; left; reflexivity).
  destruct x as [|a x]; cbn [app lay_assign lookup_pkg regs fold_left].
  - rewrite Hx. apply IH. intros y Hy. apply H. right. exact Hy.
  - rewrite Hx. apply IH. intros y Hy. apply H. right. exact Hy.
Qed.

Lemma registered_mono : forall reg x m, lay_registered reg m = true -> lay_registered (x :: reg) m = true.
Proof. intros reg x m H. unfold lay_registered in *. cbn. rewrite H. apply orb_true_r. Qed.

Lemma registered_head : forall reg m, lay_registered (m :: reg) m = true.
Proof. intros reg m. unfold lay_registered. cbn. assert (path_eqb m m = true) as E by (apply path_eqb_eq; reflexivity). rewrite E. reflexivity. Qed.

Lemma lookup_registered : forall m r reg, m <> [] -> lay_registered reg m = true -> In m r -> lookup_pkg (lay_assign reg r) m = Some true.
Proof.
  intros m r. induction r as [|x r IH]; intros reg Hm Hreg Hin; [contradiction|].
  destruct x as [|a x]; cbn [lay_assign lookup_pkg].
  - destruct m as [|b m]; [congruence|]. cbn [path_eqb]. apply IH; [congruence | exact Hreg|]. destruct Hin as [Hin|Hin]; [discriminate | exact Hin].
  - destruct (path_eqb (a :: x) m) eqn:E.
    + apply path_eqb_eq in E. subst. f_equal. apply registered_mono. exact Hreg.
    + apply IH; [exact Hm | apply registered_mono; exact Hreg |]. destruct Hin as [Hin|Hin]; [|exact Hin].
      rewrite Hin in E. assert (path_eqb m m = true) as X by (apply path_eqb_eq; reflexivity). congruence.
Qed.

Lemma parent_len : forall c, c <> [] -> length c = S (length (lay_parent c)).
Proof.
  intros c H. unfold lay_parent. destruct (exists_last H) as [l [a E]]. subst. rewrite removelast_last, app_length. cbn. lia.
Qed.

(* a module key that has a key exactly one level below it among the module keys is written as a package *)
Theorem child_makes_package : forall M m c, In m M -> In c M -> c <> [] -> lay_parent c = m -> m <> [] ->
  lookup_pkg (layout M) m = Some true.
Proof.
  intros M m c Hm Hc Hcne Hpar Hmne. unfold layout.
  pose proof (parent_len c Hcne) as Hlen. rewrite Hpar in Hlen.
  assert (In c (process_order M)) as Hc' by (apply order_In; exact Hc).
  destruct (in_split _ _ Hc') as [l1 [l2 E]].
  pose proof (order_sorted M) as Hs. rewrite E in Hs.
  pose proof (sorted_prefix_ge _ _ _ Hs) as Hpre. pose proof (sorted_suffix_le _ _ _ Hs) as Hsuf.
  assert (Forall (fun x => (length c <= length x)%nat) l1) as Hl1 by (eapply Forall_impl; [|exact Hpre]; unfold ge_len; intros a Ha; exact Ha).
  destruct (visit_split (length c) l1 [] c l2 Hl1 (le_n _)) as [V1 [EV FV]].
  rewrite E, EV.
  rewrite lookup_skip.
  2:{ intros x Hx. apply path_eqb_len. rewrite Forall_forall in FV. specialize (FV x Hx). lia. }
  destruct c as [|a c']; [congruence|]. cbn [lay_assign lookup_pkg].
  rewrite (path_eqb_len (a :: c') m) by lia.
  rewrite Hpar. apply lookup_registered; [exact Hmne | apply registered_head |].
  apply visit_In.
  assert (In m (process_order M)) as Hm' by (apply order_In; exact Hm).
  rewrite E in Hm'. apply in_app_or in Hm'. destruct Hm' as [Hm'|[Hm'|Hm']].
  - rewrite Forall_forall in Hl1. specialize (Hl1 m Hm'). lia.
  - rewrite <- Hm' in Hlen. lia.
  - exact Hm'.
Qed.

(* ... so a set of module keys in which every key with a descendant also has a child is laid out without a
   module file shadowed by a directory *)
Definition child_closed (M : list path) : Prop :=
  forall m m', In m M -> In m' M -> m <> [] -> strict_prefix m m' = true ->
    exists c, In c M /\ c <> [] /\ lay_parent c = m.

Theorem child_closed_sound : forall M, child_closed M -> layout_sound M = true.
Proof.
  intros M H. unfold layout_sound. apply negb_true_iff. destruct (existsb (shadowed M) M) eqn:E; [|reflexivity].
  apply existsb_exists in E. destruct E as [m [Hm Hsh]]. unfold shadowed in Hsh.
  destruct (lookup_pkg (layout M) m) as [[|]|] eqn:L; try discriminate.
  apply existsb_exists in Hsh. destruct Hsh as [m' [Hm' Hp]].
  destruct m as [|a m0].
  - (* the root key is always a package *)
    exfalso. clear - L Hm. unfold layout in L.
    assert (forall vs reg, In [] vs -> lookup_pkg (lay_assign reg vs) [] = Some true) as X.
    { induction vs as [|x vs IH]; intros reg Hin; [contradiction|]. destruct x as [|b x]; cbn [lay_assign lookup_pkg path_eqb]; [reflexivity|].
      apply IH. destruct Hin as [Hin|Hin]; [discriminate | exact Hin]. }
    rewrite X in L; [discriminate|]. apply visit_In. apply order_In. exact Hm.
  - destruct (H (a :: m0) m' Hm Hm') as [c [Hc [Hcne Hpar]]]; [discriminate | exact Hp |].
    rewrite (child_makes_package M (a :: m0) c Hm Hc Hcne Hpar) in L by discriminate. discriminate.
Qed.

(* the layout is not right for every set of module keys: a, a.b.c and an unrelated x.y *)
Theorem layout_shadow_witness :
  let M := [[1]; [1; 2; 3]; [4; 5]] in
  In [1] M /\ In [1; 2; 3] M /\ strict_prefix [1] [1; 2; 3] = true /\ lookup_pkg (layout M) [1] = Some false.
Proof. vm_compute. repeat split; auto. Qed.

(* ... while with an unrelated key x of depth one in place of x.y the package between is visited and a is a package *)
Example layout_between_example : lookup_pkg (layout [[1]; [1; 2; 3]; [4]]) [1] = Some true.
Proof. vm_compute. reflexivity. Qed.
