(* Proofs about M4 (SortModels.v). *)
From Coq Require Import Lia Permutation.
From DMCG Require Import SortModels.
Open Scope N_scope.
Arguments N.eqb : simpl never.

(* ---------- nothing is lost or duplicated ---------- *)

Lemma sweep_perm ms : forall sorted upd unres s' u' un',
  sweep ms sorted upd unres = (s', u', un') ->
  Permutation (s' ++ un') (sorted ++ unres ++ ms).
Proof.
  induction ms as [|m r IH]; intros sorted upd unres s' u' un' H; cbn [sweep] in H.
  - injection H as <- <- <-. rewrite app_nil_r. apply Permutation_refl.
  - assert (Permutation ((sorted ++ [m]) ++ unres ++ r) (sorted ++ unres ++ m :: r)) as P1.
    { rewrite <- app_assoc. apply Permutation_app_head. cbn [app]. apply Permutation_middle. }
    assert (Permutation (sorted ++ (unres ++ [m]) ++ r) (sorted ++ unres ++ m :: r)) as P2.
    { apply Permutation_app_head. rewrite <- app_assoc. apply Permutation_refl. }
    destruct (rcs m) eqn:E.
    + eapply Permutation_trans; [eapply IH; eauto | exact P1].
    + destruct (only_self m).
      * eapply Permutation_trans; [eapply IH; eauto | exact P1].
      * destruct (resolved sorted m).
        -- eapply Permutation_trans; [eapply IH; eauto | exact P1].
        -- eapply Permutation_trans; [eapply IH; eauto | exact P2].
Qed.

Lemma insert_perm k x l : Permutation (insert_by k x l) (x :: l).
Proof.
  induction l as [|y r IH]; cbn [insert_by]; [apply Permutation_refl|].
  destruct (Nat.leb (k x) (k y)); [apply Permutation_refl|].
  eapply Permutation_trans; [apply perm_skip; exact IH | apply perm_swap].
Qed.

Lemma isort_perm k l : Permutation (isort k l) l.
Proof.
  induction l as [|x r IH]; cbn [isort]; [apply Permutation_refl|].
  eapply Permutation_trans; [apply insert_perm | apply perm_skip; exact IH].
Qed.

Lemma bubble_perm f : forall l l', bubble f l = Some l' -> Permutation l' l.
Proof.
  induction f as [|f IH]; intros l l' H; cbn [bubble] in H; [discriminate|].
  destruct (same_paths (isort (bkey l) l) l).
  - injection H as <-. apply Permutation_refl.
  - eapply Permutation_trans; [eapply IH; eauto | apply isort_perm].
Qed.

Lemma circular_app names l : forall sorted upd s' u',
  circular names l sorted upd = Some (s', u') -> s' = sorted ++ l.
Proof.
  induction l as [|m r IH]; intros sorted upd s' u' H; cbn [circular] in H.
  - injection H as <- <-. rewrite app_nil_r. reflexivity.
  - destruct (filter _ (rcs m)) as [|u0 ur] eqn:F.
    + apply IH in H. rewrite H, <- app_assoc. reflexivity.
    + destruct (forallb _ (u0 :: ur)); [|discriminate].
      apply IH in H. rewrite H, <- app_assoc. reflexivity.
Qed.

Lemma finish_perm unres sorted upd s' u' :
  finish unres sorted upd = Some (s', u') -> Permutation s' (sorted ++ unres).
Proof.
  unfold finish. destruct (bubble _ unres) as [l|] eqn:B; [|discriminate].
  intro H. apply circular_app in H. subst s'.
  apply Permutation_app_head. eapply bubble_perm; eauto.
Qed.

Lemma sort_rec_perm budget : forall ms sorted upd s' u',
  sort_rec budget ms sorted upd = Some (s', u') -> Permutation s' (sorted ++ ms).
Proof.
  induction budget as [|b IH]; intros ms sorted upd s' u' H; cbn [sort_rec] in H;
    destruct (sweep ms sorted upd []) as [[s1 u1] un1] eqn:SW;
    pose proof (sweep_perm _ _ _ _ _ _ _ SW) as P; cbn [app] in P.
  - destruct un1 as [|x un1].
    + injection H as <- <-. rewrite app_nil_r in P. exact P.
    + assert (Permutation s' (s1 ++ x :: un1)) as Q.
      { destruct (Nat.eqb (length s1) (length sorted)); eapply finish_perm; eauto. }
      eapply Permutation_trans; eauto.
  - destruct un1 as [|x un1].
    + injection H as <- <-. rewrite app_nil_r in P. exact P.
    + assert (Permutation s' (s1 ++ x :: un1)) as Q.
      { destruct (Nat.eqb (length s1) (length sorted)); [eapply finish_perm; eauto | eapply IH; eauto]. }
      eapply Permutation_trans; eauto.
Qed.

Theorem sort_permutation budget ms s u :
  sort_data_models budget ms = Some (s, u) -> Permutation s ms.
Proof. unfold sort_data_models. intro H. apply sort_rec_perm in H. exact H. Qed.

(* ---------- forward references get an update action ---------- *)

(* every model in the output either has all of its referenced classes (bases and member types)
   emitted strictly before it, or is on the update list *)
Definition upd_inv (sorted : list node) (upd : list N) : Prop :=
  forall l1 m l2, sorted = l1 ++ m :: l2 ->
    (forall r, In r (rcs m) -> memN r (keys l1) = true) \/ In (n_path m) upd.

Lemma split_snoc {A} (l1 : list A) x l2 s m :
  l1 ++ x :: l2 = s ++ [m] ->
  (l2 = [] /\ l1 = s /\ x = m) \/ (exists l2', l2 = l2' ++ [m] /\ s = l1 ++ x :: l2').
Proof.
  intro H. destruct l2 as [|z l2].
  - left. change (l1 ++ [x] = s ++ [m]) in H. apply app_inj_tail in H as [H1 H2]. auto.
  - right. destruct (@exists_last _ (z :: l2)) as [l2' [y E]]; [discriminate|].
      rewrite E in H. change (l1 ++ x :: l2' ++ [y]) with (l1 ++ (x :: l2') ++ [y]) in H.
      rewrite app_assoc in H. apply app_inj_tail in H as [H1 H2]. subst y.
      exists l2'. split; [exact E | symmetry; exact H1].
Qed.

Lemma memN_In x l : memN x l = true <-> In x l.
Proof.
  induction l as [|y r IH]; cbn [memN In]; [split; [discriminate|tauto]|].
  rewrite orb_true_iff, IH, N.eqb_eq. split; intros [H|H]; auto.
Qed.

Lemma memN_keys_app r a b : memN r (keys a) = true -> memN r (keys (a ++ b)) = true.
Proof. rewrite !memN_In. unfold keys. rewrite map_app, in_app_iff. auto. Qed.

Lemma upd_inv_snoc sorted upd upd' m :
  upd_inv sorted upd -> (forall x, In x upd -> In x upd') ->
  ((forall r, In r (rcs m) -> memN r (keys sorted) = true) \/ In (n_path m) upd') ->
  upd_inv (sorted ++ [m]) upd'.
Proof.
  intros I Hsub Hm l1 x l2 E. symmetry in E. apply split_snoc in E as [[-> [-> ->]]|[l2' [-> ->]]].
  - exact Hm.
  - destruct (I l1 x l2' eq_refl) as [H|H]; [left; exact H | right; auto].
Qed.

Lemma upd_inv_mono sorted upd upd' :
  upd_inv sorted upd -> (forall x, In x upd -> In x upd') -> upd_inv sorted upd'.
Proof. intros I Hsub l1 m l2 E. destruct (I l1 m l2 E); auto. Qed.

Lemma in_snoc {A} (x y : A) l : In x l -> In x (l ++ [y]).
Proof. intro. apply in_or_app. auto. Qed.

Lemma only_self_spec m r : only_self m = true -> In r (rcs m) -> r = n_path m.
Proof.
  unfold only_self. rewrite forallb_forall. intros H Hr. specialize (H r Hr).
  apply N.eqb_eq in H. congruence.
Qed.

Lemma sweep_inv ms : forall sorted upd unres s' u' un',
  sweep ms sorted upd unres = (s', u', un') ->
  upd_inv sorted upd -> upd_inv s' u' /\ (forall x, In x upd -> In x u').
Proof.
  induction ms as [|m r IH]; intros sorted upd unres s' u' un' H I; cbn [sweep] in H.
  - injection H as <- <- <-. auto.
  - destruct (rcs m) eqn:E.
    + eapply IH in H; [exact H|]. apply upd_inv_snoc with (upd := upd); auto.
      left. rewrite E. intros ? [].
    + rewrite <- E in *. destruct (only_self m) eqn:OS.
      * eapply IH in H.
        -- destruct H as [H1 H2]. split; [exact H1|]. intros x Hx. apply H2. apply in_snoc. exact Hx.
        -- apply upd_inv_snoc with (upd := upd); auto using in_snoc.
           right. apply in_or_app. right. left. reflexivity.
      * destruct (resolved sorted m) eqn:RS.
        -- destruct (memN (n_path m) (rcs m)) eqn:SELF.
           ++ eapply IH in H.
              ** destruct H as [H1 H2]. split; [exact H1|]. intros x Hx. apply H2. apply in_snoc. exact Hx.
              ** apply upd_inv_snoc with (upd := upd); auto using in_snoc.
                 right. apply in_or_app. right. left. reflexivity.
           ++ eapply IH in H; [exact H|]. apply upd_inv_snoc with (upd := upd); auto.
              left. intros x Hx. unfold resolved in RS. rewrite forallb_forall in RS.
              specialize (RS x Hx). apply orb_true_iff in RS as [RS|RS]; [|exact RS].
              apply N.eqb_eq in RS. subst x. apply memN_In in Hx. congruence.
        -- eapply IH in H; eauto.
Qed.

Lemma circular_inv names l : forall sorted upd s' u',
  circular names l sorted upd = Some (s', u') ->
  upd_inv sorted upd -> upd_inv s' u'.
Proof.
  induction l as [|m r IH]; intros sorted upd s' u' H I; cbn [circular] in H.
  - injection H as <- <-. exact I.
  - destruct (filter _ (rcs m)) as [|u0 ur] eqn:F.
    + eapply IH; [exact H|].
      destruct (inter_nonempty upd (n_bases m) || memN (n_path m) (rcs m)) eqn:C.
      * apply upd_inv_snoc with (upd := upd); auto using in_snoc.
        right. apply in_or_app. right. left. reflexivity.
      * apply upd_inv_snoc with (upd := upd); auto.
        left. intros x Hx. apply orb_false_iff in C as [_ C].
        destruct (memN x (keys sorted)) eqn:M; [reflexivity|exfalso].
        assert (In x (filter (fun x => negb (x =? n_path m) && negb (memN x (keys sorted))) (rcs m))) as K.
        { apply filter_In. split; [exact Hx|]. rewrite M. cbn [negb]. rewrite andb_true_r.
          apply negb_true_iff. destruct (x =? n_path m) eqn:Q; [|reflexivity].
          apply N.eqb_eq in Q. subst x. apply memN_In in Hx. congruence. }
        rewrite F in K. destruct K.
    + destruct (forallb _ (u0 :: ur)); [|discriminate].
      eapply IH; [exact H|]. apply upd_inv_snoc with (upd := upd); auto using in_snoc.
      right. apply in_or_app. right. left. reflexivity.
Qed.

Lemma finish_inv unres sorted upd s' u' :
  finish unres sorted upd = Some (s', u') -> upd_inv sorted upd -> upd_inv s' u'.
Proof.
  unfold finish. destruct (bubble _ unres); [|discriminate]. apply circular_inv.
Qed.

Lemma sort_rec_inv budget : forall ms sorted upd s' u',
  sort_rec budget ms sorted upd = Some (s', u') -> upd_inv sorted upd -> upd_inv s' u'.
Proof.
  induction budget as [|b IH]; intros ms sorted upd s' u' H I; cbn [sort_rec] in H;
    destruct (sweep ms sorted upd []) as [[s1 u1] un1] eqn:SW;
    destruct (sweep_inv _ _ _ _ _ _ _ SW I) as [I1 _].
  - destruct un1; [injection H as <- <-; exact I1|].
    destruct (Nat.eqb (length s1) (length sorted)); eapply finish_inv; eauto.
  - destruct un1; [injection H as <- <-; exact I1|].
    destruct (Nat.eqb (length s1) (length sorted)); [eapply finish_inv; eauto | eapply IH; eauto].
Qed.

Theorem sort_forward_refs_updated budget ms s u :
  sort_data_models budget ms = Some (s, u) -> upd_inv s u.
Proof.
  unfold sort_data_models. intro H. eapply sort_rec_inv; [exact H|].
  intros l1 m l2 E. destruct l1; discriminate.
Qed.
