(* The container spelling (typing names / standard collections / generic container types) never changes
   what an annotation means - for EVERY IR tree whose own names are not container names.
   th o t is, up to a renaming rho of the three container heads, th o0 t where o0 spells containers the
   default way (same union style): every comparison the rendering makes (duplicate alternatives, "did
   removing None change the hint", Any) gives the same answer because rho is injective on the hints that
   can occur. *)
From DMCG Require Import TypeDen HintImports TypeHintProofs HintImportsProofs IdentProofs.
From Coq Require Import List Bool.
Import ListNotations.
Open Scope N_scope.

Definition s_List := of_string "List".
Definition s_Set := of_string "Set".
Definition s_Dict := of_string "Dict".

Definition base_name (s : str) : bool := str_eqb s s_List || str_eqb s s_Set || str_eqb s s_Dict.

Definition ren (o : spell) (s : str) : str :=
  if str_eqb s s_List then list_name o else if str_eqb s s_Set then set_name o else if str_eqb s s_Dict then dict_name o else s.

Fixpoint rho (o : spell) (h : hint) : hint :=
  match h with
  | HAtom s => HAtom (ren o s)
  | HLit l => HLit l
  | HSub hd args => HSub (ren o hd) (map (rho o) args)
  | HUnion l => HUnion (map (rho o) l)
  | HOpt x => HOpt (rho o x)
  | HNone => HNone
  | HEmpty => HEmpty
  end.

(* names that can occur in a hint rendered with the default container spelling from a clean tree *)
Definition wfs (s : str) : bool := base_name s || negb (container_name s).

Fixpoint wf (h : hint) : bool :=
  match h with
  | HAtom s => wfs s
  | HSub hd args => wfs hd && forallb wf args
  | HUnion l => forallb wf l
  | HOpt x => wf x
  | _ => true
  end.

Definition dflt (o : spell) : spell := {| uo := uo o; sc := false; gc := false |}.

(* ---- names ---------------------------------------------------------------------------------------- *)
Lemma str_eqb_refl s : str_eqb s s = true.
Proof. apply str_eqb_eq. reflexivity. Qed.

Lemma str_eqb_neq a b : a <> b -> str_eqb a b = false.
Proof. intro H. destruct (str_eqb a b) eqn:E; [|reflexivity]. apply str_eqb_eq in E. contradiction. Qed.

Lemma ren_base_container o s : base_name s = true -> container_name (ren o s) = true.
Proof.
  unfold base_name, ren. intro H.
  destruct (str_eqb s s_List); [unfold list_name; destruct (gc o), (sc o); reflexivity|].
  destruct (str_eqb s s_Set); [unfold set_name; destruct (gc o), (sc o); reflexivity|].
  destruct (str_eqb s s_Dict); [unfold dict_name; destruct (gc o), (sc o); reflexivity|discriminate].
Qed.

Lemma base_is_container s : base_name s = true -> container_name s = true.
Proof.
  unfold base_name. intro H. apply orb_true_iff in H as [H|H]; [apply orb_true_iff in H as [H|H]|]; apply str_eqb_eq in H; subst; reflexivity.
Qed.

Lemma ren_other o s : base_name s = false -> ren o s = s.
Proof.
  unfold base_name, ren. intro H. apply orb_false_iff in H as [H H3]. apply orb_false_iff in H as [H1 H2]. rewrite H1, H2, H3. reflexivity.
Qed.

Lemma ren_inj o a b : wfs a = true -> wfs b = true -> str_eqb (ren o a) (ren o b) = str_eqb a b.
Proof.
  intros Ha Hb. destruct (base_name a) eqn:Ba; destruct (base_name b) eqn:Bb.
  - (* both among List / Set / Dict: nine concrete cases x four spellings *)
    unfold base_name in Ba, Bb.
    apply orb_true_iff in Ba as [Ba|Ba]; [apply orb_true_iff in Ba as [Ba|Ba]|];
    (apply orb_true_iff in Bb as [Bb|Bb]; [apply orb_true_iff in Bb as [Bb|Bb]|]);
    apply str_eqb_eq in Ba; apply str_eqb_eq in Bb; subst; destruct o as [u [|] [|]]; reflexivity.
  - rewrite (ren_other o b Bb). unfold wfs in Hb. rewrite Bb, orb_false_l in Hb. apply negb_true_iff in Hb.
    rewrite str_eqb_neq; [rewrite str_eqb_neq; [reflexivity|]|].
    + intro E. subst. apply base_is_container in Ba. congruence.
    + intro E. pose proof (ren_base_container o a Ba) as C. rewrite E in C. congruence.
  - rewrite (ren_other o a Ba). unfold wfs in Ha. rewrite Ba, orb_false_l in Ha. apply negb_true_iff in Ha.
    rewrite str_eqb_neq; [rewrite str_eqb_neq; [reflexivity|]|].
    + intro E. subst. apply base_is_container in Bb. congruence.
    + intro E. pose proof (ren_base_container o b Bb) as C. rewrite <- E in C. congruence.
  - rewrite (ren_other o a Ba), (ren_other o b Bb). reflexivity.
Qed.

(* ---- hint equality is invariant ------------------------------------------------------------------ *)
Lemma hint_eqb_sub h x g y : hint_eqb (HSub h x) (HSub g y) = str_eqb h g && list_eqb hint_eqb x y.
Proof.
  cbn [hint_eqb]. f_equal. revert y. induction x as [|p x IH]; destruct y as [|q y]; try reflexivity. cbn [list_eqb]. rewrite <- IH. reflexivity.
Qed.

Lemma hint_eqb_union x y : hint_eqb (HUnion x) (HUnion y) = list_eqb hint_eqb x y.
Proof.
  cbn [hint_eqb]. revert y. induction x as [|p x IH]; destruct y as [|q y]; try reflexivity. cbn [list_eqb]. rewrite <- IH. reflexivity.
Qed.

Lemma list_eqb_rho o x : Forall (fun a => forall b, wf a = true -> wf b = true -> hint_eqb (rho o a) (rho o b) = hint_eqb a b) x ->
  forall y, forallb wf x = true -> forallb wf y = true -> list_eqb hint_eqb (map (rho o) x) (map (rho o) y) = list_eqb hint_eqb x y.
Proof.
  intro H. induction H as [|a x Ha Hx IH]; intros y Wx Wy; destruct y as [|b y]; try reflexivity.
  cbn [forallb] in Wx, Wy. apply andb_true_iff in Wx as [Wa Wx]. apply andb_true_iff in Wy as [Wb Wy].
  cbn [map list_eqb]. rewrite (Ha b Wa Wb), (IH y Wx Wy). reflexivity.
Qed.

Lemma hint_eqb_rho o a : forall b, wf a = true -> wf b = true -> hint_eqb (rho o a) (rho o b) = hint_eqb a b.
Proof.
  induction a as [s|l|hd args IH|alts IH|x IH| |] using hint_ind'; intros b Wa Wb; destruct b as [s'|l'|hd' args'|alts'|x'| |]; try reflexivity.
  - cbn [rho hint_eqb]. apply ren_inj; assumption.
  - cbn [rho]. rewrite !hint_eqb_sub. cbn [wf] in Wa, Wb. apply andb_true_iff in Wa as [Wh Wa]. apply andb_true_iff in Wb as [Wh' Wb].
    rewrite (ren_inj o hd hd' Wh Wh'). rewrite (list_eqb_rho o args IH args' Wa Wb). reflexivity.
  - cbn [rho]. rewrite !hint_eqb_union. apply (list_eqb_rho o alts IH alts'); assumption.
  - cbn [rho hint_eqb]. apply IH; assumption.
Qed.

Lemma mem_hint_rho o h acc : wf h = true -> forallb wf acc = true -> mem_hint (rho o h) (map (rho o) acc) = mem_hint h acc.
Proof.
  intros Wh. induction acc as [|x acc IH]; intro Wacc; [reflexivity|]. cbn [forallb] in Wacc. apply andb_true_iff in Wacc as [Wx Wacc].
  cbn [map mem_hint]. rewrite (hint_eqb_rho o h x Wh Wx), (IH Wacc). reflexivity.
Qed.

(* ---- the small tests ------------------------------------------------------------------------------ *)
Lemma is_hnone_rho o h : is_hnone (rho o h) = is_hnone h. Proof. destruct h; reflexivity. Qed.
Lemma is_hempty_rho o h : is_hempty (rho o h) = is_hempty h. Proof. destruct h; reflexivity. Qed.

Lemma is_any_rho o h : wf h = true -> is_any (rho o h) = is_any h.
Proof.
  destruct h as [s| | | | | |]; try reflexivity. cbn [wf rho is_any]. intro W.
  assert (wfs s_Any = true) as WA by reflexivity.
  assert (ren o s_Any = s_Any) as RA by reflexivity.
  rewrite <- RA at 1. apply ren_inj; assumption.
Qed.

(* ---- rho commutes with the union / None surgery -------------------------------------------------- *)
Lemma chain_rho o h : chain (rho o h) = map (rho o) (chain h).
Proof.
  induction h as [s|l|hd args IH|alts IH|x IH| |] using hint_ind'; try reflexivity.
  - cbn [rho chain]. induction IH as [|a alts Ha Hs IHl]; [reflexivity|]. cbn [map flat_map]. rewrite map_app, Ha, IHl. reflexivity.
  - cbn [rho chain]. rewrite map_app, IH. reflexivity.
Qed.

Lemma of_parts_rho o l : of_parts (map (rho o) l) = rho o (of_parts l).
Proof. destruct l as [|x [|y r]]; reflexivity. Qed.

Lemma filter_nonnone_rho o l :
  filter (fun x => negb (is_hnone x)) (map (rho o) l) = map (rho o) (filter (fun x => negb (is_hnone x)) l).
Proof.
  induction l as [|x l IH]; [reflexivity|]. cbn [map filter]. rewrite is_hnone_rho. destruct (negb (is_hnone x)); cbn [map]; rewrite IH; reflexivity.
Qed.

Lemma rn_op_rho o h : rn_op (rho o h) = rho o (rn_op h).
Proof.
  destruct h as [s|l|hd args|alts|x| |]; try reflexivity.
  - change (rho o (HUnion alts)) with (HUnion (map (rho o) alts)). unfold rn_op.
    change (HUnion (map (rho o) alts)) with (rho o (HUnion alts)). rewrite chain_rho, filter_nonnone_rho, of_parts_rho. reflexivity.
  - change (rho o (HOpt x)) with (HOpt (rho o x)). unfold rn_op.
    change (HOpt (rho o x)) with (rho o (HOpt x)). rewrite chain_rho, filter_nonnone_rho, of_parts_rho. reflexivity.
Qed.

Definition ty_member (x : hint) : list hint :=
  if is_hnone x then [] else match x with HUnion _ => [rn_ty x] | _ => [x] end.

Lemma rn_ty_union l : rn_ty (HUnion l) = of_parts (flat_map ty_member l).
Proof. reflexivity. Qed.

Lemma rn_ty_rho o h : rn_ty (rho o h) = rho o (rn_ty h).
Proof.
  induction h as [s|l|hd args IH|alts IH|x IH| |] using hint_ind'; try reflexivity.
  change (rho o (HUnion alts)) with (HUnion (map (rho o) alts)). rewrite !rn_ty_union, <- of_parts_rho. f_equal.
  induction IH as [|a alts Ha Hs IHl]; [reflexivity|]. cbn [map flat_map]. rewrite map_app, IHl. f_equal.
  unfold ty_member. rewrite is_hnone_rho. destruct (is_hnone a); [reflexivity|].
  destruct a as [s|l|hd args|alts0|x| |]; try reflexivity.
  change (rho o (HUnion alts0)) with (HUnion (map (rho o) alts0)). cbn [map]. f_equal.
  change (HUnion (map (rho o) alts0)) with (rho o (HUnion alts0)). exact Ha.
Qed.

Lemma rn_rho o h : rn o (rho o h) = rho o (rn (dflt o) h).
Proof. unfold rn, dflt. cbn [uo]. destruct (uo o); [apply rn_op_rho | apply rn_ty_rho]. Qed.

Lemma make_optional_rho o h : make_optional o (rho o h) = rho o (make_optional (dflt o) h).
Proof.
  unfold make_optional. rewrite rn_rho, is_hempty_rho, is_hnone_rho.
  destruct (is_hempty (rn (dflt o) h) || is_hnone (rn (dflt o) h)); reflexivity.
Qed.

Lemma ren_List o : ren o s_List = list_name o. Proof. reflexivity. Qed.
Lemma ren_Set o : ren o s_Set = set_name o. Proof. reflexivity. Qed.
Lemma ren_Dict o : ren o s_Dict = dict_name o. Proof. reflexivity. Qed.

Lemma ren_clean o s : container_name s = false -> ren o s = s.
Proof.
  intro H. apply ren_other. destruct (base_name s) eqn:B; [|reflexivity]. apply base_is_container in B. congruence.
Qed.

Lemma wrap_rho o c base : match c with CDict (Some k) => container_name k = false | _ => True end ->
  wrap o c (rho o base) = rho o (wrap (dflt o) c base).
Proof.
  intro K. destruct c as [| | |key]; cbn [wrap]; rewrite ?is_hempty_rho.
  - reflexivity.
  - destruct (is_hempty base); reflexivity.
  - destruct (is_hempty base); reflexivity.
  - destruct key as [k|]; destruct (is_hempty base); cbn [rho map]; rewrite ?(ren_clean o k K); reflexivity.
Qed.

Lemma flat_union_rho o alts :
  flat_map (fun a => match a with HUnion l => l | _ => [a] end) (map (rho o) alts)
  = map (rho o) (flat_map (fun a => match a with HUnion l => l | _ => [a] end) alts).
Proof.
  induction alts as [|a alts IH]; [reflexivity|]. cbn [map flat_map]. rewrite map_app, IH. f_equal. destruct a; reflexivity.
Qed.

Lemma mk_union_rho o alts : mk_union o (map (rho o) alts) = rho o (mk_union (dflt o) alts).
Proof.
  unfold mk_union, dflt. cbn [uo]. destruct alts as [|x [|y r]]; cbn [map].
  - destruct (uo o); reflexivity.
  - reflexivity.
  - destruct (uo o); [|reflexivity]. change (rho o x :: rho o y :: map (rho o) r) with (map (rho o) (x :: y :: r)).
    rewrite flat_union_rho. reflexivity.
Qed.

(* ---- well-formedness is preserved ------------------------------------------------------------------ *)
Lemma wf_chain h : wf h = true -> forallb wf (chain h) = true.
Proof.
  induction h as [s|l|hd args IH|alts IH|x IH| |] using hint_ind'; intro W; cbn [chain forallb]; rewrite ?W; try reflexivity.
  - cbn [wf] in W. induction IH as [|a alts Ha Hs IHl]; [reflexivity|]. cbn [forallb] in W. apply andb_true_iff in W as [Wa Ws].
    cbn [flat_map]. rewrite forallb_app, (Ha Wa), (IHl Ws). reflexivity.
  - cbn [wf] in W. rewrite forallb_app, (IH W). reflexivity.
Qed.

Lemma wf_of_parts l : forallb wf l = true -> wf (of_parts l) = true.
Proof.
  destruct l as [|x [|y r]]; intro W; [reflexivity| |exact W]. cbn [forallb] in W. rewrite andb_true_r in W. exact W.
Qed.

Lemma wf_filter (f : hint -> bool) l : forallb wf l = true -> forallb wf (filter f l) = true.
Proof.
  induction l as [|x l IH]; intro W; [reflexivity|]. cbn [forallb] in W. apply andb_true_iff in W as [Wx Wl].
  cbn [filter]. destruct (f x); cbn [forallb]; rewrite ?Wx, (IH Wl); reflexivity.
Qed.

Lemma wf_rn_op h : wf h = true -> wf (rn_op h) = true.
Proof.
  intro W. destruct h; try exact W; unfold rn_op; apply wf_of_parts, wf_filter, wf_chain; exact W.
Qed.

Lemma wf_rn_ty h : wf h = true -> wf (rn_ty h) = true.
Proof.
  induction h as [s|l|hd args IH|alts IH|x IH| |] using hint_ind'; intro W; try exact W.
  rewrite rn_ty_union. apply wf_of_parts. cbn [wf] in W.
  induction IH as [|a alts Ha Hs IHl]; [reflexivity|]. cbn [forallb] in W. apply andb_true_iff in W as [Wa Ws].
  cbn [flat_map]. rewrite forallb_app, (IHl Ws), andb_true_r. unfold ty_member. destruct (is_hnone a); [reflexivity|].
  destruct a; cbn [forallb]; rewrite ?andb_true_r; try exact Wa. apply Ha. exact Wa.
Qed.

Lemma wf_rn o h : wf h = true -> wf (rn o h) = true.
Proof. unfold rn. destruct (uo o); [apply wf_rn_op | apply wf_rn_ty]. Qed.

Lemma wf_make_optional o h : wf h = true -> wf (make_optional o h) = true.
Proof.
  intro W. unfold make_optional. destruct (is_hempty (rn o h) || is_hnone (rn o h)); [reflexivity|]. cbn [wf]. apply wf_rn. exact W.
Qed.

Lemma wf_wrap o c base : sc o = false -> gc o = false ->
  match c with CDict (Some k) => container_name k = false | _ => True end -> wf base = true -> wf (wrap o c base) = true.
Proof.
  intros S G K W. destruct c as [| | |key]; cbn [wrap]; unfold list_name, set_name, dict_name; rewrite ?S, ?G.
  - exact W.
  - destruct (is_hempty base); cbn [wf forallb]; rewrite ?W; reflexivity.
  - destruct (is_hempty base); cbn [wf forallb]; rewrite ?W; reflexivity.
  - destruct key as [k|]; destruct (is_hempty base); cbn [wf forallb]; unfold wfs; rewrite ?K, ?W, ?orb_true_r; reflexivity.
Qed.

Lemma wf_mk_union o alts : forallb wf alts = true -> wf (mk_union o alts) = true.
Proof.
  intro W. unfold mk_union. destruct alts as [|x [|y r]].
  - destruct (uo o); reflexivity.
  - cbn [forallb] in W. rewrite andb_true_r in W. exact W.
  - destruct (uo o); [|exact W]. cbn [wf]. remember (x :: y :: r) as l eqn:E. clear E.
    induction l as [|a l IH]; [reflexivity|]. cbn [forallb] in W. apply andb_true_iff in W as [Wa Wl].
    cbn [flat_map]. rewrite forallb_app, (IH Wl), andb_true_r. destruct a; cbn [forallb]; rewrite ?andb_true_r; exact Wa.
Qed.

(* ---- the union branch ------------------------------------------------------------------------------ *)
Lemma union_fold_rho o hs : forall acc opt, forallb wf hs = true -> forallb wf acc = true ->
  union_fold o (map (rho o) hs) (map (rho o) acc) opt
  = (map (rho o) (fst (union_fold (dflt o) hs acc opt)), snd (union_fold (dflt o) hs acc opt))
  /\ forallb wf (fst (union_fold (dflt o) hs acc opt)) = true.
Proof.
  induction hs as [|h hs IH]; intros acc opt Whs Wacc.
  - cbn [union_fold map fst snd]. split; [reflexivity | exact Wacc].
  - cbn [forallb] in Whs. apply andb_true_iff in Whs as [Wh Whs].
    cbn [union_fold map]. rewrite (mem_hint_rho o h acc Wh Wacc). destruct (mem_hint h acc); [apply IH; assumption|].
    rewrite is_hnone_rho. destruct (is_hnone h); [apply IH; assumption|].
    rewrite rn_rho. pose proof (wf_rn (dflt o) h Wh) as Wr.
    rewrite (hint_eqb_rho o (rn (dflt o) h) h Wr Wh).
    replace (map (rho o) acc ++ [rho o (rn (dflt o) h)]) with (map (rho o) (acc ++ [rn (dflt o) h])) by (rewrite map_app; reflexivity).
    apply IH; [exact Whs|]. rewrite forallb_app, Wacc. cbn [forallb]. rewrite Wr. reflexivity.
Qed.

(* ---- type_hint -------------------------------------------------------------------------------------- *)
Definition base_of (o : spell) (typ : option str) (children : list dt) (lits : list lit) (ref : option str) (opt : bool) : hint * bool :=
  match typ with
  | Some s => (HAtom s, opt)
  | None =>
      match children with
      | _ :: _ :: _ =>
          let '(alts, o') := union_fold o (map (fun ch => fst (th o ch)) children) [] false in
          (mk_union o alts, opt || o')
      | [ch] => (fst (th o ch), opt)
      | [] => match lits with
              | _ :: _ => (HLit lits, opt)
              | [] => match ref with Some r => (HAtom r, opt) | None => (HEmpty, opt) end
              end
      end
  end.

Lemma th_unfold o typ children lits ref opt c :
  th o (DT typ children lits ref opt c) =
  let '(base, opt1) := base_of o typ children lits ref opt in
  let w := wrap o c base in
  if opt1 && negb (is_any w) then (make_optional o w, opt1) else (w, opt1).
Proof. reflexivity. Qed.

Lemma wfs_clean s : container_name s = false -> wfs s = true.
Proof. intro H. unfold wfs. rewrite H. apply orb_true_r. Qed.

Definition related (o : spell) (t : dt) : Prop :=
  wf (fst (th (dflt o) t)) = true /\ th o t = (rho o (fst (th (dflt o) t)), snd (th (dflt o) t)).

Definition multi (o : spell) (cs : list dt) (opt : bool) : hint * bool :=
  let '(alts, o') := union_fold o (map (fun ch => fst (th o ch)) cs) [] false in (mk_union o alts, opt || o').

Lemma multi_related o cs opt : Forall (related o) cs ->
  wf (fst (multi (dflt o) cs opt)) = true /\ multi o cs opt = (rho o (fst (multi (dflt o) cs opt)), snd (multi (dflt o) cs opt)).
Proof.
  intro IH. unfold multi.
  assert (map (fun ch => fst (th o ch)) cs = map (rho o) (map (fun ch => fst (th (dflt o) ch)) cs)) as M.
  { rewrite map_map. apply map_ext_in. intros ch Hch. rewrite Forall_forall in IH. destruct (IH ch Hch) as [_ E]. rewrite E. reflexivity. }
  assert (forallb wf (map (fun ch => fst (th (dflt o) ch)) cs) = true) as Wcs.
  { apply forallb_forall. intros h Hh. apply in_map_iff in Hh as [ch [<- Hch]]. rewrite Forall_forall in IH. destruct (IH ch Hch) as [W _]. exact W. }
  rewrite M.
  destruct (union_fold_rho o (map (fun ch => fst (th (dflt o) ch)) cs) [] false Wcs eq_refl) as [U WU].
  cbn [map] in U. rewrite U.
  destruct (union_fold (dflt o) (map (fun ch => fst (th (dflt o) ch)) cs) [] false) as [alts o'] eqn:UF.
  cbn [fst snd] in *. split; [apply wf_mk_union; exact WU | rewrite mk_union_rho; reflexivity].
Qed.

Lemma base_of_related o typ children lits ref opt :
  match typ with Some s => container_name s = false | None => True end ->
  match ref with Some s => container_name s = false | None => True end ->
  Forall (related o) children ->
  wf (fst (base_of (dflt o) typ children lits ref opt)) = true
  /\ base_of o typ children lits ref opt
     = (rho o (fst (base_of (dflt o) typ children lits ref opt)), snd (base_of (dflt o) typ children lits ref opt)).
Proof.
  intros Ct Cr IH. unfold base_of. destruct typ as [s|].
  - cbn [fst snd rho wf]. split; [apply wfs_clean; exact Ct | rewrite (ren_clean o s Ct); reflexivity].
  - destruct children as [|c1 [|c2 r]].
    + destruct lits as [|l0 lr]; cbn [fst snd rho wf]; [|split; reflexivity].
      destruct ref as [r0|]; cbn [fst snd rho wf]; [|split; reflexivity].
      split; [apply wfs_clean; exact Cr | rewrite (ren_clean o r0 Cr); reflexivity].
    + inversion IH as [|? ? [W E] _]; subst. cbn [fst snd]. split; [exact W | rewrite E; reflexivity].
    + apply (multi_related o (c1 :: c2 :: r) opt IH).
Qed.

Lemma dflt_sc o : sc (dflt o) = false. Proof. reflexivity. Qed.
Lemma dflt_gc o : gc (dflt o) = false. Proof. reflexivity. Qed.

Theorem th_related o : forall t, clean_dt t = true -> related o t.
Proof.
  induction t as [typ children lits ref opt c IH] using dt_ind'. intro C.
  cbn [clean_dt] in C. apply andb_true_iff in C as [C Cch]. apply andb_true_iff in C as [C Ck].
  apply andb_true_iff in C as [Ct Cr].
  assert (K : match c with CDict (Some k) => container_name k = false | _ => True end).
  { destruct c as [| | |[k|]]; auto. apply negb_true_iff. exact Ck. }
  assert (Kt : match typ with Some s => container_name s = false | None => True end) by (destruct typ; [apply negb_true_iff; exact Ct | exact I]).
  assert (Kr : match ref with Some s => container_name s = false | None => True end) by (destruct ref; [apply negb_true_iff; exact Cr | exact I]).
  assert (IHc : Forall (related o) children).
  { apply Forall_forall. intros ch Hch. rewrite Forall_forall in IH. apply IH; [exact Hch|]. eapply forallb_forall in Cch; eauto. }
  destruct (base_of_related o typ children lits ref opt Kt Kr IHc) as [WB EB].
  unfold related. rewrite !th_unfold. rewrite EB.
  destruct (base_of (dflt o) typ children lits ref opt) as [base opt1]. cbn [fst snd] in *.
  cbv zeta. rewrite (wrap_rho o c base K).
  pose proof (wf_wrap (dflt o) c base (dflt_sc o) (dflt_gc o) K WB) as WW.
  rewrite (is_any_rho o _ WW).
  destruct (opt1 && negb (is_any (wrap (dflt o) c base))); cbn [fst snd].
  - split; [apply wf_make_optional; exact WW | rewrite make_optional_rho; reflexivity].
  - split; [exact WW | reflexivity].
Qed.

(* ---- the meaning ------------------------------------------------------------------------------------- *)
Lemma canon_head_ren o s : wfs s = true -> canon_head o (ren o s) = canon_head (dflt o) s.
Proof.
  intro W. destruct (base_name s) eqn:B.
  - unfold base_name in B. apply orb_true_iff in B as [B|B]; [apply orb_true_iff in B as [B|B]|]; apply str_eqb_eq in B; subst;
      destruct o as [u [|] [|]]; reflexivity.
  - rewrite (ren_other o s B). unfold wfs in W. rewrite B, orb_false_l in W. apply negb_true_iff in W.
    unfold canon_head.
    assert (forall n, container_name n = true -> str_eqb s n = false) as X.
    { intros n Hn. apply str_eqb_neq. intro E. subst. congruence. }
    rewrite !X; [reflexivity| | | | | |]; unfold list_name, set_name, dict_name, dflt; cbn [sc gc]; try reflexivity; destruct (gc o), (sc o); reflexivity.
Qed.

Lemma nf_rho o h : wf h = true -> nf o (rho o h) = nf (dflt o) h.
Proof.
  induction h as [s|l|hd args IH|alts IH|x IH| |] using hint_ind'; intro W; try reflexivity.
  - cbn [rho nf wf] in *. rewrite canon_head_ren; [reflexivity | exact W].
  - cbn [wf] in W. apply andb_true_iff in W as [Wh Wa]. cbn [rho nf]. rewrite (canon_head_ren o hd Wh). f_equal.
    rewrite map_map. apply map_ext_in. intros a Ha. rewrite Forall_forall in IH. apply IH; [exact Ha|]. eapply forallb_forall in Wa; eauto.
  - cbn [wf] in W. cbn [rho nf]. f_equal.
    induction IH as [|a alts Ha Hs IHl]; [reflexivity|]. cbn [forallb] in W. apply andb_true_iff in W as [Wa Ws].
    cbn [map flat_map]. rewrite (Ha Wa), (IHl Ws). reflexivity.
  - cbn [wf] in W. cbn [rho nf]. rewrite (IH W). reflexivity.
Qed.

(* the container spelling never changes what an annotation means: for every tree whose own names are not container names *)
Theorem meaning_container_spelling o t : clean_dt t = true -> meaning o t = meaning (dflt o) t.
Proof.
  intro C. destruct (th_related o t C) as [W E]. unfold meaning, type_hint. rewrite E. cbn [fst]. apply nf_rho. exact W.
Qed.

Corollary meaning_same_union_style o1 o2 t : clean_dt t = true -> uo o1 = uo o2 -> meaning o1 t = meaning o2 t.
Proof.
  intros C U. rewrite (meaning_container_spelling o1 t C), (meaning_container_spelling o2 t C). unfold dflt. rewrite U. reflexivity.
Qed.
(* ---- making a type optional keeps every non-None alternative, in both union styles ------------------- *)
Fixpoint alts (h : hint) : list hint :=
  match h with
  | HOpt x => alts x
  | HUnion l => flat_map alts l
  | HNone | HEmpty => []
  | _ => [h]
  end.

Lemma alts_of_parts l : alts (of_parts l) = flat_map alts l.
Proof. destruct l as [|x [|y r]]; cbn [of_parts alts flat_map]; rewrite ?app_nil_r; reflexivity. Qed.

Lemma alts_chain h : flat_map alts (chain h) = alts h.
Proof.
  induction h as [s|l|hd args IH|alts0 IH|x IH| |] using hint_ind'; cbn [chain alts flat_map]; rewrite ?app_nil_r; try reflexivity.
  - induction IH as [|a l Ha Hs IHl]; [reflexivity|]. cbn [flat_map]. rewrite flat_map_app, Ha, IHl. reflexivity.
  - rewrite flat_map_app, IH. cbn [flat_map alts]. rewrite app_nil_r. reflexivity.
Qed.

Lemma alts_filter_nonnone l : flat_map alts (filter (fun x => negb (is_hnone x)) l) = flat_map alts l.
Proof.
  induction l as [|x l IH]; [reflexivity|]. cbn [filter flat_map]. destruct x; cbn [is_hnone negb flat_map]; rewrite IH; reflexivity.
Qed.

Lemma alts_rn_op h : alts (rn_op h) = alts h.
Proof.
  destruct h as [s|l|hd args|alts0|x| |]; try reflexivity; unfold rn_op; rewrite alts_of_parts, alts_filter_nonnone, alts_chain; reflexivity.
Qed.

Lemma alts_rn_ty h : alts (rn_ty h) = alts h.
Proof.
  induction h as [s|l|hd args IH|alts0 IH|x IH| |] using hint_ind'; try reflexivity.
  rewrite rn_ty_union, alts_of_parts. cbn [alts].
  induction IH as [|a l Ha Hs IHl]; [reflexivity|]. cbn [flat_map]. rewrite flat_map_app, IHl. f_equal.
  unfold ty_member. destruct a as [s|l0|hd args|alts1|x| |]; cbn [is_hnone flat_map]; rewrite ?app_nil_r; try reflexivity. exact Ha.
Qed.

Theorem make_optional_keeps_alternatives o h : alts (make_optional o h) = alts h.
Proof.
  unfold make_optional.
  assert (alts (rn o h) = alts h) as R by (unfold rn; destruct (uo o); [apply alts_rn_op | apply alts_rn_ty]).
  destruct (rn o h) eqn:E; cbn [is_hempty is_hnone orb alts]; cbn [alts] in R; exact R.
Qed.

Lemma base_of_opt o typ children lits ref opt :
  base_of o typ children lits ref opt
  = (fst (base_of o typ children lits ref false), opt || snd (base_of o typ children lits ref false)).
Proof.
  unfold base_of. destruct typ as [s|]; [cbn [fst snd]; rewrite orb_false_r; reflexivity|].
  destruct children as [|c1 [|c2 r]].
  - destruct lits; [destruct ref|]; cbn [fst snd]; rewrite orb_false_r; reflexivity.
  - cbn [fst snd]. rewrite orb_false_r. reflexivity.
  - destruct (union_fold o (map (fun ch => fst (th o ch)) (c1 :: c2 :: r)) [] false) as [a o']. cbn [fst snd orb]. reflexivity.
Qed.

(* the optional flag of a node adds None and nothing else: the rendered hint of the node with and without the flag has
   the same non-None alternatives, in the same order - for every tree and every spelling *)
Theorem optional_flag_keeps_alternatives o typ children lits ref c :
  alts (type_hint o (DT typ children lits ref true c)) = alts (type_hint o (DT typ children lits ref false c)).
Proof.
  unfold type_hint. rewrite !th_unfold. rewrite (base_of_opt o typ children lits ref true), (base_of_opt o typ children lits ref false).
  destruct (base_of o typ children lits ref false) as [base o1]. cbn [fst snd orb]. cbv zeta.
  destruct (is_any (wrap o c base)); cbn [negb andb fst]; [destruct o1; reflexivity|].
  destruct o1; cbn [andb fst]; [reflexivity|]. apply make_optional_keeps_alternatives.
Qed.
