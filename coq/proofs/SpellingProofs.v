(* The container spelling (typing names / standard collections / generic container types) never changes
   what an annotation means - for EVERY IR tree whose own names are not container names.
   th o t is, up to a renaming rho of the three container heads, th o0 t where o0 spells containers the
   default way (same union style): every comparison the rendering makes (duplicate alternatives, "did
   removing None change the hint", Any) gives the same answer because rho is injective on the hints that
   can occur. *)
From DMCG Require Import TypeDen HintImports TypeHintProofs HintImportsProofs IdentProofs.
From Coq Require Import List Bool.
Import ListNotations.
Open Scope N_scope.

Definition s_List := of_string "List".
Definition s_Set := of_string "Set".
Definition s_Dict := of_string "Dict".

Definition base_name (s : str) : bool := str_eqb s s_List || str_eqb s s_Set || str_eqb s s_Dict.

Definition ren (o : spell) (s : str) : str :=
  if str_eqb s s_List then list_name o else if str_eqb s s_Set then set_name o else if str_eqb s s_Dict then dict_name o else s.

Fixpoint rho (o : spell) (h : hint) : hint :=
  match h with
  | HAtom s => HAtom (ren o s)
  | HLit l => HLit l
  | HSub hd args => HSub (ren o hd) (map (rho o) args)
  | HUnion l => HUnion (map (rho o) l)
  | HOpt x => HOpt (rho o x)
  | HNone => HNone
  | HEmpty => HEmpty
  end.

(* names that can occur in a hint rendered with the default container spelling from a clean tree *)
Definition wfs (s : str) : bool := base_name s || negb (container_name s).

Fixpoint wf (h : hint) : bool :=
  match h with
  | HAtom s => wfs s
  | HSub hd args => wfs hd && forallb wf args
  | HUnion l => forallb wf l
  | HOpt x => wf x
  | _ => true
  end.

Definition dflt (o : spell) : spell := {| uo := uo o; sc := false; gc := false |}.

(* ---- names ---------------------------------------------------------------------------------------- *)
Lemma str_eqb_refl s : str_eqb s s = true.
Proof. apply str_eqb_eq. reflexivity. Qed.

Lemma str_eqb_neq a b : a <> b -> str_eqb a b = false.
Proof. intro H. destruct (str_eqb a b) eqn:E; [|reflexivity]. apply str_eqb_eq in E. contradiction. Qed.

Lemma ren_base_container o s : base_name s = true -> container_name (ren o s) = true.
Proof.
  unfold base_name, ren. intro H.
  destruct (str_eqb s s_List); [unfold list_name; destruct (gc o), (sc o); reflexivity|].
  destruct (str_eqb s s_Set); [unfold set_name; destruct (gc o), (sc o); reflexivity|].
  destruct (str_eqb s s_Dict); [unfold dict_name; destruct (gc o), (sc o); reflexivity|discriminate].
Qed.

Lemma base_is_container s : base_name s = true -> container_name s = true.
Proof.
  unfold base_name. intro H. apply orb_true_iff in H as [H|H]; [apply orb_true_iff in H as [H|H]|]; apply str_eqb_eq in H; subst; reflexivity.
Qed.

Lemma ren_other o s : base_name s = false -> ren o s = s.
Proof.
  unfold base_name, ren. intro H. apply orb_false_iff in H as [H H3]. apply orb_false_iff in H as [H1 H2]. rewrite H1, H2, H3. reflexivity.
Qed.

Lemma ren_inj o a b : wfs a = true -> wfs b = true -> str_eqb (ren o a) (ren o b) = str_eqb a b.
Proof.
  intros Ha Hb. destruct (base_name a) eqn:Ba; destruct (base_name b) eqn:Bb.
  - (* both among List / Set / Dict: nine concrete cases x four spellings *)
    unfold base_name in Ba, Bb.
    apply orb_true_iff in Ba as [Ba|Ba]; [apply orb_true_iff in Ba as [Ba|Ba]|];
    (apply orb_true_iff in Bb as [Bb|Bb]; [apply orb_true_iff in Bb as [Bb|Bb]|]);
    apply str_eqb_eq in Ba; apply str_eqb_eq in Bb; subst; destruct o as [u [|] [|]]; reflexivity.
  - rewrite (ren_other o b Bb). unfold wfs in Hb. rewrite Bb in Hb. cbn in Hb. apply negb_true_iff in Hb.
    rewrite str_eqb_neq; [rewrite str_eqb_neq; [reflexivity|]|].
    + intro E. subst. apply base_is_container in Ba. congruence.
    + intro E. pose proof (ren_base_container o a Ba) as C. rewrite E in C. congruence.
  - rewrite (ren_other o a Ba). unfold wfs in Ha. rewrite Ba in Ha. cbn in Ha. apply negb_true_iff in Ha.
    rewrite str_eqb_neq; [rewrite str_eqb_neq; [reflexivity|]|].
    + intro E. subst. apply base_is_container in Bb. congruence.
    + intro E. pose proof (ren_base_container o b Bb) as C. rewrite <- E in C. congruence.
  - rewrite (ren_other o a Ba), (ren_other o b Bb). reflexivity.
Qed.

(* ---- hint equality is invariant ------------------------------------------------------------------ *)
Lemma hint_eqb_sub h x g y : hint_eqb (HSub h x) (HSub g y) = str_eqb h g && list_eqb hint_eqb x y.
Proof.
  cbn [hint_eqb]. f_equal. revert y. induction x as [|p x IH]; destruct y as [|q y]; try reflexivity. cbn [list_eqb]. rewrite <- IH. reflexivity.
Qed.

Lemma hint_eqb_union x y : hint_eqb (HUnion x) (HUnion y) = list_eqb hint_eqb x y.
Proof.
  cbn [hint_eqb]. revert y. induction x as [|p x IH]; destruct y as [|q y]; try reflexivity. cbn [list_eqb]. rewrite <- IH. reflexivity.
Qed.

Lemma list_eqb_rho o x : Forall (fun a => forall b, wf a = true -> wf b = true -> hint_eqb (rho o a) (rho o b) = hint_eqb a b) x ->
  forall y, forallb wf x = true -> forallb wf y = true -> list_eqb hint_eqb (map (rho o) x) (map (rho o) y) = list_eqb hint_eqb x y.
Proof.
  intro H. induction H as [|a x Ha Hx IH]; intros y Wx Wy; destruct y as [|b y]; try reflexivity.
  cbn [forallb] in Wx, Wy. apply andb_true_iff in Wx as [Wa Wx]. apply andb_true_iff in Wy as [Wb Wy].
  cbn [map list_eqb]. rewrite (Ha b Wa Wb), (IH y Wx Wy). reflexivity.
Qed.

Lemma hint_eqb_rho o a : forall b, wf a = true -> wf b = true -> hint_eqb (rho o a) (rho o b) = hint_eqb a b.
Proof.
  induction a as [s|l|hd args IH|alts IH|x IH| |] using hint_ind'; intros b Wa Wb; destruct b as [s'|l'|hd' args'|alts'|x'| |]; try reflexivity.
  - cbn [rho hint_eqb]. apply ren_inj; assumption.
  - cbn [rho]. rewrite !hint_eqb_sub. cbn [wf] in Wa, Wb. apply andb_true_iff in Wa as [Wh Wa]. apply andb_true_iff in Wb as [Wh' Wb].
    rewrite (ren_inj o hd hd' Wh Wh'). rewrite (list_eqb_rho o args IH args' Wa Wb). reflexivity.
  - cbn [rho]. rewrite !hint_eqb_union. apply (list_eqb_rho o alts IH alts'); assumption.
  - cbn [rho hint_eqb]. apply IH; assumption.
Qed.

Lemma mem_hint_rho o h acc : wf h = true -> forallb wf acc = true -> mem_hint (rho o h) (map (rho o) acc) = mem_hint h acc.
Proof.
  intros Wh. induction acc as [|x acc IH]; intro Wacc; [reflexivity|]. cbn [forallb] in Wacc. apply andb_true_iff in Wacc as [Wx Wacc].
  cbn [map mem_hint]. rewrite (hint_eqb_rho o h x Wh Wx), (IH Wacc). reflexivity.
Qed.

(* ---- the small tests ------------------------------------------------------------------------------ *)
Lemma is_hnone_rho o h : is_hnone (rho o h) = is_hnone h. Proof. destruct h; reflexivity. Qed.
Lemma is_hempty_rho o h : is_hempty (rho o h) = is_hempty h. Proof. destruct h; reflexivity. Qed.

Lemma is_any_rho o h : wf h = true -> is_any (rho o h) = is_any h.
Proof.
  destruct h as [s| | | | | |]; try reflexivity. cbn [wf rho is_any]. intro W.
  assert (wfs s_Any = true) as WA by reflexivity.
  assert (ren o s_Any = s_Any) as RA by reflexivity.
  rewrite <- RA at 1. apply ren_inj; assumption.
Qed.
