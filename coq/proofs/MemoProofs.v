From Coq Require Import Lia Permutation.
From DMCG Require Import Memo IdentProofs.
Open Scope N_scope.

Section MemoP.
Context {K V : Type} (keq : K -> K -> bool) (f : K -> V).
Context (keq_eq : forall a b, keq a b = true -> a = b).

Definition cache_ok (c : list (K * V)) : Prop := forall k v, In (k, v) c -> v = f k.

Lemma cache_get_ok c k v : cache_ok c -> cache_get keq c k = Some v -> v = f k.
Proof.
  induction c as [|[k' v'] r IH]; cbn [cache_get]; intros H E; [discriminate|].
  destruct (keq k k') eqn:Q.
  - injection E as <-. apply keq_eq in Q. subst k'. apply H. left. reflexivity.
  - apply IH; [intros a b Hin; apply H; right; exact Hin | exact E].
Qed.

(* memoisation is observationally pure: along every call history, starting from any cache that only
   holds correct entries, the cached function returns what the function returns *)
Theorem memo_transparent ks : forall c, cache_ok c -> run_memo keq f c ks = map f ks.
Proof.
  induction ks as [|k r IH]; intros c H; cbn [run_memo map]; [reflexivity|].
  unfold memo_step. destruct (cache_get keq c k) as [v|] eqn:E.
  - rewrite (cache_get_ok c k v H E). f_equal. apply IH. exact H.
  - f_equal. apply IH. intros a b [Hin|Hin]; [injection Hin as <- <-; reflexivity | apply H; exact Hin].
Qed.
End MemoP.

(* ---------- sorted emission does not depend on the iteration order of the set ---------- *)
Section SortP.
Context {A : Type} (leb : A -> A -> bool).
Context (leb_total : forall a b, leb a b = true \/ leb b a = true).
Context (leb_trans : forall a b c, leb a b = true -> leb b c = true -> leb a c = true).
Context (leb_antisym : forall a b, leb a b = true -> leb b a = true -> a = b).

Inductive sorted : list A -> Prop :=
| sorted_nil : sorted []
| sorted_cons x l : (forall y, In y l -> leb x y = true) -> sorted l -> sorted (x :: l).

Lemma sinsert_in x l y : In y (sinsert leb x l) <-> y = x \/ In y l.
Proof.
  induction l as [|z r IH]; cbn [sinsert].
  - cbn. intuition.
  - destruct (leb x z); cbn [In]; [intuition|]. rewrite IH. intuition.
Qed.

Lemma sinsert_sorted x l : sorted l -> sorted (sinsert leb x l).
Proof.
  induction 1 as [|z r Hz Hs IH]; cbn [sinsert].
  - constructor; [intros y []| constructor].
  - destruct (leb x z) eqn:E.
    + constructor; [|constructor; assumption].
      intros y [<-|Hy]; [exact E | eapply leb_trans; [exact E | apply Hz; exact Hy]].
    + constructor; [|exact IH]. intros y Hy. apply sinsert_in in Hy as [->|Hy]; [|apply Hz; exact Hy].
      destruct (leb_total x z) as [H|H]; [congruence | exact H].
Qed.

Lemma ssort_sorted l : sorted (ssort leb l).
Proof. induction l as [|x r IH]; cbn [ssort]; [constructor | apply sinsert_sorted; exact IH]. Qed.

Lemma sinsert_perm x l : Permutation (sinsert leb x l) (x :: l).
Proof.
  induction l as [|z r IH]; cbn [sinsert]; [apply Permutation_refl|].
  destruct (leb x z); [apply Permutation_refl|].
  eapply Permutation_trans; [apply perm_skip; exact IH | apply perm_swap].
Qed.

Lemma ssort_perm l : Permutation (ssort leb l) l.
Proof.
  induction l as [|x r IH]; cbn [ssort]; [apply Permutation_refl|].
  eapply Permutation_trans; [apply sinsert_perm | apply perm_skip; exact IH].
Qed.

(* two sorted lists with the same elements are equal *)
Lemma sorted_perm_eq a : forall b, sorted a -> sorted b -> Permutation a b -> a = b.
Proof.
  induction a as [|x a IH]; intros b Sa Sb P.
  - apply Permutation_nil in P. congruence.
  - destruct b as [|y b]; [apply Permutation_sym, Permutation_nil in P; discriminate|].
    inversion Sa as [|? ? Hx Sa']; subst. inversion Sb as [|? ? Hy Sb']; subst.
    assert (x = y) as ->.
    { assert (In x (y :: b)) as I1 by (eapply Permutation_in; [exact P | left; reflexivity]).
      assert (In y (x :: a)) as I2 by (eapply Permutation_in; [apply Permutation_sym; exact P | left; reflexivity]).
      destruct I1 as [->|I1]; [reflexivity|]. destruct I2 as [->|I2]; [reflexivity|].
      apply leb_antisym; [apply Hx; exact I2 | apply Hy; exact I1]. }
    f_equal. apply IH; [exact Sa' | exact Sb' | eapply Permutation_cons_inv; exact P].
Qed.

Theorem sort_perm_invariant s s' : Permutation s s' -> ssort leb s = ssort leb s'.
Proof.
  intro P. apply sorted_perm_eq; try apply ssort_sorted.
  eapply Permutation_trans; [apply ssort_perm|]. eapply Permutation_trans; [exact P|]. apply Permutation_sym, ssort_perm.
Qed.
End SortP.

(* the string order is a total order *)
Lemma str_leb_total a : forall b, str_leb a b = true \/ str_leb b a = true.
Proof.
  induction a as [|x a IH]; intro b; [left; reflexivity|].
  destruct b as [|y b]; [right; reflexivity|]. cbn [str_leb].
  destruct (x <? y) eqn:E1; [left; reflexivity|]. destruct (y <? x) eqn:E2; [right; reflexivity|]. apply IH.
Qed.

Lemma str_leb_antisym a : forall b, str_leb a b = true -> str_leb b a = true -> a = b.
Proof.
  induction a as [|x a IH]; intros b H1 H2.
  - destruct b; [reflexivity | discriminate].
  - destruct b as [|y b]; [discriminate|]. cbn [str_leb] in *.
    destruct (x <? y) eqn:E1.
    + pose proof E1 as E1'. apply N.ltb_lt in E1'. assert ((y <? x) = false) as E2 by (apply N.ltb_ge; lia).
      rewrite E2 in H2. discriminate.
    + destruct (y <? x) eqn:E2; [discriminate|]. apply N.ltb_ge in E1, E2. assert (x = y) by lia. subst. f_equal. apply IH; assumption.
Qed.

Lemma str_leb_trans a : forall b c, str_leb a b = true -> str_leb b c = true -> str_leb a c = true.
Proof.
  induction a as [|x a IH]; intros b c H1 H2; [reflexivity|].
  destruct b as [|y b]; [discriminate|]. destruct c as [|z c]; [discriminate|]. cbn [str_leb] in *.
  destruct (x <? y) eqn:A1.
  - apply N.ltb_lt in A1. destruct (y <? z) eqn:B1.
    + apply N.ltb_lt in B1. rewrite (proj2 (N.ltb_lt x z)) by lia. reflexivity.
    + destruct (z <? y) eqn:B2; [discriminate|]. apply N.ltb_ge in B1, B2. assert (y = z) by lia. subst.
      rewrite (proj2 (N.ltb_lt x z) A1). reflexivity.
  - destruct (y <? x) eqn:A2; [discriminate|]. apply N.ltb_ge in A1, A2. assert (x = y) by lia. subst y.
    destruct (x <? z) eqn:B1; [reflexivity|]. destruct (z <? x) eqn:B2; [discriminate|]. eapply IH; eauto.
Qed.

Theorem str_sort_perm_invariant s s' : Permutation s s' -> ssort str_leb s = ssort str_leb s'.
Proof.
  apply sort_perm_invariant.
  - intros a b. apply str_leb_total.
  - intros a b c. apply str_leb_trans.
  - intros a b. apply str_leb_antisym.
Qed.
