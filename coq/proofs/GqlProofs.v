From DMCG Require Import Gql.
Open Scope N_scope.

Lemma den_set_set b c s : set_nullable b (set_nullable c s) = set_nullable b s.
Proof. destruct s; reflexivity. Qed.

Definition not_any (n : str) : bool := negb (str_eqb n s_Any).

Fixpoint names_ok (t : gty) : bool :=
  match t with GNamed n => not_any n | GList t' | GNonNull t' => names_ok t' end.

Lemma den_with_false t : den_with t false = set_nullable false (den_with t true).
Proof.
  induction t as [n|t IH|t IH]; cbn [den_with set_nullable]; try reflexivity.
  rewrite IH at 1. rewrite IH, den_set_set. reflexivity.
Qed.

Lemma den_with_gql t : den_with t true = den_gql t.
Proof.
  induction t as [n|t IH|t IH]; cbn [den_with den_gql]; try reflexivity.
  - rewrite IH. reflexivity.
  - rewrite den_with_false, IH. reflexivity.
Qed.

(* the annotation rendered for an unrolled wrapper chain has exactly the GraphQL type's list nesting
   and nullability at every level - in every spelling *)
Theorem unroll_shape o t : names_ok t = true ->
  forall opt, den_hint (type_hint o (unroll t opt)) = Some (den_with t opt).
Proof.
  induction t as [n|t IH|t IH]; intros Hn opt.
  - cbn [names_ok] in Hn. unfold not_any in Hn. apply negb_true_iff in Hn.
    unfold type_hint. cbn [unroll th wrap is_any]. rewrite Hn. cbn [negb andb].
    destruct opt; cbn [andb fst].
    + unfold make_optional, rn. destruct (uo o); cbn [rn_op rn_ty is_hempty is_hnone orb den_hint set_nullable den_with]; reflexivity.
    + reflexivity.
  - cbn [names_ok] in Hn. specialize (IH Hn true). unfold type_hint in *.
    cbn [unroll th].
    destruct (th o (unroll t true)) as [hc oc] eqn:E. cbn [fst] in IH.
    assert (is_hempty hc = false) as NE.
    { destruct hc; try reflexivity. cbn in IH. discriminate. }
    cbn [wrap fst]. rewrite NE. cbn [is_any].
    destruct opt; cbn [andb negb fst].
    + unfold make_optional, rn. destruct (uo o); cbn [rn_op rn_ty is_hempty is_hnone orb den_hint]; rewrite IH; reflexivity.
    + cbn [den_hint]. rewrite IH. reflexivity.
  - cbn [names_ok] in Hn. cbn [unroll den_with]. apply IH. exact Hn.
Qed.

Corollary field_shape o t : names_ok t = true ->
  den_hint (type_hint o (field_dt t)) = Some (den_gql t).
Proof. intro H. unfold field_dt. rewrite (unroll_shape o t H true), den_with_gql. reflexivity. Qed.

(* a field is required exactly when its outermost wrapper is NonNull (absent force-optional) *)
Lemma unroll_opt t opt : dt_opt (unroll t opt) = match t with GNonNull _ => dt_opt (unroll t opt) | _ => opt end.
Proof. destruct t; reflexivity. Qed.

Definition outer_nonnull (t : gty) : bool := match t with GNonNull _ => true | _ => false end.

Theorem required_iff_nonnull t :
  (forall x, t <> GNonNull (GNonNull x)) ->
  field_required false t = outer_nonnull t.
Proof.
  intro W. unfold field_required, field_dt. cbn [negb andb].
  destruct t as [n|t|t]; cbn [unroll dt_opt outer_nonnull]; try reflexivity.
  destruct t as [n|t|t]; cbn [unroll dt_opt]; try reflexivity.
  exfalso. apply (W t). reflexivity.
Qed.
