(* Proofs about M12 (model/Infer.v): the schema inferred from a sample admits the sample. *)
From DMCG Require Import Infer IdentProofs.
From Coq Require Import List Bool ZArith NArith Lia.
Import ListNotations.
Open Scope N_scope.

(* ---- induction over JSON values and over strategies ---------------------------------------- *)
Section JsonInd.
  Context (P : json -> Prop).
  Context (HNull : P VNull) (HBool : forall b, P (VBool b)) (HInt : forall z, P (VInt z)) (HFlt : forall h, P (VFlt h))
          (HStr : forall s, P (VStr s))
          (HArr : forall l, Forall P l -> P (VArr l))
          (HObj : forall m, Forall (fun kv => P (snd kv)) m -> P (VObj m)).
  Fixpoint json_ind' (v : json) : P v :=
    match v with
    | VNull => HNull | VBool b => HBool b | VInt z => HInt z | VFlt h => HFlt h | VStr s => HStr s
    | VArr l => HArr l ((fix go (l : list json) : Forall P l :=
                           match l with [] => Forall_nil _ | x :: r => Forall_cons x (json_ind' x) (go r) end) l)
    | VObj m => HObj m ((fix go (m : list (str * json)) : Forall (fun kv => P (snd kv)) m :=
                           match m with [] => Forall_nil _ | x :: r => Forall_cons x (json_ind' (snd x)) (go r) end) m)
    end.
End JsonInd.

Section StratInd.
  Context (P : strat -> Prop).
  Context (HNull : P GNull) (HBool : P GBool) (HNum : forall b, P (GNum b)) (HStr : P GStr)
          (HList : forall items, Forall P items -> P (GList items))
          (HObj : forall props req, Forall (fun p => Forall P (snd p)) props -> P (GObj props req)).
  Fixpoint strat_ind' (g : strat) : P g :=
    match g with
    | GNull => HNull | GBool => HBool | GNum b => HNum b | GStr => HStr
    | GList items => HList items ((fix go (l : list strat) : Forall P l :=
                                     match l with [] => Forall_nil _ | x :: r => Forall_cons x (strat_ind' x) (go r) end) items)
    | GObj props req =>
        HObj props req
             ((fix go (l : list (str * list strat)) : Forall (fun p => Forall P (snd p)) l :=
                 match l with
                 | [] => Forall_nil _
                 | x :: r => Forall_cons x ((fix go2 (l2 : list strat) : Forall P l2 :=
                                              match l2 with [] => Forall_nil _ | y :: r2 => Forall_cons y (strat_ind' y) (go2 r2) end) (snd x))
                                         (go r)
                 end) props)
    end.
End StratInd.

(* a node admits a value through one of its strategies *)
Definition adm (n : node) (v : json) : bool := existsb (fun g => admits_s g v) n.

(* ---- upd ------------------------------------------------------------------------------------- *)
Lemma kind_eqb_eq a b : kind_eqb a b = true <-> a = b.
Proof. destruct a, b; cbn; split; intro H; try discriminate; auto. Qed.

(* every strategy keeps its kind under upd when f does *)
Lemma adm_upd k f n w :
  (forall g, kind_of g = k -> admits_s g w = true -> admits_s (f (Some g)) w = true) ->
  adm n w = true -> adm (upd k f n) w = true.
Proof.
  intros Hf. induction n as [|g r IH]; cbn [adm existsb upd]; [discriminate|].
  intro H. destruct (kind_eqb (kind_of g) k) eqn:E; cbn [existsb].
  - apply orb_true_iff in H as [H|H].
    + apply kind_eqb_eq in E. rewrite (Hf g E H). reflexivity.
    + fold (adm r w) in H. unfold adm in H. rewrite H. apply orb_true_r.
  - apply orb_true_iff in H as [H|H]; [rewrite H; reflexivity|].
    fold (adm (upd k f r) w). rewrite (IH H). apply orb_true_r.
Qed.

Lemma adm_upd_new k f n v :
  (forall o, admits_s (f o) v = true) -> adm (upd k f n) v = true.
Proof.
  intros Hf. induction n as [|g r IH]; cbn [adm existsb upd].
  - rewrite Hf. reflexivity.
  - destruct (kind_eqb (kind_of g) k); cbn [existsb].
    + rewrite Hf. reflexivity.
    + fold (adm (upd k f r) v). rewrite IH. apply orb_true_r.
Qed.

(* ==== part 2: the added value fits, and what fitted before still fits ========================== *)
Definition fit (n : node) (v : json) : bool := existsb (fun g => fits g v) n.

Lemma add_arr l n :
  add (VArr l) n = upd KList (fun o => match o with Some (GList items) => GList (addall l items) | _ => GList (addall l []) end) n.
Proof. reflexivity. Qed.
Lemma add_obj m n :
  add (VObj m) n = upd KObj (fun o => match o with
                                       | Some (GObj props req) => GObj (addprops m props) (inter req (map fst m))
                                       | _ => GObj (addprops m []) (map fst m)
                                       end) n.
Proof. reflexivity. Qed.

Lemma fit_upd k f n w :
  (forall g, kind_of g = k -> fits g w = true -> fits (f (Some g)) w = true) ->
  fit n w = true -> fit (upd k f n) w = true.
Proof.
  intros Hf. induction n as [|g r IH]; cbn [fit existsb upd]; [discriminate|].
  intro H. destruct (kind_eqb (kind_of g) k) eqn:E; cbn [existsb].
  - apply orb_true_iff in H as [H|H].
    + apply kind_eqb_eq in E. rewrite (Hf g E H). reflexivity.
    + rewrite H. apply orb_true_r.
  - apply orb_true_iff in H as [H|H]; [rewrite H; reflexivity|].
    fold (fit (upd k f r) w). rewrite (IH H). apply orb_true_r.
Qed.

Lemma fit_upd_new k f n v : (forall o, fits (f o) v = true) -> fit (upd k f n) v = true.
Proof.
  intros Hf. induction n as [|g r IH]; cbn [fit existsb upd].
  - rewrite Hf. reflexivity.
  - destruct (kind_eqb (kind_of g) k); cbn [existsb].
    + rewrite Hf. reflexivity.
    + fold (fit (upd k f r) v). rewrite IH. apply orb_true_r.
Qed.

(* the look-up written inside fits is passoc *)
Lemma look_passoc props k x :
  (fix look (ps : list (str * list strat)) : bool :=
     match ps with
     | [] => false
     | (a, nd) :: r => if str_eqb a k then existsb (fun g' => fits g' x) nd else look r
     end) props
  = match passoc k props with Some nd => fit nd x | None => false end.
Proof.
  induction props as [|[a nd] r IH]; cbn [passoc]; [reflexivity|].
  destruct (str_eqb a k); [reflexivity|exact IH].
Qed.

Lemma forallb_ext' {A} (f g : A -> bool) l : (forall a, f a = g a) -> forallb f l = forallb g l.
Proof. intro H. induction l as [|x r IH]; cbn [forallb]; [reflexivity|]. rewrite H, IH. reflexivity. Qed.

Lemma fits_obj props req m :
  fits (GObj props req) (VObj m)
  = forallb (fun kv => match passoc (fst kv) props with Some nd => fit nd (snd kv) | None => false end) m
    && forallb (fun k => mem_str k (map fst m)) req.
Proof.
  cbn [fits]. f_equal. apply forallb_ext'. intros kv. apply look_passoc.
Qed.

Lemma passoc_upd_same props k f :
  passoc k (upd_prop props k f) = Some (f (match passoc k props with Some n => n | None => [] end)).
Proof.
  induction props as [|[a n] r IH]; cbn [upd_prop passoc].
  - rewrite (proj2 (str_eqb_eq k k) eq_refl). reflexivity.
  - destruct (str_eqb a k) eqn:E; cbn [passoc]; rewrite E; [reflexivity|exact IH].
Qed.

Lemma passoc_upd_other props k k' f : str_eqb k k' = false -> passoc k' (upd_prop props k f) = passoc k' props.
Proof.
  intro Hk. induction props as [|[a n] r IH]; cbn [upd_prop passoc].
  - destruct (str_eqb k k') eqn:E; [congruence|reflexivity].
  - destruct (str_eqb a k) eqn:E; cbn [passoc].
    + apply str_eqb_eq in E. subst a. rewrite Hk. reflexivity.
    + destruct (str_eqb a k'); [reflexivity|exact IH].
Qed.

(* the statement proved by induction over the added value *)
Definition Good (v : json) : Prop :=
  (forall n, fit (add v n) v = true) /\ (forall n w, fit n w = true -> fit (add v n) w = true).

Lemma addall_keeps l : Forall Good l -> forall items w, fit items w = true -> fit (addall l items) w = true.
Proof.
  induction 1 as [|x r [_ Hx] _ IH]; intros items w H; cbn [addall]; auto.
Qed.

Lemma addall_fits l : Forall Good l -> forall items x, In x l -> fit (addall l items) x = true.
Proof.
  induction 1 as [|y r [Hy1 Hy2] Hr IH]; intros items x Hin; cbn [addall]; [contradiction|].
  destruct Hin as [<-|Hin]; [|apply IH; exact Hin].
  apply addall_keeps; auto.
Qed.

(* after addprops m props: every key keeps what fitted, and every member of m fits the node of its key *)
Lemma addprops_keeps m : Forall (fun kv => Good (snd kv)) m ->
  forall props k nd w, passoc k props = Some nd -> fit nd w = true ->
    exists nd', passoc k (addprops m props) = Some nd' /\ fit nd' w = true.
Proof.
  induction 1 as [|[k0 x0] r [_ H0] _ IH]; intros props k nd w Hp Hf; cbn [addprops]; [eauto|].
  cbn [snd] in H0.
  destruct (str_eqb k0 k) eqn:E.
  - apply str_eqb_eq in E. subst k0. eapply IH; [apply passoc_upd_same|]. rewrite Hp. apply H0. exact Hf.
  - eapply IH; [rewrite passoc_upd_other; eauto|exact Hf].
Qed.

Lemma addprops_fits m : Forall (fun kv => Good (snd kv)) m ->
  forall props kv, In kv m -> exists nd, passoc (fst kv) (addprops m props) = Some nd /\ fit nd (snd kv) = true.
Proof.
  induction 1 as [|[k0 x0] r [H1 H2] Hr IH]; intros props kv Hin; cbn [addprops]; [contradiction|].
  cbn [snd] in H1, H2.
  destruct Hin as [<-|Hin]; [|apply IH; exact Hin].
  cbn [fst snd]. eapply addprops_keeps; [exact Hr|apply passoc_upd_same|apply H1].
Qed.

Lemma inter_sub a b k : mem_str k (inter a b) = true -> mem_str k b = true.
Proof.
  induction a as [|x r IH]; cbn [inter mem_str]; [discriminate|].
  destruct (mem_str x b) eqn:E; cbn [mem_str]; auto.
  intro H. apply orb_true_iff in H as [H|H]; auto. apply str_eqb_eq in H. subst x. exact E.
Qed.

Lemma inter_sub_l a b k : mem_str k (inter a b) = true -> mem_str k a = true.
Proof.
  induction a as [|x r IH]; cbn [inter mem_str]; [discriminate|].
  destruct (mem_str x b) eqn:E; cbn [mem_str].
  - intro H. apply orb_true_iff in H as [H|H]; [rewrite H; reflexivity|]. rewrite (IH H). apply orb_true_r.
  - intro H. rewrite (IH H). apply orb_true_r.
Qed.

Theorem add_good : forall v, Good v.
Proof.
  induction v as [|b|z|h|s|l IH|m IH] using json_ind'; split; intros n; try intros w Hw.
  - apply fit_upd_new. intros _. reflexivity.
  - cbn [add]. apply fit_upd; auto. intros g Hk Hg. destruct g; try discriminate. exact Hg.
  - apply fit_upd_new. intros _. reflexivity.
  - cbn [add]. apply fit_upd; auto. intros g Hk Hg. destruct g; try discriminate. exact Hg.
  - apply fit_upd_new. intros [[| |bb| | |]|]; reflexivity.
  - cbn [add]. apply fit_upd; auto. intros g Hk Hg. destruct g; try discriminate. exact Hg.
  - apply fit_upd_new. intros _. reflexivity.
  - cbn [add]. apply fit_upd; auto. intros g Hk Hg. destruct g; try discriminate.
    cbn [fits] in *. destruct w; try discriminate; auto.
  - apply fit_upd_new. intros _. reflexivity.
  - cbn [add]. apply fit_upd; auto. intros g Hk Hg. destruct g; try discriminate. exact Hg.
  - rewrite add_arr. apply fit_upd_new. intros o.
    assert (H : forall items, fits (GList (addall l items)) (VArr l) = true).
    { intros items. cbn [fits]. apply forallb_forall. intros x Hx. apply (addall_fits l IH items x Hx). }
    destruct o as [[| | | |items|]|]; apply H.
  - rewrite add_arr. apply fit_upd; auto. intros g Hk Hg. destruct g; try discriminate.
    cbn [fits] in *. destruct w; try discriminate. apply forallb_forall. intros x Hx.
    eapply forallb_forall in Hg; [|exact Hx]. apply (addall_keeps l IH). exact Hg.
  - rewrite add_obj. apply fit_upd_new. intros o.
    assert (H : forall props req, (forall k, mem_str k req = true -> mem_str k (map fst m) = true) ->
                                  fits (GObj (addprops m props) req) (VObj m) = true).
    { intros props req Hreq. rewrite fits_obj. apply andb_true_iff. split.
      - apply forallb_forall. intros kv Hkv. destruct (addprops_fits m IH props kv Hkv) as [nd [-> Hf]]. exact Hf.
      - apply forallb_forall. intros k Hk. apply Hreq. apply mem_str_In. exact Hk. }
    destruct o as [[| | | | |props req]|]; apply H; auto; intros k; apply inter_sub.
  - rewrite add_obj. apply fit_upd; auto. intros g Hk Hg. destruct g; try discriminate.
    destruct w as [| | | | | |m']; try discriminate. rewrite fits_obj in *.
    apply andb_true_iff in Hg as [Hg1 Hg2]. apply andb_true_iff. split.
    + apply forallb_forall. intros kv Hkv. eapply forallb_forall in Hg1; [|exact Hkv].
      destruct (passoc (fst kv) props) as [nd|] eqn:E; [|discriminate].
      destruct (addprops_keeps m IH props (fst kv) nd (snd kv) E Hg1) as [nd' [-> Hf]]. exact Hf.
    + apply forallb_forall. intros k Hin. eapply forallb_forall in Hg2; [exact Hg2|].
      apply mem_str_In. apply mem_str_In in Hin. eapply inter_sub_l; eauto.
Qed.

(* ==== part 3: what fits a well-formed node is valid under the schema printed for it ============= *)
Lemma jlookup_in k m x : jlookup k m = Some x -> In (k, x) m.
Proof.
  induction m as [|[a v] r IH]; cbn [jlookup]; [discriminate|].
  destruct (str_eqb a k) eqn:E.
  - intro H. injection H as ->. apply str_eqb_eq in E. subst a. left. reflexivity.
  - intro H. right. auto.
Qed.

Lemma jlookup_none k m : jlookup k m = None -> mem_str k (map fst m) = false.
Proof.
  induction m as [|[a v] r IH]; cbn [jlookup map mem_str fst]; [reflexivity|].
  destruct (str_eqb a k) eqn:E; [discriminate|].
  intro H. rewrite (IH H), orb_false_r.
  destruct (str_eqb k a) eqn:E2; [|reflexivity]. apply str_eqb_eq in E2. subst a.
  rewrite (proj2 (str_eqb_eq k k) eq_refl) in E. discriminate.
Qed.

Lemma passoc_nodup props p : nodup_str (map fst props) = true -> In p props -> passoc (fst p) props = Some (snd p).
Proof.
  induction props as [|[a n] r IH]; cbn [map fst nodup_str passoc]; [contradiction|].
  intros H [<-|Hin]; cbn [fst snd].
  - rewrite (proj2 (str_eqb_eq a a) eq_refl). reflexivity.
  - apply andb_true_iff in H as [H1 H2].
    destruct (str_eqb a (fst p)) eqn:E; [|apply IH; auto].
    apply str_eqb_eq in E. subst a. apply negb_true_iff in H1.
    assert (mem_str (fst p) (map fst r) = true) by (apply mem_str_In; apply in_map; exact Hin). congruence.
Qed.

Lemma sat_none z : sat_schema c_none z = true.
Proof. reflexivity. Qed.

Lemma bare_valid g w : bare g = true -> fits g w = true -> valid (bare_schema g) w = true.
Proof.
  destruct g as [| |[|]| |items|props req]; cbn [bare bare_schema fits valid]; intros Hb Hf; auto.
  all: destruct w; try discriminate; auto.
  all: cbn [len_ok andb]; apply forallb_forall; intros; reflexivity.
Qed.

Lemma insert_in g x l : In x (insert_by_rank g l) <-> x = g \/ In x l.
Proof.
  induction l as [|y r IH]; cbn [insert_by_rank].
  - cbn. intuition.
  - destruct (rank g <=? rank y); cbn [In]; [intuition|]. rewrite IH. intuition.
Qed.

Lemma sort_in x l : In x (sort_by_rank l) <-> In x l.
Proof.
  unfold sort_by_rank. induction l as [|y r IH]; cbn [fold_right]; [reflexivity|].
  rewrite insert_in, IH. cbn [In]. intuition.
Qed.

Lemma typed_valid types g w :
  In g types -> bare g = true -> fits g w = true -> valid (typed_schema types) w = true.
Proof.
  intros Hin Hb Hf. unfold typed_schema.
  set (nn := filter (fun g0 => negb (is_gnull g0)) types).
  destruct (is_gnull g) eqn:Eg.
  - destruct g; try discriminate. cbn [fits] in Hf.
    assert (En : existsb is_gnull types = true) by (apply existsb_exists; exists GNull; auto).
    rewrite En. destruct nn as [|x r]; cbn [negb andb].
    + cbn [valid]. exact Hf.
    + cbn [valid]. rewrite Hf. reflexivity.
  - assert (Hnn : In g nn) by (apply filter_In; rewrite Eg; auto).
    assert (Hbase : valid (match nn with [] => SNullT | [x] => bare_schema x | _ => SAny (map bare_schema nn) end) w = true).
    { destruct nn as [|x [|y r]]; [contradiction| |].
      - destruct Hnn as [->|[]]. apply bare_valid; auto.
      - cbn [valid]. apply existsb_exists. exists (bare_schema g). split; [apply in_map; exact Hnn|apply bare_valid; auto]. }
    destruct (existsb is_gnull types && negb match nn with [] => true | _ => false end); [|exact Hbase].
    cbn [valid]. rewrite Hbase. apply orb_true_r.
Qed.

Lemma pick_valid all w : (exists s, In s all /\ valid s w = true) ->
  valid (match all with [] => SAnyT | [x] => x | _ => SAny all end) w = true.
Proof.
  intros [s [Hin Hv]]. destruct all as [|x [|y r]]; [contradiction| |].
  - destruct Hin as [->|[]]. exact Hv.
  - cbn [valid]. apply existsb_exists. eauto.
Qed.

Lemma node_valid (f : strat -> schema) n w :
  (forall g, In g n -> bare g = false -> fits g w = true -> valid (f g) w = true) ->
  fit n w = true -> valid (node_schema_with f n) w = true.
Proof.
  intros Hf H. unfold fit in H. apply existsb_exists in H as [g [Hin Hg]].
  unfold node_schema_with. apply pick_valid.
  destruct (bare g) eqn:Eb.
  - assert (Hs : In g (sort_by_rank (filter bare n))) by (apply sort_in, filter_In; auto).
    exists (typed_schema (sort_by_rank (filter bare n))). split.
    + apply in_or_app. left. destruct (sort_by_rank (filter bare n)); [contradiction|left; reflexivity].
    + eapply typed_valid; eauto.
  - exists (f g). split.
    + apply in_or_app. right. apply in_flat_map. exists g. split; [exact Hin|]. rewrite Eb. left. reflexivity.
    + apply Hf; auto.
Qed.

Theorem fits_valid : forall g w, wf_strat g = true -> fits g w = true -> valid (schema_of g) w = true.
Proof.
  induction g as [| |b| |items IH|props req IH] using strat_ind'; intros w Hwf Hf.
  - exact Hf.
  - exact Hf.
  - destruct b; cbn [schema_of fits valid] in *; destruct w; try discriminate; auto.
  - exact Hf.
  - cbn [schema_of fits valid wf_strat] in *. destruct w; try discriminate. cbn [len_ok andb].
    apply forallb_forall. intros x Hx. eapply forallb_forall in Hf; [|exact Hx].
    apply node_valid; [|exact Hf]. intros g Hg _ Hfit. rewrite Forall_forall in IH. apply IH; auto.
    eapply forallb_forall in Hwf; eauto.
  - destruct w as [| | | | | |m]; try discriminate. rewrite fits_obj in Hf. apply andb_true_iff in Hf as [Hf1 Hf2].
    cbn [wf_strat] in Hwf. apply andb_true_iff in Hwf as [Hnd Hwf].
    cbn [schema_of]. destruct props as [|p0 props']; [cbn [valid]; apply forallb_forall; intros; reflexivity|].
    set (props := p0 :: props') in *. cbn [valid]. rewrite andb_true_r.
    apply forallb_forall. intros q Hq. apply in_map_iff in Hq as [p [<- Hp]]. cbn [fst snd].
    destruct (jlookup (fst p) m) as [x|] eqn:E.
    + apply jlookup_in in E. eapply forallb_forall in Hf1; [|exact E]. cbn [fst snd] in Hf1.
      rewrite (passoc_nodup props p Hnd Hp) in Hf1.
      apply node_valid; [|exact Hf1]. intros g Hg _ Hfit.
      rewrite Forall_forall in IH. specialize (IH p Hp). rewrite Forall_forall in IH. apply IH; auto.
      eapply forallb_forall in Hwf; [|exact Hp]. eapply forallb_forall in Hwf; eauto.
    + apply jlookup_none in E. apply negb_true_iff.
      destruct (mem_str (fst p) req) eqn:Er; [|reflexivity].
      apply mem_str_In in Er. eapply forallb_forall in Hf2; [|exact Er]. congruence.
Qed.

Theorem node_fits_valid n w : wf_node n = true -> fit n w = true -> valid (to_schema n) w = true.
Proof.
  intros Hwf Hf. unfold to_schema. apply node_valid; [|exact Hf].
  intros g Hg _ Hfit. apply fits_valid; auto. unfold wf_node in Hwf. eapply forallb_forall in Hwf; eauto.
Qed.

(* ==== part 4: inferred nodes are well formed, their schemas are in the supported sub-language ==== *)
Lemma wf_upd k f n :
  (forall o, match o with Some g => wf_strat g = true | None => True end -> wf_strat (f o) = true) ->
  wf_node n = true -> wf_node (upd k f n) = true.
Proof.
  intros Hf. unfold wf_node. induction n as [|g r IH]; cbn [upd forallb]; intro H.
  - rewrite (Hf None I). reflexivity.
  - apply andb_true_iff in H as [H1 H2]. destruct (kind_eqb (kind_of g) k); cbn [forallb].
    + rewrite (Hf (Some g) H1), H2. reflexivity.
    + rewrite H1, (IH H2). reflexivity.
Qed.

Definition wfp (props : list (str * node)) : bool :=
  nodup_str (map fst props) && forallb (fun p => forallb wf_strat (snd p)) props.

Lemma mem_str_app x l k : mem_str x (l ++ [k]) = mem_str x l || str_eqb x k.
Proof. induction l as [|y r IH]; cbn [app mem_str]; [rewrite orb_false_r; reflexivity|]. rewrite IH, orb_assoc. reflexivity. Qed.

Lemma nodup_app_one l k : nodup_str l = true -> mem_str k l = false -> nodup_str (l ++ [k]) = true.
Proof.
  induction l as [|y r IH]; cbn [app nodup_str mem_str]; auto.
  intros H Hk. apply andb_true_iff in H as [H1 H2]. apply orb_false_iff in Hk as [Hk1 Hk2].
  rewrite (IH H2 Hk2), andb_true_r. rewrite mem_str_app. apply negb_true_iff in H1. rewrite H1. cbn [orb].
  apply negb_true_iff. destruct (str_eqb y k) eqn:E; [|reflexivity].
  apply str_eqb_eq in E. subst y. rewrite (proj2 (str_eqb_eq k k) eq_refl) in Hk1. discriminate.
Qed.

Lemma upd_prop_keys props k f :
  map fst (upd_prop props k f) = if mem_str k (map fst props) then map fst props else map fst props ++ [k].
Proof.
  induction props as [|[a n] r IH]; cbn [upd_prop map fst mem_str app]; [reflexivity|].
  destruct (str_eqb a k) eqn:E.
  - apply str_eqb_eq in E. subst a. rewrite (proj2 (str_eqb_eq k k) eq_refl). reflexivity.
  - cbn [map fst]. rewrite IH.
    destruct (str_eqb k a) eqn:E2.
    + apply str_eqb_eq in E2. subst a. rewrite (proj2 (str_eqb_eq k k) eq_refl) in E. discriminate.
    + cbn [orb]. destruct (mem_str k (map fst r)); reflexivity.
Qed.

Lemma wfp_upd props k f :
  (forall n, forallb wf_strat n = true -> forallb wf_strat (f n) = true) ->
  wfp props = true -> wfp (upd_prop props k f) = true.
Proof.
  intros Hf H. unfold wfp in *. apply andb_true_iff in H as [H1 H2]. apply andb_true_iff. split.
  - rewrite upd_prop_keys. destruct (mem_str k (map fst props)) eqn:E; [exact H1|]. apply nodup_app_one; auto.
  - clear H1. induction props as [|[a n] r IH]; cbn [upd_prop forallb snd].
    + rewrite (Hf [] eq_refl). reflexivity.
    + cbn [forallb snd] in H2. apply andb_true_iff in H2 as [Ha Hr].
      destruct (str_eqb a k); cbn [forallb snd].
      * rewrite (Hf n Ha), Hr. reflexivity.
      * rewrite Ha, (IH Hr). reflexivity.
Qed.

Definition Keeps (v : json) : Prop := forall n, wf_node n = true -> wf_node (add v n) = true.

Lemma addall_wf l : Forall Keeps l -> forall items, wf_node items = true -> wf_node (addall l items) = true.
Proof. induction 1 as [|x r Hx _ IH]; intros items H; cbn [addall]; auto. Qed.

Lemma addprops_wf m : Forall (fun kv => Keeps (snd kv)) m -> forall props, wfp props = true -> wfp (addprops m props) = true.
Proof.
  induction 1 as [|[k x] r Hx _ IH]; intros props H; cbn [addprops]; auto.
  apply IH. apply wfp_upd; auto.
Qed.

Theorem add_keeps_wf : forall v, Keeps v.
Proof.
  induction v as [|b|z|h|s|l IH|m IH] using json_ind'; intros n Hn; try rewrite add_arr; try rewrite add_obj; cbn [add].
  1-5: apply wf_upd; auto; intros o Ho; try reflexivity.
  - destruct o as [[| |bb| | |]|]; reflexivity.
  - apply wf_upd; auto. intros o Ho.
    destruct o as [[| | | |items|]|]; cbn [wf_strat] in *; apply (addall_wf l IH); auto.
  - apply wf_upd; auto. intros o Ho.
    assert (H : forall props req, wfp props = true -> wf_strat (GObj (addprops m props) req) = true).
    { intros props req Hp. exact (addprops_wf m IH props Hp). }
    destruct o as [[| | | | |props req]|]; apply H; auto.
Qed.

Lemma bare_supported g : supported (bare_schema g) = true.
Proof. destruct g as [| |[|]| | |]; reflexivity. Qed.

Lemma typed_supported types : supported (typed_schema types) = true.
Proof.
  unfold typed_schema. set (nn := filter (fun g => negb (is_gnull g)) types).
  assert (H : supported (match nn with [] => SNullT | [x] => bare_schema x | _ => SAny (map bare_schema nn) end) = true).
  { destruct nn as [|x [|y r]]; [reflexivity|apply bare_supported|].
    cbn [supported]. apply forallb_forall. intros s Hs. apply in_map_iff in Hs as [g [<- _]]. apply bare_supported. }
  destruct (existsb is_gnull types && negb match nn with [] => true | _ => false end); [cbn [supported]|]; exact H.
Qed.

Lemma node_supported (f : strat -> schema) n :
  (forall g, In g n -> supported (f g) = true) -> supported (node_schema_with f n) = true.
Proof.
  intros Hf. unfold node_schema_with.
  set (all := _ ++ _).
  assert (H : forall s, In s all -> supported s = true).
  { intros s Hs. apply in_app_or in Hs as [Hs|Hs].
    - destruct (sort_by_rank (filter bare n)); [contradiction|]. destruct Hs as [<-|[]]. apply typed_supported.
    - apply in_flat_map in Hs as [g [Hg Hs]]. destruct (bare g); [contradiction|]. destruct Hs as [<-|[]]. apply Hf. exact Hg. }
  destruct all as [|x [|y r]]; [reflexivity|apply H; left; reflexivity|].
  cbn [supported]. apply forallb_forall. exact H.
Qed.

Theorem schema_supported : forall g, wf_strat g = true -> supported (schema_of g) = true.
Proof.
  induction g as [| |b| |items IH|props req IH] using strat_ind'; intros Hwf; try reflexivity.
  - destruct b; reflexivity.
  - cbn [schema_of supported wf_strat] in *. apply node_supported. intros g Hg.
    rewrite Forall_forall in IH. apply IH; auto. eapply forallb_forall in Hwf; eauto.
  - cbn [wf_strat] in Hwf. apply andb_true_iff in Hwf as [Hnd Hwf].
    cbn [schema_of]. destruct props as [|p0 props']; [reflexivity|]. set (props := p0 :: props') in *.
    cbn [supported]. apply andb_true_iff. split.
    + rewrite map_map. cbn [fst]. exact Hnd.
    + apply forallb_forall. intros q Hq. apply in_map_iff in Hq as [p [<- Hp]]. cbn [fst snd].
      apply node_supported. intros g Hg.
      rewrite Forall_forall in IH. specialize (IH p Hp). rewrite Forall_forall in IH. apply IH; auto.
      eapply forallb_forall in Hwf; [|exact Hp]. eapply forallb_forall in Hwf; eauto.
Qed.

(* ==== the theorems ============================================================================= *)
Theorem infer_wf d : wf_node (infer d) = true.
Proof. apply add_keeps_wf. reflexivity. Qed.

Theorem infer_valid d : valid (to_schema (infer d)) d = true.
Proof. apply node_fits_valid; [apply infer_wf|]. apply (proj1 (add_good d)). Qed.

Theorem infer_supported d : supported (to_schema (infer d)) = true.
Proof.
  unfold to_schema. apply node_supported. intros g Hg. apply schema_supported.
  pose proof (infer_wf d) as H. unfold wf_node in H. eapply forallb_forall in H; eauto.
Qed.

(* a second sample merged into the same node keeps the first one valid (arrays of samples, repeated add_object) *)
Theorem infer_monotone d1 d2 : valid (to_schema (add d2 (infer d1))) d1 = true.
Proof.
  apply node_fits_valid; [apply add_keeps_wf; apply infer_wf|].
  apply (proj2 (add_good d2)). apply (proj1 (add_good d1)).
Qed.
