(* Proofs about M11 (EnumModel.v), generic in the Unicode tables and the escape table. *)
From Coq Require Import Lia ZArith.
From DMCG Require Import EnumModel IdentProofs EscapeProofs.
Open Scope N_scope.

Section Proofs.
Context (U : utab) (tbl : etable).
Context (HU : utab_ok U = true) (HT : sq_table_ok tbl = true).

(* members: legal, pairwise distinct names; one member per value, in order *)
Theorem enum_members_names o t : forall vs varnames excl,
  prefix_ok U (o_prefix o) = true ->
  exists l, enum_members U tbl o t varnames excl vs = Some l
    /\ List.length l = List.length vs
    /\ NoDup (map fst l)
    /\ (forall n, In n (map fst l) -> ~ In n excl /\ legal U n = true /\ str_eqb n s_mro = false)
    /\ map snd l = map (member_lit tbl t) vs.
Proof.
  induction vs as [|v r IH]; intros varnames excl HP.
  - exists []. cbn. repeat split; auto; try constructor; intros; contradiction.
  - cbn [enum_members].
    set (src := member_name_src t match varnames with Some (n :: _) => Some n | _ => None end v).
    destruct (gvn_total U HU Enm o excl false src HP) as [name [E [L [M [H [_ A]]]]]].
    rewrite E.
    destruct (IH match varnames with Some (_ :: ns) => Some ns | _ => varnames end (name :: excl) HP)
      as [l [El [Len [ND [Hin Hl]]]]].
    rewrite El. exists ((name, member_lit tbl t v) :: l).
    split; [reflexivity|]. split; [cbn [List.length]; f_equal; exact Len|].
    split; [|split].
    + cbn [map fst]. constructor; [|exact ND]. intro Hn. apply Hin in Hn as [Hn _]. apply Hn. left. reflexivity.
    + intros n Hn. cbn [map fst In] in Hn. destruct Hn as [<-|Hn].
      * repeat split; auto. intro Hx. apply mem_str_In in Hx. congruence.
      * destruct (Hin n Hn) as [N1 [N2 N3]]. repeat split; auto. intro Hx. apply N1. right. exact Hx.
    + cbn [map snd]. f_equal. exact Hl.
Qed.

(* each member's literal evaluates to exactly the schema's value: same JSON type, same content *)
Lemma member_lit_value t v : lit_value (member_lit tbl t v) = Some v.
Proof.
  destruct v; try reflexivity. cbn [member_lit lit_value].
  change (translate tbl s ++ [39]) with (translate tbl s ++ 39 :: []).
  rewrite (sq_roundtrip tbl HT s [] []). reflexivity.
Qed.

Theorem enum_values_preserved o t varnames vs l :
  parse_enum U tbl o t varnames vs = Some l ->
  prefix_ok U (o_prefix o) = true ->
  map (fun p => lit_value (snd p)) l = map Some (enum_values t vs).
Proof.
  unfold parse_enum. intros E HP.
  destruct (enum_members_names o t (enum_values t vs) varnames [] HP) as [l' [E' [_ [_ [_ Hl]]]]].
  rewrite E in E'. injection E' as <-.
  rewrite <- (map_map snd lit_value), Hl, map_map.
  apply map_ext. intro v. apply member_lit_value.
Qed.

(* a null entry of a string enum never becomes a member; it makes the type nullable instead *)
Theorem enum_null_not_member t vs :
  enum_nullable t vs = true ->
  forallb (fun v => negb (is_null v)) (enum_values t vs) = true
  /\ (forall v, In v vs -> is_null v = false -> In v (enum_values t vs)).
Proof.
  intro H. unfold enum_values. rewrite H. split.
  - apply forallb_forall. intros v Hv. apply filter_In in Hv. tauto.
  - intros v Hv Hn. apply filter_In. split; [exact Hv|]. rewrite Hn. reflexivity.
Qed.

(* literal mode: exactly the non-null values, in order *)
Theorem literal_mode_values vs v :
  In v (parse_enum_as_literal vs) <-> In v vs /\ is_null v = false.
Proof.
  unfold parse_enum_as_literal. rewrite filter_In. split; intros [H1 H2]; split; auto.
  - apply negb_true_iff in H2. exact H2.
  - rewrite H2. reflexivity.
Qed.

End Proofs.
