(* Proofs about M2: table-generic round trips.  props/C10.v instantiates them with the tables
   reflected from /repo on this run (the side conditions are then closed by computation). *)
From Coq Require Import Lia.
From DMCG Require Import Escape.
Open Scope N_scope.
Arguments N.eqb : simpl never.
Arguments N.leb : simpl never.
Arguments N.mul : simpl never.
Arguments N.add : simpl never.

Lemma elookup_forall (P : N -> str -> bool) t c v :
  forallb (fun kv => P (fst kv) (snd kv)) t = true -> elookup t c = Some v -> P c v = true.
Proof.
  induction t as [|[k w] t IH]; cbn [elookup forallb fst snd]; [discriminate|].
  intros H E. apply andb_true_iff in H as [H1 H2].
  destruct (k =? c) eqn:K.
  - apply N.eqb_eq in K. subst k. injection E as <-. exact H1.
  - auto.
Qed.

Lemma nokey_not_special t c (L : list N) :
  forallb (has_key t) L = true -> elookup t c = None -> mem_N c L = false.
Proof.
  induction L as [|k L IH]; cbn [forallb mem_N]; [reflexivity|].
  intros H E. apply andb_true_iff in H as [H1 H2].
  destruct (c =? k) eqn:K.
  - apply N.eqb_eq in K. subst k. unfold has_key in H1. rewrite E in H1. discriminate.
  - cbn [orb]. auto.
Qed.

(* ---------- '...' literals ---------- *)

Lemma sq_special_spec c : sq_special c = mem_N c [0; 10; 13; 39; 92].
Proof. unfold sq_special. cbn [mem_N]. rewrite orb_false_r, !orb_assoc. reflexivity. Qed.

Lemma lex_sq_plain c acc rest :
  sq_special c = false -> lex_sq LNorm acc (c :: rest) = lex_sq LNorm (c :: acc) rest.
Proof.
  intro H. cbn [lex_sq]. rewrite H.
  unfold sq_special in H. repeat (apply orb_false_iff in H as [H ?]).
  repeat match goal with E : (c =? _) = false |- _ => rewrite E; clear E end. reflexivity.
Qed.

Lemma sq_step t c acc rest :
  sq_table_ok t = true -> lex_sq LNorm acc (enc t c ++ rest) = lex_sq LNorm (c :: acc) rest.
Proof.
  unfold sq_table_ok. intro H. apply andb_true_iff in H as [H1 H2]. unfold enc.
  destruct (elookup t c) as [v|] eqn:E.
  - pose proof (elookup_forall shape_ok t c v H1 E) as S. unfold shape_ok in S.
    destruct v as [|b [|e [|h [|l [|z v]]]]]; try discriminate.
    + (* one plain character *)
      apply andb_true_iff in S as [S1 S2]. apply N.eqb_eq in S1. subst b.
      apply negb_true_iff in S2. cbn [app]. apply lex_sq_plain. exact S2.
    + (* backslash + simple escape *)
      apply andb_true_iff in S as [S1 S2]. apply N.eqb_eq in S1. subst b.
      destruct (simple_escape e) as [c'|] eqn:SE; [|discriminate]. apply N.eqb_eq in S2. subst c'.
      cbn [app lex_sq]. change (92 =? 39) with false. change (92 =? 92) with true. cbn iota.
      rewrite SE. reflexivity.
    + (* backslash x h l *)
      apply andb_true_iff in S as [S1 S3]. apply andb_true_iff in S1 as [S1 S2].
      apply N.eqb_eq in S1, S2. subst b e.
      destruct (hexval h) as [a|] eqn:HH; [|discriminate].
      destruct (hexval l) as [d|] eqn:HL; [|discriminate]. apply N.eqb_eq in S3.
      cbn [app lex_sq]. change (92 =? 39) with false. change (92 =? 92) with true. cbn iota.
      change (simple_escape 120) with (@None N). cbn iota. change (120 =? 120) with true. cbn iota.
      rewrite HH, HL, S3. reflexivity.
  - cbn [app]. apply lex_sq_plain. rewrite sq_special_spec.
    eapply nokey_not_special; eauto.
Qed.

Theorem sq_roundtrip t :
  sq_table_ok t = true ->
  forall s acc rest, lex_sq LNorm acc (translate t s ++ 39 :: rest) = Some (rev acc ++ s, rest).
Proof.
  intros H s. induction s as [|c s IH]; intros acc rest.
  - cbn [translate flat_map app lex_sq]. change (39 =? 39) with true. cbn iota. rewrite app_nil_r. reflexivity.
  - unfold translate. cbn [flat_map]. rewrite <- app_assoc. rewrite (sq_step t c acc _ H).
    fold (translate t s). rewrite IH. cbn [rev]. rewrite <- app_assoc. reflexivity.
Qed.

(* ---------- r'...' literals ---------- *)

Lemma lex_raw_plain c acc rest :
  sq_special c = false -> lex_raw false acc (c :: rest) = lex_raw false (c :: acc) rest.
Proof.
  intro H. cbn [lex_raw].
  unfold sq_special in H. repeat (apply orb_false_iff in H as [H ?]).
  repeat match goal with E : (c =? _) = false |- _ => rewrite E; clear E end. reflexivity.
Qed.

Lemma lex_raw_esc c acc rest :
  ((c =? 0) || (c =? 10) || (c =? 13)) = false ->
  lex_raw true acc (c :: rest) = lex_raw false (c :: acc) rest.
Proof. intro H. cbn [lex_raw]. rewrite H. reflexivity. Qed.

(* an entry value, read from the normal state, is copied to the value and ends in the normal state *)
Lemma raw_entry v acc rest :
  raw_shape_ok v = true -> lex_raw false acc (v ++ rest) = lex_raw false (rev v ++ acc) rest.
Proof.
  unfold raw_shape_ok. destruct v as [|b [|e [|z v]]]; try discriminate; intro S.
  - apply negb_true_iff in S. cbn [app rev]. apply lex_raw_plain. exact S.
  - apply andb_true_iff in S as [S1 S2]. apply N.eqb_eq in S1. subst b. apply negb_true_iff in S2.
    cbn [app rev]. cbn [lex_raw]. change (92 =? 39) with false. change (92 =? 92) with true. cbn iota.
    rewrite S2. reflexivity.
Qed.

Lemma raw_step t c acc rest :
  raw_table_ok t = true -> (c =? 92) = false -> (c =? 0) = false ->
  lex_raw false acc (enc t c ++ rest) = lex_raw false (rev (enc t c) ++ acc) rest.
Proof.
  unfold raw_table_ok. intros H N92 N0. apply andb_true_iff in H as [H1 H2]. unfold enc.
  destruct (elookup t c) as [v|] eqn:E.
  - pose proof (elookup_forall (fun k w => raw_shape_ok w && negb (k =? 92)) t c v H1 E) as S.
    apply andb_true_iff in S as [S _]. apply raw_entry. exact S.
  - cbn [app rev]. apply lex_raw_plain. unfold sq_special.
    pose proof (nokey_not_special t c [10; 13; 39] H2 E) as M. cbn [mem_N] in M.
    apply orb_false_iff in M as [M10 M]. apply orb_false_iff in M as [M13 M].
    apply orb_false_iff in M as [M39 _].
    rewrite N0, M10, M13, M39, N92. reflexivity.
Qed.

Theorem raw_one_token t :
  raw_table_ok t = true ->
  forall s acc rest, raw_safe t false s = true ->
    lex_raw false acc (translate t s ++ 39 :: rest) = Some (rev acc ++ translate t s, rest).
Proof.
  intros H s.
  assert (forall s acc rest,
            (raw_safe t false s = true ->
             lex_raw false acc (translate t s ++ 39 :: rest) = Some (rev acc ++ translate t s, rest)) /\
            (raw_safe t true s = true ->
             lex_raw true acc (translate t s ++ 39 :: rest) = Some (rev acc ++ translate t s, rest))) as K.
  { clear s. induction s as [|c s IH]; intros acc rest; split; intro S.
    - cbn [translate flat_map app lex_raw]. change (39 =? 39) with true. cbn iota. rewrite app_nil_r. reflexivity.
    - cbn [raw_safe negb] in S. discriminate.
    - cbn [raw_safe] in S. unfold translate. cbn [flat_map]. fold (translate t s). rewrite <- app_assoc.
      destruct (c =? 92) eqn:C92.
      + (* a backslash of the pattern: it has no entry (keys are never 92), stays as is *)
        apply N.eqb_eq in C92. subst c.
        assert (enc t 92 = [92]) as E92.
        { unfold enc. destruct (elookup t 92) as [v|] eqn:E; [|reflexivity].
          unfold raw_table_ok in H. apply andb_true_iff in H as [H1 _].
          pose proof (elookup_forall (fun k w => raw_shape_ok w && negb (k =? 92)) t 92 v H1 E) as X.
          apply andb_true_iff in X as [_ X]. discriminate. }
        rewrite E92. cbn [app lex_raw]. change (92 =? 39) with false. change (92 =? 92) with true. cbn iota.
        destruct (IH (92 :: acc) rest) as [_ IH2]. rewrite (IH2 S). cbn [rev]. rewrite <- app_assoc. reflexivity.
      + apply andb_true_iff in S as [S0 S]. apply negb_true_iff in S0.
        rewrite (raw_step t c acc _ H C92 S0).
        destruct (IH (rev (enc t c) ++ acc) rest) as [IH1 _]. rewrite (IH1 S).
        rewrite rev_app_distr, rev_involutive, <- app_assoc. reflexivity.
    - cbn [raw_safe] in S. apply andb_true_iff in S as [S S3]. apply andb_true_iff in S as [S1 S2].
      apply negb_true_iff in S1, S2. unfold translate. cbn [flat_map]. fold (translate t s).
      assert (enc t c = [c]) as Ec.
      { unfold enc. unfold has_key in S1. destruct (elookup t c); [discriminate | reflexivity]. }
      rewrite Ec. cbn [app]. rewrite lex_raw_esc.
      + destruct (IH (c :: acc) rest) as [IH1 _]. rewrite (IH1 S3). cbn [rev]. rewrite <- app_assoc. reflexivity.
      + unfold sq_special in S2. repeat (apply orb_false_iff in S2 as [S2 ?]).
        repeat match goal with X : (c =? _) = false |- _ => rewrite X; clear X end. reflexivity. }
  intros acc rest S. destruct (K s acc rest) as [K1 _]. auto.
Qed.

(* ---------- docstrings ---------- *)

Definition close_doc (rest : str) : str := 10 :: 34 :: 34 :: 34 :: rest.

Lemma lex_tq_flush p rest :
  lex_tq TQ0 (flush p ++ close_doc rest) = Some rest.
Proof. destruct p; reflexivity. Qed.

Lemma lex_tq_enc1 p c tail :
  (c =? 34) = false ->
  lex_tq TQ0 (flush p ++ doc_enc1 c ++ tail) = lex_tq TQ0 tail.
Proof.
  intro Q. unfold doc_enc1.
  destruct (c =? 92) eqn:B; [|destruct (c =? 0) eqn:Z].
  - destruct p; reflexivity.
  - destruct p; reflexivity.
  - destruct p; cbn [flush app lex_tq]; change (34 =? 34) with true; cbn iota; rewrite ?Q, ?B, ?Z; reflexivity.
Qed.

Theorem docstring_one_token s : forall rest,
  lex_tq TQ0 (10 :: doc_enc P0 s ++ close_doc rest) = Some rest.
Proof.
  assert (forall s p rest, lex_tq TQ0 (doc_enc p s ++ close_doc rest) = Some rest) as K.
  { clear s. induction s as [|c s IH]; intros p rest.
    - cbn [doc_enc]. apply lex_tq_flush.
    - cbn [doc_enc]. destruct (c =? 34) eqn:Q.
      + destruct p; apply IH.
      + rewrite <- !app_assoc. rewrite (lex_tq_enc1 p c _ Q). apply IH. }
  intro rest. cbn [lex_tq]. change (10 =? 34) with false. change (10 =? 92) with false.
  change (10 =? 0) with false. cbn iota. apply K.
Qed.
