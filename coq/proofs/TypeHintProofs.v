(* Proofs about M3 (TypeHint.v). *)
From Coq Require Import Lia.
From DMCG Require Import TypeHint.
Open Scope N_scope.
Arguments N.eqb : simpl never.

(* a proper induction principle for the nested type hint *)
Section HintInd.
Context (P : hint -> Prop).
Context (Patom : forall s, P (HAtom s)).
Context (Plit : forall l, P (HLit l)).
Context (Psub : forall h l, Forall P l -> P (HSub h l)).
Context (Punion : forall l, Forall P l -> P (HUnion l)).
Context (Popt : forall h, P h -> P (HOpt h)).
Context (Pnone : P HNone).
Context (Pempty : P HEmpty).
Fixpoint hint_ind' (h : hint) : P h :=
  match h with
  | HAtom s => Patom s
  | HLit l => Plit l
  | HSub hd l => Psub hd l ((fix go (l : list hint) : Forall P l :=
                               match l with [] => Forall_nil _ | x :: r => Forall_cons _ (hint_ind' x) (go r) end) l)
  | HUnion l => Punion l ((fix go (l : list hint) : Forall P l :=
                             match l with [] => Forall_nil _ | x :: r => Forall_cons _ (hint_ind' x) (go r) end) l)
  | HOpt x => Popt x (hint_ind' x)
  | HNone => Pnone
  | HEmpty => Pempty
  end.
End HintInd.

(* ---------- alternatives of the top-level chain ---------- *)

Definition is_leaf (h : hint) : bool := match h with HOpt _ | HUnion _ => false | _ => true end.

Lemma chain_leaves h : Forall (fun x => is_leaf x = true) (chain h).
Proof.
  induction h using hint_ind'; cbn [chain]; try (constructor; [reflexivity | constructor]).
  - induction H as [|x l Hx Hl IH]; cbn [flat_map]; [constructor|]. apply Forall_app. split; assumption.
  - apply Forall_app. split; [exact IHh | constructor; [reflexivity | constructor]].
Qed.

Lemma chain_leaf h : is_leaf h = true -> chain h = [h].
Proof. destruct h; cbn; intro H; try reflexivity; discriminate. Qed.

Lemma flat_map_chain_leaves l : Forall (fun x => is_leaf x = true) l -> flat_map chain l = l.
Proof.
  induction 1 as [|x l Hx Hl IH]; cbn [flat_map]; [reflexivity|].
  rewrite (chain_leaf x Hx), IH. reflexivity.
Qed.

Definition count_none (l : list hint) : nat := List.length (filter is_hnone l).

Lemma chain_of_parts l :
  Forall (fun x => is_leaf x = true) l -> l <> [] -> chain (of_parts l) = l.
Proof.
  intros Hl Hne. destruct l as [|x [|y r]]; [congruence| |].
  - cbn [of_parts]. apply chain_leaf. inversion Hl; assumption.
  - cbn [of_parts chain]. apply flat_map_chain_leaves. exact Hl.
Qed.

Lemma filter_leaves (f : hint -> bool) l :
  Forall (fun x => is_leaf x = true) l -> Forall (fun x => is_leaf x = true) (filter f l).
Proof.
  induction 1 as [|x l Hx Hl IH]; cbn [filter]; [constructor|]. destruct (f x); [constructor|]; assumption.
Qed.

Lemma count_none_filter l : count_none (filter (fun x => negb (is_hnone x)) l) = 0%nat.
Proof.
  unfold count_none. induction l as [|x l IH]; cbn [filter]; [reflexivity|].
  destruct (is_hnone x) eqn:E; cbn [negb filter]; [exact IH|]. rewrite E. exact IH.
Qed.

(* operator spelling: removing None leaves no None in the chain (or the type was only None) *)
Theorem rn_op_none_free h :
  rn_op h = HNone \/ count_none (chain (rn_op h)) = 0%nat.
Proof.
  assert (forall l, Forall (fun x => is_leaf x = true) l ->
            of_parts (filter (fun x => negb (is_hnone x)) l) = HNone
            \/ count_none (chain (of_parts (filter (fun x => negb (is_hnone x)) l))) = 0%nat) as K.
  { intros l Hl. destruct (filter (fun x => negb (is_hnone x)) l) as [|a r] eqn:E; [left; reflexivity|].
    right. rewrite chain_of_parts; [| rewrite <- E; apply filter_leaves; exact Hl | discriminate].
    rewrite <- E. apply count_none_filter. }
  destruct h; cbn [rn_op]; try (right; reflexivity); try (left; reflexivity).
  - apply K. apply (chain_leaves (HUnion alts)).
  - apply K. apply (chain_leaves (HOpt h)).
Qed.

(* making a type optional, operator spelling: every non-None alternative is kept, None appears
   exactly once (at the end) *)
Lemma rn_op_nonleaf h : is_leaf h = false ->
  rn_op h = of_parts (filter (fun x => negb (is_hnone x)) (chain h)).
Proof. destruct h; cbn [is_leaf]; intro H; try discriminate; reflexivity. Qed.

Lemma rn_op_leaf h : is_leaf h = true -> rn_op h = h.
Proof. destruct h; cbn [is_leaf]; intro H; try discriminate; reflexivity. Qed.

Theorem make_optional_op_alternatives o h :
  uo o = true -> forallb (fun x => negb (is_hempty x)) (chain h) = true ->
  (forall x, In x (chain h) -> is_hnone x = true) /\ make_optional o h = HNone
  \/ chain (make_optional o h) = filter (fun x => negb (is_hnone x)) (chain h) ++ [HNone].
Proof.
  intros Hu Hne. unfold make_optional, rn. rewrite Hu.
  destruct (is_leaf h) eqn:L.
  - assert (is_hempty h = false) as He.
    { rewrite (chain_leaf h L) in Hne. cbn [forallb] in Hne. apply andb_true_iff in Hne as [Hne _].
      apply negb_true_iff in Hne. exact Hne. }
    rewrite (rn_op_leaf h L), He. cbn [orb]. rewrite (chain_leaf h L).
    destruct (is_hnone h) eqn:N.
    + left. split; [|reflexivity]. intros x [<-|[]]. exact N.
    + right. cbn [chain filter]. rewrite N. cbn [negb app]. rewrite (chain_leaf h L). reflexivity.
  - rewrite (rn_op_nonleaf h L).
    set (l := filter (fun x => negb (is_hnone x)) (chain h)).
    assert (Forall (fun x => is_leaf x = true) l) as Hl by (apply filter_leaves, chain_leaves).
    destruct l as [|a r] eqn:E.
    + left. split; [|reflexivity]. intros x Hx.
      destruct (is_hnone x) eqn:N; [reflexivity|exfalso].
      assert (In x l) as Hin by (subst l; apply filter_In; split; [exact Hx | rewrite N; reflexivity]).
      rewrite E in Hin. destruct Hin.
    + right. assert (is_hempty (of_parts (a :: r)) = false /\ is_hnone (of_parts (a :: r)) = false) as [H1 H2].
      { destruct r; cbn [of_parts]; [|split; reflexivity].
        assert (In a l) as Ha by (rewrite E; left; reflexivity).
        subst l. apply filter_In in Ha as [Hc Hn]. apply negb_true_iff in Hn.
        rewrite forallb_forall in Hne. specialize (Hne a Hc). apply negb_true_iff in Hne.
        split; assumption. }
      rewrite H1, H2. cbn [orb chain]. rewrite chain_of_parts; [reflexivity | exact Hl | discriminate].
Qed.

(* ---------- printing: brackets are balanced ---------- *)

Fixpoint scan (d : nat) (s : str) : option nat :=
  match s with
  | [] => Some d
  | c :: r => if c =? 91 then scan (S d) r
              else if c =? 93 then match d with O => None | S d' => scan d' r end
              else scan d r
  end.

Definition balanced (s : str) : Prop := forall d, scan d s = Some d.

Lemma scan_app a : forall d b, scan d (a ++ b) = match scan d a with Some d' => scan d' b | None => None end.
Proof.
  induction a as [|c a IH]; intros d b; cbn [app scan]; [reflexivity|].
  destruct (c =? 91); [apply IH|]. destruct (c =? 93); [destruct d; [reflexivity | apply IH] | apply IH].
Qed.

Lemma balanced_app a b : balanced a -> balanced b -> balanced (a ++ b).
Proof. intros Ha Hb d. rewrite scan_app, Ha. apply Hb. Qed.

Lemma balanced_brackets a : balanced a -> balanced (91 :: a ++ [93]).
Proof.
  intros Ha d. cbn [scan]. change (91 =? 91) with true. cbn iota. rewrite scan_app, Ha. reflexivity.
Qed.

Definition no_brackets (s : str) : bool := forallb (fun c => negb ((c =? 91) || (c =? 93))) s.

Lemma balanced_plain s : no_brackets s = true -> balanced s.
Proof.
  intros H d. induction s as [|c s IH]; [reflexivity|].
  cbn [no_brackets forallb] in H. apply andb_true_iff in H as [H1 H2]. apply negb_true_iff, orb_false_iff in H1 as [A B].
  cbn [scan]. rewrite A, B. apply IH. exact H2.
Qed.

Lemma balanced_join sep l : balanced sep -> Forall balanced l -> balanced (join sep l).
Proof.
  intros Hs Hl. induction Hl as [|x l Hx Hl IH]; [intro d; reflexivity|].
  cbn [join]. destruct l as [|y r]; [exact Hx|].
  apply balanced_app; [exact Hx|]. apply balanced_app; [exact Hs | exact IH].
Qed.

Definition clean_lit (l : lit) : bool :=
  match l with LInt d => no_brackets d | LBool _ => true | LStr s => no_brackets s end.

Fixpoint clean (h : hint) : bool :=
  match h with
  | HAtom s => no_brackets s
  | HLit ls => forallb clean_lit ls
  | HSub head args => no_brackets head && forallb clean args
  | HUnion alts => forallb clean alts
  | HOpt x => clean x
  | _ => true
  end.

Lemma balanced_show_lit l : clean_lit l = true -> balanced (show_lit l).
Proof.
  destruct l as [d|[|]|s]; cbn [clean_lit show_lit]; intro H.
  - apply balanced_plain. exact H.
  - apply balanced_plain. reflexivity.
  - apply balanced_plain. reflexivity.
  - change (39 :: s ++ [39]) with ([39] ++ s ++ [39]).
    apply balanced_app; [apply balanced_plain; reflexivity|]. apply balanced_app; apply balanced_plain; [exact H | reflexivity].
Qed.

Theorem show_balanced o h : clean h = true -> balanced (show o h).
Proof.
  induction h using hint_ind'; cbn [clean show]; intro C.
  - apply balanced_plain. exact C.
  - change (of_string "Literal[" ++ join (of_string ", ") (map show_lit l) ++ [93])
      with (of_string "Literal" ++ (91 :: join (of_string ", ") (map show_lit l) ++ [93])).
    apply balanced_app; [apply balanced_plain; reflexivity|]. apply balanced_brackets.
    apply balanced_join; [apply balanced_plain; reflexivity|].
    apply Forall_map. rewrite forallb_forall in C. apply Forall_forall. intros x Hx. apply balanced_show_lit. auto.
  - apply andb_true_iff in C as [C1 C2].
    apply balanced_app; [apply balanced_plain; exact C1|]. apply balanced_brackets.
    apply balanced_join; [apply balanced_plain; reflexivity|].
    apply Forall_map. rewrite forallb_forall in C2. rewrite Forall_forall in *. intros x Hx. apply H; auto.
  - assert (Forall balanced (map (show o) l)) as F.
    { apply Forall_map. rewrite forallb_forall in C. rewrite Forall_forall in *. intros x Hx. apply H; auto. }
    destruct (uo o).
    + apply balanced_join; [apply balanced_plain; reflexivity | exact F].
    + change (of_string "Union[" ++ join (of_string ", ") (map (show o) l) ++ [93])
        with (of_string "Union" ++ (91 :: join (of_string ", ") (map (show o) l) ++ [93])).
      apply balanced_app; [apply balanced_plain; reflexivity|]. apply balanced_brackets.
      apply balanced_join; [apply balanced_plain; reflexivity | exact F].
  - destruct (uo o).
    + apply balanced_app; [apply IHh; exact C | apply balanced_plain; reflexivity].
    + change (of_string "Optional[" ++ show o h ++ [93]) with (of_string "Optional" ++ (91 :: show o h ++ [93])).
      apply balanced_app; [apply balanced_plain; reflexivity|]. apply balanced_brackets. apply IHh. exact C.
  - apply balanced_plain. reflexivity.
  - intro d. reflexivity.
Qed.

(* operator spelling: after make_optional, None is mentioned exactly once in the top-level union *)
Corollary make_optional_op_none_once o h :
  uo o = true -> forallb (fun x => negb (is_hempty x)) (chain h) = true ->
  count_none (chain (make_optional o h)) = 1%nat.
Proof.
  intros Hu Hne. destruct (make_optional_op_alternatives o h Hu Hne) as [[_ E]|E].
  - rewrite E. reflexivity.
  - rewrite E. unfold count_none. rewrite filter_app, app_length. fold (count_none (filter (fun x => negb (is_hnone x)) (chain h))).
    rewrite count_none_filter. reflexivity.
Qed.
