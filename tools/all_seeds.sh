#!/bin/bash
# tools/all_seeds.sh: every kept seeded change against the check of its property (quick tier); prints one line per seed
cd /verif
for d in seeded/*/; do
  n=$(basename $d); id=${n:0:3}
  out=$(tools/try_seed.sh /verif/${d}patch.diff /verif/${d}demo.py $id 2>&1)
  demo_clean=$(echo "$out" | grep -A1 "demo on clean" | tail -1 | cut -c1-8)
  demo_patch=$(echo "$out" | grep -A1 "demo with patch" | tail -1 | cut -c1-8)
  rc=$(echo "$out" | grep "^rc=" | tail -1)
  applies=$(echo "$out" | grep -c "patch does not apply")
  echo "$n clean:[$demo_clean] patched:[$demo_patch] check:$rc noapply:$applies"
done
