#!/bin/bash
# tools/full_pass.sh <seed> <tier>: every check once at the given seed and tier on the clean tree, 3 at a time; one summary line each
seed=$1; tier=${2:-quick}
cd /verif
git -C /repo diff --quiet || { echo "/repo has uncommitted changes"; exit 2; }
/venv/bin/python -c "import json; print('\n'.join(c['property_id'] for c in json.load(open('MANIFEST.json'))['checks']))" | \
  xargs -P3 -I{} bash -c 'start=$(date +%s); out=$(VERIF_SEED='"$seed"' timeout 5400 ./check {} --tier '"$tier"' 2>&1 | grep -v "^KNOWN-FINDING\|^WARNING conda" | cut -c1-500 | head -6); echo "{} wall=$(( $(date +%s) - start ))s $out"'
