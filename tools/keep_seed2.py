#!/venv/bin/python
"""tools/keep_seed2.py <PID> <variant a|b> <new suffix c|d> <detected-by text>: keep a second-round seeded change from <root=/tmp/seed3>/<PID>/_seed/<variant> as /verif/seeded/<PID><suffix>/"""
import json, shutil, sys
from pathlib import Path
pid, var, suffix, detected = sys.argv[1:5]
root = sys.argv[5] if len(sys.argv) > 5 else "/tmp/seed3"
src = Path(f"{root}/{pid}/_seed/{var}")
dst = Path(f"/verif/seeded/{pid}{suffix}")
dst.mkdir(parents=True, exist_ok=True)
for f in ("patch.diff", "demo.py"):
    shutil.copy(src / f, dst / f)
meta = json.loads((src / "meta.json").read_text())
meta.update({
    "breaks_property": pid, "round": int(sys.argv[6]) if len(sys.argv) > 6 else 2,
    "confirmed": "demo.py exits 0/PASS on the clean tree and 1/FAIL with the patch applied (tools/try_seed.sh); the sub-agent reported the baseline suite unchanged (326 passed) with the patch",
    "ran": f"tools/try_seed.sh /verif/seeded/{pid}{suffix}/patch.diff /verif/seeded/{pid}{suffix}/demo.py {pid}",
    "detected_by": detected,
})
(dst / "meta.json").write_text(json.dumps(meta, indent=1))
print("kept", dst)
