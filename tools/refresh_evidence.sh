#!/bin/bash
# run every claimed quick check on the (clean) tree so that the committed evidence describes the unchanged tree
cd /verif
git -C /repo diff --quiet || { echo "/repo has uncommitted changes"; exit 2; }
for id in $(/venv/bin/python -c "import json; print(' '.join(c['property_id'] for c in json.load(open('MANIFEST.json'))['checks']))"); do
  out=$(timeout 1800 ./check $id --tier quick 2>&1 | grep -v "^KNOWN-FINDING\|^WARNING conda"); rc=$?
  echo "$id $(/venv/bin/python -c "import json; e=json.load(open('evidence/$id.json')); print('rc-evidence-violations', e.get('violations'), 'obl', e['coverage']['obligations'], 'dis', e['coverage']['discharged'], 'wall', e['wall_s'])") $out"
done
