#!/venv/bin/python
"""tools/keep_seed.py <PID> <variant> <detected-by text>: copy a confirmed seeded change into /verif/seeded/<PID><variant>/"""
import json, shutil, sys
from pathlib import Path
pid, var, detected = sys.argv[1], sys.argv[2], sys.argv[3]
src = Path(f"/tmp/seed/{pid}/_seed/{var}")
dst = Path(f"/verif/seeded/{pid}{var}")
dst.mkdir(parents=True, exist_ok=True)
for f in ("patch.diff", "demo.py"):
    shutil.copy(src / f, dst / f)
meta = json.loads((src / "meta.json").read_text())
meta.update({
    "breaks_property": pid,
    "confirmed": "demo.py exits 0/PASS on the clean tree and 1/FAIL with the patch applied (tools/try_seed.sh); the sub-agent reported the baseline suite unchanged (326 passed) with the patch",
    "ran": f"tools/try_seed.sh seeded/{pid}{var}/patch.diff seeded/{pid}{var}/demo.py {pid}",
    "detected_by": detected,
})
(dst / "meta.json").write_text(json.dumps(meta, indent=1))
print("kept", dst)
