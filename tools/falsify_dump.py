#!/venv/bin/python
"""tools/falsify_dump.py <PID> <tier> <seed>: run only the falsifier of a property and print every violation with its replay (debugging aid)."""
import json, sys, os
sys.path.insert(0, "/verif"); sys.path.insert(0, "/repo/src")
os.environ.setdefault("PYTHONHASHSEED", "0")
from harness import lib, runner
pid, tier, seed = sys.argv[1].upper(), sys.argv[2], int(sys.argv[3])
lib.ensure_repo_on_path()
mod = runner.load(pid)
ctx = runner.Ctx(pid, tier, seed)
known = {f["key"] for f in lib.known_findings(pid)}
mod.falsify(ctx)
for v in ctx.violations:
    if v["key"] in known:
        continue
    print("WHAT:", v["what"][-400:])
    print("REPLAY:", json.dumps(v["replay"], sort_keys=True)[:3000])
    print()
print(dict(ctx.counts))
