#!/bin/bash
# tools/try_seed.sh <patch.diff> <demo.py> <check ids...>: confirm the demo, apply the patch to /repo, run checks, undo.
patch=$1; demo=$2; shift 2
cd /repo || exit 2
git diff --quiet || { echo "/repo not clean"; exit 2; }
echo "== demo on clean tree"; PYTHONPATH=/repo/src timeout 300 /venv/bin/python -W ignore "$demo" >/tmp/demo_clean.out 2>&1; echo "rc=$? $(tail -1 /tmp/demo_clean.out)"
git apply "$patch" || { echo "patch does not apply"; exit 2; }
echo "== demo with patch"; PYTHONPATH=/repo/src timeout 300 /venv/bin/python -W ignore "$demo" >/tmp/demo_patched.out 2>&1; echo "rc=$? $(tail -2 /tmp/demo_patched.out | tr '\n' ' ' | cut -c1-300)"
for id in "$@"; do
  cp /verif/evidence/$id.json /tmp/evidence_$id.json.keep 2>/dev/null
  echo "== check $id with patch"; (cd /verif && timeout 1500 ./check "$id" --tier quick 2>&1 | head -8; echo "rc=${PIPESTATUS[0]}")
  # evidence written while a seeded change is applied is not evidence about the unchanged tree
  cp /tmp/evidence_$id.json.keep /verif/evidence/$id.json 2>/dev/null; rm -f /tmp/evidence_$id.json.keep
done
git checkout -- . ; git status --short | head -3
