#!/bin/bash
# tools/some_seeds.sh <seed names...>: like all_seeds.sh for the named kept seeds (e.g. C05a C05b)
cd /verif
for n in "$@"; do
  d=seeded/$n/; id=${n:0:3}
  out=$(tools/try_seed.sh /verif/${d}patch.diff /verif/${d}demo.py $id 2>&1)
  demo_clean=$(echo "$out" | grep -A1 "demo on clean" | tail -1 | cut -c1-8)
  demo_patch=$(echo "$out" | grep -A1 "demo with patch" | tail -1 | cut -c1-8)
  rc=$(echo "$out" | grep "^rc=" | tail -1)
  applies=$(echo "$out" | grep -c "patch does not apply")
  echo "$n clean:[$demo_clean] patched:[$demo_patch] check:$rc noapply:$applies"
done
