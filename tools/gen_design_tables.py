#!/venv/bin/python
"""tools/gen_design_tables.py: print the seeds table (DESIGN 9.3) and the fixed / known findings lists (DESIGN 9.5) from seeded/*/meta.json and known_findings.json"""
import glob, json, sys
which = sys.argv[1] if len(sys.argv) > 1 else "seeds"
cut = lambda s, n: s if len(s) <= n else s[: n - 2].rstrip() + " …"
if which == "seeds":
    print("| seed | round | change | detected by | missed at first |")
    print("|------|-------|--------|-------------|-----------------|")
    for p in sorted(glob.glob("/verif/seeded/*/meta.json")):
        m = json.load(open(p))
        d = m["detected_by"]
        missed = "yes" if ("missed" in d or "after strengthening" in d or "after a correction" in d or "after adding" in d or "first version" in d) and "detected by the unchanged check" not in d else "no"
        print(f"| {p.split('/')[-2]} | {m.get('round', 1)} | {cut(m['summary'].replace('|', '/'), 150)} | {cut(d.replace('|', '/'), 420)} | {missed} |")
elif which == "fixed":
    for f in json.load(open("/verif/known_findings.json"))["fixed"]:
        print("* `" + f.replace("fixed: ", "") + "`")
else:
    for f in json.load(open("/verif/known_findings.json"))["findings"]:
        print(f"* **{f['property']}** `{f['key']}` — {cut(f['what'], 330)}")
