#!/bin/bash
# tools/thorough_some.sh <seed> <ids...>: thorough tier of the given checks, 3 at a time, on the clean tree; summary lines on stdout
seed=$1; shift
cd /verif
git -C /repo diff --quiet || { echo "/repo has uncommitted changes"; exit 2; }
printf '%s\n' "$@" | xargs -P3 -I{} bash -c 'start=$(date +%s); out=$(VERIF_SEED='"$seed"' timeout 5400 ./check {} --tier thorough 2>&1 | grep -v "^KNOWN-FINDING\|^WARNING conda" | cut -c1-600); echo "{} rc=$? wall=$(( $(date +%s) - start ))s $out"'
