#!/bin/bash
# Build the Coq development and the extracted model driver from files on disk only.
cd "$(dirname "$0")"
export PYTHONPATH=/verif:/repo/src PYTHONHASHSEED=0 PYTHONDONTWRITEBYTECODE=1
exec /venv/bin/python -W ignore -m harness.setup
