"""./check Cxx [--tier quick|thorough] [--replay PATH]

reflect -> prove -> correspond -> known findings -> falsify -> evidence.  See DESIGN.md 2.3."""
from __future__ import annotations

import argparse
import importlib
import json
import os
import sys
import time
import traceback
from collections import Counter

sys.path.insert(0, os.path.dirname(os.path.dirname(os.path.abspath(__file__))))
from harness import lib  # noqa: E402


class Ctx:
    def __init__(self, pid: str, tier: str, seed: int):
        self.pid, self.tier, self.seed = pid, tier, seed
        self.t0 = time.time()
        self.broken: list[dict] = []        # proof obligations / ties / correspondences that no longer check
        self.violations: list[dict] = []    # concrete failing inputs against the real code
        self.hints: list = []               # inputs on which model and code disagreed (fed to the falsifier first)
        self.counts: Counter = Counter()
        self.hist: dict[str, Counter] = {}
        self.samples: list = []
        self.notes: list[str] = []
        self.distinct: set = set()
        self.obligations = 0
        self.discharged = 0
        self.axioms: list[str] = []
        self.theorems: list[str] = []
        self.extra: dict = {}

    @property
    def thorough(self) -> bool:
        return self.tier == "thorough"

    def rng(self, tag: str):
        return lib.rng_for(self.seed, f"{self.pid}:{tag}")

    def n(self, quick: int, thorough: int) -> int:
        return thorough if self.thorough else quick

    def count(self, key: str, k: int = 1):
        self.counts[key] += k

    def bucket(self, hist: str, key, k: int = 1):
        self.hist.setdefault(hist, Counter())[str(key)] += k

    def sample(self, s, cap: int = 12):
        if len(self.samples) < cap:
            self.samples.append(s)

    def nontrivial(self, key):
        self.distinct.add(key)

    def tie_broken(self, kind: str, what: str, detail: str = "", hint=None):
        self.broken.append({"kind": kind, "what": what, "detail": detail[-4000:]})
        if hint is not None:
            self.hints.append(hint)

    def violation(self, key: str, what: str, replay: dict):
        self.violations.append({"key": key, "what": what, "replay": replay})

    def elapsed(self) -> float:
        return time.time() - self.t0


def load(pid: str):
    return importlib.import_module(f"harness.props.{pid.lower()}")


def prove(ctx: Ctx, mod) -> None:
    from harness import reflect

    with lib.build_lock():
        for name, err in reflect.reflect_all():
            if name in getattr(mod, "TABLES", ()):  # only the tables this property's cone uses
                ctx.tie_broken("reflect", name, err)
        bad = lib.grep_forbidden()
        if bad:
            ctx.tie_broken("forbidden-vernacular", "; ".join(bad[:10]))
        built = {}
        for tgt in (mod.PROPS_V + "o", "extract/Extract.vo"):
            ok, log = lib.coq_build([tgt])
            built[tgt] = ok
            if not ok:
                failing = [ln for ln in log.splitlines() if ln.startswith("File ") or "Error" in ln]
                kind = "proof" if tgt.startswith("props/") else "extraction"
                ctx.tie_broken(kind, tgt[:-1], "\n".join(failing[:40]) or log[-3000:])
        okp, thms, axioms, plog = (False, [], [], "")
        if built[mod.PROPS_V + "o"]:
            okp, thms, axioms, plog = lib.coq_check_props(mod.PROPS_V)
            if not okp:
                ctx.tie_broken("proof", mod.PROPS_V, plog[-3000:])
        ctx.theorems = thms
        ctx.axioms = axioms
        allowed = set(getattr(mod, "ALLOWED_AXIOMS", ()))
        extra_ax = [a for a in axioms if a not in allowed]
        if extra_ax:
            ctx.tie_broken("axioms", ", ".join(extra_ax))
        ctx.obligations = len(thms) if thms else 1
        ctx.discharged = len(thms) if (okp and not extra_ax) else 0
        if built["extract/Extract.vo"]:
            okd, dlog = lib.build_driver()
            if not okd:
                ctx.tie_broken("extraction", "driver build", dlog)


def main() -> int:
    ap = argparse.ArgumentParser()
    ap.add_argument("pid")
    ap.add_argument("--tier", default=os.environ.get("VERIF_TIER", "quick"))
    ap.add_argument("--replay")
    a = ap.parse_args()
    tier = "thorough" if a.tier == "thorough" else "quick"
    seed = int(os.environ.get("VERIF_SEED", "0") or 0)
    pid = a.pid.upper()
    os.environ.setdefault("PYTHONHASHSEED", "0")
    lib.ensure_repo_on_path()
    mod = load(pid)
    ctx = Ctx(pid, tier, seed)

    if a.replay:
        payload = json.loads(open(a.replay).read())
        return mod.replay(ctx, payload)

    try:
        prove(ctx, mod)
    except Exception:
        ctx.tie_broken("pipeline", "prove step crashed", traceback.format_exc())

    driver_ok = (lib.COQ / "extract" / "_build" / "driver").exists() and not any(
        b["kind"] == "extraction" for b in ctx.broken)
    if driver_ok and hasattr(mod, "correspond"):
        try:
            mod.correspond(ctx)
        except Exception:
            ctx.tie_broken("correspondence", "driver crashed", traceback.format_exc())

    known = lib.known_findings(pid)
    known_keys = set()
    for f in known:
        try:
            still = mod.replay_finding(ctx, f)
        except Exception:
            still = True
            ctx.notes.append("known finding replay crashed: " + f["key"] + " " + traceback.format_exc()[-500:])
        known_keys.add(f["key"])
        if still:
            print(f"KNOWN-FINDING: property={pid} {f['what']}")
        else:
            ctx.notes.append(f"listed finding {f['key']} no longer reproduces")

    if hasattr(mod, "falsify"):
        try:
            mod.falsify(ctx)
        except Exception:
            ctx.tie_broken("falsifier", "falsifier crashed", traceback.format_exc())

    fresh = [v for v in ctx.violations if v["key"] not in known_keys]
    rc = 0
    if fresh:
        v = fresh[0]
        path = lib.write_replay(pid, "violation", {
            "property": pid, "what": v["what"], "key": v["key"], "replay": v["replay"],
            "all": [{"key": x["key"], "what": x["what"], "replay": x["replay"]} for x in fresh[:20]],
            "broken": ctx.broken,
        })
        print(f"VIOLATION property={pid} replay={path}")
        for x in fresh[:5]:
            print("  ", x["key"], "-", x["what"][:300])
        rc = 1
    elif ctx.broken:
        path = lib.write_replay(pid, "unproved", {
            "property": pid,
            "what": "a proof obligation or the model/code correspondence no longer checks; the search found no failing input",
            "broken": ctx.broken,
        })
        print(f"VIOLATION property={pid} replay={path} no-failing-input-found")
        for b in ctx.broken[:5]:
            print("  ", b["kind"], b["what"], "-", b["detail"][:600].replace("\n", " | "))
        rc = 1

    write_evidence(ctx, mod, rc, len(fresh))
    return rc


def write_evidence(ctx: Ctx, mod, rc: int, nviol: int) -> None:
    lib.EVIDENCE.mkdir(exist_ok=True)
    cov = {
        "obligations": max(1, ctx.obligations),
        "discharged": ctx.discharged,
        "checker_cmd": f"cd /verif/coq && make {mod.PROPS_V}o && coqc -Q . DMCG {mod.PROPS_V}  (Print Assumptions parsed)",
        "trusted_base": lib.TRUSTED_BASE_COMMON + list(getattr(mod, "TRUSTED", [])),
        "theorems": ctx.theorems,
        "axioms_reported_by_Print_Assumptions": ctx.axioms or ["none: every theorem is Closed under the global context"],
        "evaluations": int(sum(v for k, v in ctx.counts.items() if k.startswith("eval"))),
        "distinct_nontrivial": len(ctx.distinct),
        "rule": getattr(mod, "RULE", ""),
        "samples": ctx.samples or ["(none)"],
        "counts": dict(ctx.counts),
        "input_distribution": {k: dict(v.most_common(40)) for k, v in ctx.hist.items()},
        "broken": ctx.broken,
        "notes": ctx.notes,
        "exhaustive": bool(ctx.extra.get("exhaustive", False)),
    }
    cov.update({k: v for k, v in ctx.extra.items() if k != "exhaustive"})
    ev = {
        "property_id": ctx.pid,
        "tier": ctx.tier,
        "seed": ctx.seed,
        "level": "proof",
        "coverage": cov,
        "assumptions": list(getattr(mod, "ASSUMPTIONS", [])),
        "wall_s": round(ctx.elapsed(), 2),
        "violations": nviol + (1 if (rc and not nviol) else 0),
    }
    (lib.EVIDENCE / f"{ctx.pid}.json").write_text(json.dumps(ev, indent=1, ensure_ascii=True, default=repr))


if __name__ == "__main__":
    sys.exit(main())
