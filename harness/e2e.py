"""End-to-end helpers used by the falsifiers: run the real generate() in-process, load the emitted
module, basic oracles.  Everything goes through the public API of /repo's current working tree."""
from __future__ import annotations

import ast
import io
import contextlib
import importlib
import json
import os
import shutil
import sys
import tempfile
import types
import itertools
from pathlib import Path

from harness import lib

lib.ensure_repo_on_path()

_counter = itertools.count()

KINDS = ["pydantic.BaseModel", "pydantic_v2.BaseModel", "dataclasses.dataclass", "typing.TypedDict", "msgspec.Struct"]


def dmcg():
    import datamodel_code_generator as d

    return d


class GenResult:
    def __init__(self, ok, files=None, error=None, timeout=False, stderr=""):
        self.ok, self.files, self.error, self.timeout, self.stderr = ok, files or {}, error, timeout, stderr

    @property
    def text(self) -> str:
        return next(iter(self.files.values())) if self.files else ""


def generate(input_, kind="pydantic_v2.BaseModel", file_type="jsonschema", timeout=20.0, formatters=(), modular=False, **opts) -> GenResult:
    """Run generate() with the timestamp disabled and (by default) no formatter, into a scratch
    directory under /verif/.work; returns the written files as {relative path: text}."""
    d = dmcg()
    from datamodel_code_generator.format import Formatter

    lib.WORK.mkdir(exist_ok=True)
    tmp = Path(tempfile.mkdtemp(prefix="gen", dir=lib.WORK))
    out = tmp / ("out" if modular else "out.py")
    kw = dict(
        input_file_type=d.InputFileType(file_type),
        output=out,
        output_model_type=d.DataModelType(kind),
        disable_timestamp=True,
        formatters=[Formatter(f) if isinstance(f, str) else f for f in formatters],
    )
    kw.update(opts)
    err = io.StringIO()
    cwd = os.getcwd()
    try:
        with contextlib.redirect_stderr(err), contextlib.redirect_stdout(io.StringIO()):
            lib.call_with_timeout(d.generate, timeout, input_, **kw)
        files = {}
        if out.is_dir():
            for p in sorted(out.rglob("*.py")):
                files[str(p.relative_to(out))] = p.read_text()
        elif out.exists():
            files["out.py"] = out.read_text()
        return GenResult(True, files, stderr=err.getvalue())
    except lib.Timeout:
        return GenResult(False, timeout=True, error="TIMEOUT")
    except BaseException as e:  # noqa: BLE001
        if isinstance(e, KeyboardInterrupt):
            raise
        return GenResult(False, error=f"{type(e).__name__}: {e}")
    finally:
        os.chdir(cwd)
        shutil.rmtree(tmp, ignore_errors=True)


def parses(text: str, version=(3, 12)):
    try:
        ast.parse(text, feature_version=version)
        return None
    except (SyntaxError, ValueError) as e:
        return f"{type(e).__name__}: {e}"


def to_v1(text: str) -> str:
    """pydantic-v1-style output is executed against pydantic.v1 (installed pydantic is 2.x)."""
    out = []
    for line in text.splitlines():
        if line.startswith("from pydantic import "):
            line = "from pydantic.v1 import " + line[len("from pydantic import "):]
        elif line.startswith("from pydantic."):
            line = "from pydantic.v1." + line[len("from pydantic."):]
        out.append(line)
    return "\n".join(out) + "\n"


def load_module(text: str, kind: str = "pydantic_v2.BaseModel"):
    """exec the emitted source as a registered module; returns (module, error)."""
    if kind == "pydantic.BaseModel":
        text = to_v1(text)
    name = f"_verif_gen_{os.getpid()}_{next(_counter)}"
    m = types.ModuleType(name)
    m.__file__ = f"<{name}>"
    sys.modules[name] = m
    try:
        with contextlib.redirect_stderr(io.StringIO()):
            exec(compile(text, m.__file__, "exec"), m.__dict__)  # noqa: S102
        return m, None
    except BaseException as e:  # noqa: BLE001
        if isinstance(e, KeyboardInterrupt):
            raise
        return None, f"{type(e).__name__}: {e}"
    finally:
        sys.modules.pop(name, None) if False else None


def unload(m) -> None:
    if m is not None:
        sys.modules.pop(m.__name__, None)


def classes_of(text: str) -> dict[str, ast.ClassDef]:
    t = ast.parse(text)
    return {n.name: n for n in t.body if isinstance(n, ast.ClassDef)}


def class_fields(cls: ast.ClassDef):
    """[(name, annotation source, value source or None)] of the annotated assignments in a class body."""
    out = []
    for st in cls.body:
        if isinstance(st, ast.AnnAssign) and isinstance(st.target, ast.Name):
            out.append((st.target.id, ast.unparse(st.annotation), ast.unparse(st.value) if st.value is not None else None))
    return out
