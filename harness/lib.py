"""Shared plumbing for the /verif checks: paths, Coq emission, the cached Coq build, the extracted
model driver, evidence and replay files, the known-findings protocol."""
from __future__ import annotations

import contextlib
import fcntl
import hashlib
import json
import os
import random
import re
import shutil
import subprocess
import sys
import threading
import time
from pathlib import Path

VERIF = Path(__file__).resolve().parent.parent
REPO = Path(os.environ.get("VERIF_REPO", "/repo"))
COQ = VERIF / "coq"
GEN = COQ / "gen"
WORK = VERIF / ".work"
EVIDENCE = VERIF / "evidence"
REPLAYS = VERIF / "replays"
PY = "/venv/bin/python"

TRUSTED_BASE_COMMON = [
    "Coq 8.16.1 kernel (coqc full .vo build; vm_compute used for table obligations and witnesses; no native_compute)",
    "no Axiom/Parameter/Admitted in the development (grep + Print Assumptions parsed on every run)",
    "reflectors in /verif/harness (tables read from the imported /repo modules and the running CPython)",
    "extraction: Require Extraction + ExtrOcamlBasic only (bool, option, unit, list, prod, sumbool, comparison); numbers stay positive/N/Z; OCaml 4.13.1 driver coq/extract/driver.ml",
    "correspondence drivers, canonicalisers and input generators in /verif/harness",
]


def ensure_repo_on_path() -> None:
    p = str(REPO / "src")
    if p not in sys.path:
        sys.path.insert(0, p)
    import warnings

    warnings.simplefilter("ignore")


# --------------------------------------------------------------------------------------------
# Coq text emission


def coq_N(n: int) -> str:
    return str(int(n))


def coq_str(s: str) -> str:
    """A Python str as a Coq `list N` literal of code points."""
    return "[" + "; ".join(str(ord(c)) for c in s) + "]"


def coq_list(items, f=str) -> str:
    return "[" + "; ".join(f(x) for x in items) + "]"


def coq_bool(b) -> str:
    return "true" if b else "false"


def coq_option(x, f=str) -> str:
    return "None" if x is None else f"(Some {f(x)})"


def coq_ranges(rs) -> str:
    return "[" + "; ".join(f"({lo},{hi})" for lo, hi in rs) + "]"


def ranges_of(pred, limit=0x110000):
    """Sorted disjoint inclusive ranges of code points satisfying pred(chr(c))."""
    out = []
    start = None
    for c in range(limit):
        if pred(chr(c)):
            if start is None:
                start = c
        elif start is not None:
            out.append((start, c - 1))
            start = None
    if start is not None:
        out.append((start, limit - 1))
    return out


def in_ranges(c: int, rs) -> bool:
    import bisect

    i = bisect.bisect_right(rs, (c, 0x110000)) - 1
    return i >= 0 and rs[i][0] <= c <= rs[i][1]


def write_gen(name: str, text: str) -> bool:
    """Write coq/gen/<name>.v only when its content changed (keeps make incremental).
    Returns True when the file changed."""
    GEN.mkdir(parents=True, exist_ok=True)
    p = GEN / f"{name}.v"
    if p.exists() and p.read_text() == text:
        return False
    tmp = p.with_suffix(".v.tmp%d" % os.getpid())
    tmp.write_text(text)
    os.replace(tmp, p)
    return True


# --------------------------------------------------------------------------------------------
# locking / subprocess


@contextlib.contextmanager
def build_lock():
    WORK.mkdir(exist_ok=True)
    with open(WORK / "build.lock", "w") as f:
        fcntl.flock(f, fcntl.LOCK_EX)
        try:
            yield
        finally:
            fcntl.flock(f, fcntl.LOCK_UN)


def run(cmd, cwd=None, timeout=600, env=None, input=None):
    e = dict(os.environ)
    if env:
        e.update(env)
    try:
        p = subprocess.run(cmd, cwd=cwd, timeout=timeout, env=e, input=input, capture_output=True, text=True)
        return p.returncode, p.stdout, p.stderr
    except subprocess.TimeoutExpired as ex:
        return 124, (ex.stdout or b"").decode() if isinstance(ex.stdout, bytes) else (ex.stdout or ""), "TIMEOUT"


FORBIDDEN = re.compile(
    r"\b(Admitted|admit|Axiom|Axioms|Parameter|Parameters|Conjecture|Hypothesis|Variable|Unset\s+Guard|bypass_check|"
    r"type-in-type|impredicative-set|Admit\s+Obligations|native_compute)\b"
)


def strip_coq_comments(text: str) -> str:
    out = []
    depth = 0
    i = 0
    n = len(text)
    while i < n:
        if text.startswith("(*", i):
            depth += 1
            i += 2
        elif text.startswith("*)", i) and depth:
            depth -= 1
            i += 2
        else:
            if depth == 0:
                out.append(text[i])
            i += 1
    return "".join(out)


def grep_forbidden() -> list[str]:
    """Forbidden vernacular anywhere in the hand-written development (comments stripped).
    `Variable`/`Hypothesis` are only legal inside a Section; the development uses none."""
    hits = []
    for p in sorted(COQ.rglob("*.v")):
        txt = strip_coq_comments(p.read_text())
        for m in FORBIDDEN.finditer(txt):
            hits.append(f"{p.relative_to(COQ)}: {m.group(0)}")
    return hits


def coq_makefile() -> None:
    files = sorted(
        str(p.relative_to(COQ))
        for d in ("gen", "model", "proofs", "props", "extract")
        for p in (COQ / d).glob("*.v")
    )
    proj = (COQ / "_CoqProject").read_text()
    listing = "\n".join(files) + "\n"
    full = proj.split("# files\n")[0].rstrip("\n") + "\n# files\n" + listing
    cur = (COQ / "_CoqProject.full")
    if not cur.exists() or cur.read_text() != full or not (COQ / "Makefile").exists():
        cur.write_text(full)
        rc, out, err = run(["coq_makefile", "-f", "_CoqProject.full", "-o", "Makefile"], cwd=COQ)
        if rc != 0:
            raise RuntimeError("coq_makefile failed: " + err)


def coq_build(targets: list[str], timeout=1500, jobs=16):
    """make the given .vo targets (full build of their dependency cone). Returns (ok, log)."""
    coq_makefile()
    rc, out, err = run(["make", f"-j{jobs}", "-k", *targets], cwd=COQ, timeout=timeout)
    return rc == 0, out + "\n" + err


COQFLAGS = [x for d in ("gen", "model", "proofs", "props", "extract") for x in ("-Q", d, "DMCG")]
ASSUME_OK = "Closed under the global context"


def coq_check_props(vfile: str, timeout=600):
    """Re-run coqc on a props file (cheap: only `exact` proofs) and parse every Print Assumptions.
    Returns (ok, theorems, axioms, log). theorems = names stated with Theorem in the file."""
    rc, out, err = run(["coqc", *COQFLAGS, "-w", "-notation-overridden", vfile], cwd=COQ, timeout=timeout)
    log = out + "\n" + err
    src = strip_coq_comments((COQ / vfile).read_text())
    theorems = re.findall(r"^\s*Theorem\s+(\w+)", src, flags=re.M)
    prints = re.findall(r"Print Assumptions\s+(\w+)", src)
    closed = out.count(ASSUME_OK)
    axioms = []
    if "Axioms:" in out:
        for block in out.split("Axioms:")[1:]:
            for line in block.splitlines():
                m = re.match(r"^(\S+)\s*:", line)
                if m:
                    axioms.append(m.group(1))
    ok = rc == 0 and set(theorems) <= set(prints) and closed + out.count("Axioms:") >= len(prints)
    return ok, theorems, sorted(set(axioms)), log


# --------------------------------------------------------------------------------------------
# extracted model driver


def build_driver(timeout=900):
    """Build coq/extract/driver from the extracted .ml files (after Extract.vo was made)."""
    ex = COQ / "extract"
    mls = sorted(p for p in ex.glob("*.ml") if p.name != "driver.ml")
    stamp = hashlib.sha256()
    for p in [*mls, ex / "driver.ml"]:
        stamp.update(p.read_bytes())
    digest = stamp.hexdigest()
    st = ex / "_build" / "stamp"
    exe = ex / "_build" / "driver"
    if exe.exists() and st.exists() and st.read_text() == digest:
        return True, ""
    (ex / "_build").mkdir(exist_ok=True)
    for p in ex.glob("*.ml"):
        shutil.copy(p, ex / "_build" / p.name)
    for p in ex.glob("*.mli"):
        shutil.copy(p, ex / "_build" / p.name)
    rc, out, err = run(
        ["ocamlfind", "ocamlopt", "-w", "-a", "-package", "str", "-linkpkg",
         "-o", "driver", "Model.mli", "Model.ml", "driver.ml"],
        cwd=ex / "_build", timeout=timeout)
    if rc != 0:
        return False, out + err
    st.write_text(digest)
    return True, ""


class Driver:
    """Line protocol with the extracted model: one request per line, one answer per line.
    Each batch is one run of the driver binary."""

    def batch(self, lines: list[str], timeout=600) -> list[str]:
        if not lines:
            return []
        if len(lines) > 60000:
            # large batches: 50000-line shards, eight driver processes at a time
            from concurrent.futures import ThreadPoolExecutor
            shards = [lines[i:i + 50000] for i in range(0, len(lines), 50000)]
            with ThreadPoolExecutor(max_workers=8) as ex:
                parts = list(ex.map(lambda sh: self.batch(sh, timeout), shards))
            return [x for part in parts for x in part]
        p = subprocess.run([str(COQ / "extract" / "_build" / "driver")], input="\n".join(lines) + "\n",
                           capture_output=True, text=True, timeout=timeout)
        out = p.stdout.split("\n")
        if out and out[-1] == "":
            out.pop()
        if len(out) != len(lines):
            raise RuntimeError(f"driver answered {len(out)} lines for {len(lines)} requests: {p.stderr[-500:]}")
        return out

    def close(self):
        pass


def enc_str(s: str) -> str:
    return ",".join(str(ord(c)) for c in s) if s else "-"


def dec_str(t: str) -> str:
    return "" if t == "-" else "".join(chr(int(x)) for x in t.split(","))


# --------------------------------------------------------------------------------------------
# watchdog for calls into /repo that may not terminate


class Timeout(Exception):
    pass


def call_with_timeout(fn, seconds: float, *a, **kw):
    """Run fn in this process under SIGALRM (main thread only).  ITIMER_REAL counts wall-clock time, so on a busy machine a
    short watchdog can fire although the call was merely not scheduled: when the watchdog fires and the process used less
    than half of the budget as CPU time, the call is tried once more with ten times the budget.  A call that really loops
    burns the whole budget as CPU time and is reported at once."""
    import signal
    import time as _time

    def handler(signum, frame):
        raise Timeout()

    budgets = [seconds, seconds * 10] if seconds < 2.0 else [seconds]
    for i, budget in enumerate(budgets):
        old = signal.signal(signal.SIGALRM, handler)
        cpu0 = _time.process_time()
        signal.setitimer(signal.ITIMER_REAL, budget)
        try:
            return fn(*a, **kw)
        except Timeout:
            starved = (_time.process_time() - cpu0) < 0.5 * budget
            if i == len(budgets) - 1 or not starved:
                raise
        finally:
            signal.setitimer(signal.ITIMER_REAL, 0)
            signal.signal(signal.SIGALRM, old)


# --------------------------------------------------------------------------------------------
# known findings


def known_findings(pid: str):
    p = VERIF / "known_findings.json"
    if not p.exists():
        return []
    data = json.loads(p.read_text())
    return [f for f in data.get("findings", []) if f.get("property") == pid and f.get("status") == "open"]


def write_replay(pid: str, name: str, payload: dict) -> Path:
    d = REPLAYS / pid
    d.mkdir(parents=True, exist_ok=True)
    p = d / f"{name}.json"
    p.write_text(json.dumps(payload, indent=1, ensure_ascii=True, default=repr))
    return p


def rng_for(seed: int, tag: str) -> random.Random:
    return random.Random(int(hashlib.sha256(f"{seed}:{tag}".encode()).hexdigest()[:16], 16))
