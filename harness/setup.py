"""setup_cmd: reflect all tables from /repo, build every Coq file and the extracted driver."""
import sys

from harness import lib, reflect

lib.ensure_repo_on_path()
with lib.build_lock():
    failed = reflect.reflect_all()
    for name, err in failed:
        print("reflector failed:", name, err[-400:])
    lib.coq_makefile()
    rc, out, err = lib.run(["make", "-j16", "-k"], cwd=lib.COQ, timeout=3000)
    print(out[-2000:], err[-3000:])
    ok, log = lib.build_driver()
    print("driver:", ok, log[-1000:])
sys.exit(0 if (rc == 0 and ok and not failed) else 1)
