"""Reflectors: read tables from the imported /repo modules and the running CPython and emit them as
Coq data under coq/gen (tie T1).  Each reflector fails closed: an exception means the tie is broken."""
from __future__ import annotations

import keyword
from pathlib import Path
import re
import traceback

from harness import lib
from harness.lib import coq_list, coq_ranges, coq_str

HEADER = "(* GENERATED on every run by /verif/harness/reflect.py from /repo and the running CPython. *)\nFrom DMCG Require Import Str Ranges.\nOpen Scope N_scope.\n\n"

_cache: dict = {}


def unicode_tables():
    if "uni" in _cache:
        return _cache["uni"]
    w = re.compile(r"\w")
    t = {
        "word_tbl": lib.ranges_of(lambda ch: w.match(ch) is not None),
        "xids_tbl": lib.ranges_of(lambda ch: ch.isidentifier()),
        "xidc_tbl": lib.ranges_of(lambda ch: ("a" + ch).isidentifier()),
        "numeric_tbl": lib.ranges_of(lambda ch: ch.isnumeric()),
    }
    lower, upper = [], []
    for c in range(0x110000):
        ch = chr(c)
        lo, up = ch.lower(), ch.upper()
        if lo != ch:
            lower.append((c, lo))
        if up != ch:
            upper.append((c, up))
    t["lower_map"], t["upper_map"] = lower, upper
    _cache["uni"] = t
    return t


def r_unicode():
    t = unicode_tables()
    out = [HEADER]
    for k in ("word_tbl", "xids_tbl", "xidc_tbl", "numeric_tbl"):
        out.append(f"Definition {k} : ranges := {coq_ranges(t[k])}.\n")
    for k in ("lower_map", "upper_map"):
        body = "; ".join(f"({c},{coq_str(s)})" for c, s in t[k])
        out.append(f"Definition {k} : cmap := [{body}].\n")
    out.append(f"Definition kwlist : list str := {coq_list(keyword.kwlist, coq_str)}.\n")
    lib.write_gen("UnicodeTables", "\n".join(out))


def r_basemodel_attrs():
    lib.ensure_repo_on_path()
    from datamodel_code_generator import reference

    bm = reference.BaseModel
    names = sorted(n for n in dir(bm) if hasattr(bm, n))
    # hasattr can be true for names dir() does not list (metaclass attributes)
    for n in dir(type(bm)):
        if hasattr(bm, n) and n not in names:
            names.append(n)
    names = sorted(set(names))
    lib.write_gen("BaseModelAttrs", HEADER + f"Definition base_attrs : list str := {coq_list(names, coq_str)}.\n")


def escape_tables():
    lib.ensure_repo_on_path()
    from datamodel_code_generator.parser import base as pbase
    from datamodel_code_generator.model.pydantic import types as ptypes
    from datamodel_code_generator.model import typed_dict as td

    out = {}
    for name, tbl in (("enum_table", pbase.escape_characters), ("regex_table", ptypes.escape_characters),
                      ("tdkey_table", td.escape_characters)):
        if not isinstance(tbl, dict) or not all(isinstance(k, int) and isinstance(v, str) for k, v in tbl.items()):
            raise TypeError(f"{name}: not a str.maketrans table of int -> str")
        out[name] = sorted(tbl.items())
    return out


def r_escape():
    t = escape_tables()
    out = [HEADER.replace("Str Ranges", "Str Escape")]
    for name, items in t.items():
        body = "; ".join(f"({k},{coq_str(v)})" for k, v in items)
        out.append(f"Definition {name} : etable := [{body}].\n")
    lib.write_gen("EscapeTables", "\n".join(out))


def coq_string(s: str) -> str:
    assert all(32 <= ord(c) < 127 and c != '"' for c in s), s
    return '"' + s + '"'


def plumbing_tables():
    """argparse actions, Config fields, generate() parameters, and the keyword map of the generate(...) call
    in main() (read from the AST of __main__.main, cross-checked behaviourally by harness/props/c18.py)."""
    import ast
    import inspect
    lib.ensure_repo_on_path()
    import datamodel_code_generator as d
    from datamodel_code_generator import __main__ as m
    from datamodel_code_generator.arguments import arg_parser

    actions = []
    for a in arg_parser._actions:
        kind = type(a).__name__
        actions.append((a.dest, kind, a.default is None, sorted(a.option_strings)))
    fields = sorted(m.Config.get_fields())
    params = list(inspect.signature(d.generate).parameters)
    src = inspect.getsource(m.main)
    tree = ast.parse(src)
    calls = [n for n in ast.walk(tree) if isinstance(n, ast.Call) and isinstance(n.func, ast.Name) and n.func.id == "generate"]
    if len(calls) != 1:
        raise ValueError("expected exactly one generate(...) call in main()")
    fwd = []
    for kw in calls[0].keywords:
        if kw.arg is None:
            raise ValueError("**kwargs in generate(...) call")
        srcs = sorted({n.attr for n in ast.walk(kw.value) if isinstance(n, ast.Attribute) and isinstance(n.value, ast.Name) and n.value.id == "config"})
        if not srcs:
            # a local variable computed from config.<name> earlier in main (aliases, extra_template_data, ...)
            names = [n.id for n in ast.walk(kw.value) if isinstance(n, ast.Name)]
            srcs = [nm for nm in names if nm in fields]
        for f in srcs:
            fwd.append((kw.arg, f))
    # config fields main() consumes itself (config.<f> outside the generate call)
    call_nodes = {id(n) for n in ast.walk(calls[0])}
    handled = sorted({n.attr for n in ast.walk(tree) if isinstance(n, ast.Attribute) and isinstance(n.value, ast.Name)
                      and n.value.id == "config" and id(n) not in call_nodes})
    # every return in an except handler / the else branch of the try around generate()
    rets = []
    for n in ast.walk(tree):
        if isinstance(n, ast.Try) and any(isinstance(x, ast.Call) and getattr(x.func, "id", None) == "generate" for b in n.body for x in ast.walk(b)):
            for h in n.handlers:
                r = [x for x in ast.walk(h) if isinstance(x, ast.Return)]
                rets.append((ast.unparse(h.type) if h.type else "bare", [ast.unparse(x.value) for x in r]))
            rets.append(("else", [ast.unparse(x.value) for b in n.orelse for x in ast.walk(b) if isinstance(x, ast.Return)]))
    return {"actions": actions, "fields": fields, "params": params, "fwd": fwd, "handled": handled, "rets": rets,
            "exit": {e.name: int(e.value) for e in m.Exit}}


def r_plumbing():
    t = plumbing_tables()
    S = coq_string
    out = ["(* GENERATED on every run by /verif/harness/reflect.py from arguments.py, __main__.py and generate(). *)\nFrom Coq Require Import List String Bool.\nImport ListNotations.\nOpen Scope string_scope.\n"]
    out.append("Definition cli_actions : list (string * string * bool) := [" + "; ".join(f"({S(d)}, {S(k)}, {lib.coq_bool(n)})" for d, k, n, _ in t["actions"]) + "].\n")
    out.append("Definition config_fields : list string := [" + "; ".join(S(f) for f in t["fields"]) + "].\n")
    out.append("Definition generate_params : list string := [" + "; ".join(S(f) for f in t["params"]) + "].\n")
    out.append("Definition forward_map : list (string * string) := [" + "; ".join(f"({S(k)}, {S(f)})" for k, f in t["fwd"]) + "].\n")
    out.append("Definition handled_in_main : list string := [" + "; ".join(S(f) for f in t["handled"]) + "].\n")
    def code(r):
        return {"Exit.OK": t["exit"]["OK"], "Exit.ERROR": t["exit"]["ERROR"]}.get(r, 99)
    out.append("Definition handler_returns : list (string * list nat) := [" + "; ".join(f"({S(h)}, [{'; '.join(str(code(r)) for r in rs)}])" for h, rs in t["rets"]) + "].\n")
    lib.write_gen("PlumbingTables", "\n".join(out))


def version_tables():
    import importlib
    import pkgutil
    lib.ensure_repo_on_path()
    import datamodel_code_generator as d
    from datamodel_code_generator.format import PythonVersion
    from datamodel_code_generator.imports import Import
    from datamodel_code_generator.model import get_data_model_types
    from datamodel_code_generator.reference import Reference
    from datamodel_code_generator.types import DataType

    rows = []
    for v in PythonVersion:
        major, minor = v.value.split(".")
        if major != "3":
            raise ValueError(v.value)
        rows.append((v.value, int(minor), bool(v.has_union_operator), bool(v.has_typed_dict_non_required), bool(v.has_kw_only_dataclass)))
    consts = {}
    for mi in pkgutil.walk_packages(d.__path__, d.__name__ + "."):
        mod = importlib.import_module(mi.name)
        for k, val in vars(mod).items():
            if isinstance(val, Import) and val.from_:
                consts.setdefault((val.from_, val.import_), f"{mi.name}.{k}")
    sel = []
    for v in PythonVersion:
        minor = int(v.value.split(".")[1])
        for kind in d.DataModelType:
            ms = get_data_model_types(kind, v)
            imps = set()
            for cls in (ms.data_model, ms.root_model):
                for i in getattr(cls, "DEFAULT_IMPORTS", ()):
                    if i.from_:
                        imps.add((i.from_, i.import_))
            # what a non-required member of a model of this kind imports
            ref = Reference(path="p", name="M", original_name="M")
            f = ms.field_model(name="a", data_type=DataType(type="int"), required=False)
            try:
                model = ms.data_model(reference=ref, fields=[f])
                f.parent = model
                for i in f.imports:
                    if i.from_:
                        imps.add((i.from_, i.import_))
                for i in model.imports:
                    if i.from_:
                        imps.add((i.from_, i.import_))
            except Exception:  # noqa: BLE001
                raise
            sel.append((minor, kind.value, sorted(imps)))
    # GraphQL alias models are the same for every target
    from datamodel_code_generator.model.union import DataTypeUnion
    from datamodel_code_generator.model.scalar import DataTypeScalar
    alias_imps = sorted({(i.from_, i.import_) for c in (DataTypeUnion, DataTypeScalar) for i in c.DEFAULT_IMPORTS if i.from_})
    return {"rows": rows, "consts": sorted(consts), "sel": sel, "alias": alias_imps}


def r_version():
    t = version_tables()
    S = coq_string
    pair = lambda p: f"({S(p[0])}, {S(p[1])})"
    out = ["(* GENERATED on every run by /verif/harness/reflect.py from format.py, imports.py, model/*. *)\nFrom Coq Require Import List String Bool.\nImport ListNotations.\nOpen Scope string_scope.\n"]
    out.append("Definition version_rows : list (string * nat * bool * bool * bool) := [" + "; ".join(
        f"({S(v)}, {m}, {lib.coq_bool(u)}, {lib.coq_bool(n)}, {lib.coq_bool(k)})" for v, m, u, n, k in t["rows"]) + "].\n")
    out.append("Definition import_constants : list (string * string) := [" + "; ".join(pair(p) for p in t["consts"]) + "].\n")
    out.append("Definition selection : list (nat * string * list (string * string)) := [" + "; ".join(
        f"({m}, {S(k)}, [{'; '.join(pair(p) for p in imps)}])" for m, k, imps in t["sel"]) + "].\n")
    out.append("Definition alias_model_imports : list (string * string) := [" + "; ".join(pair(p) for p in t["alias"]) + "].\n")
    lib.write_gen("VersionTables", "\n".join(out))


WRITE_ATTRS = {"mkdir", "write_text", "write_bytes", "write", "unlink", "rename", "touch", "rmdir", "makedirs", "remove", "rmtree"}
LOOP_SAFE_CALLS = {"print", "open", "mkdir", "exists", "close", "format", "rstrip", "items", "joinpath"}


def atomic_tables():
    """Statement list of generate() (T3): which top-level statements write, which statements of the write loop call
    anything other than the write primitives, and the shape of the chdir context manager."""
    import ast
    import inspect
    lib.ensure_repo_on_path()
    import datamodel_code_generator as d

    def is_write_call(c):
        if not isinstance(c, ast.Call):
            return False
        f = c.func
        if isinstance(f, ast.Attribute):
            if f.attr in WRITE_ATTRS:
                return True
            if f.attr == "open":
                mode = None
                if len(c.args) >= 1 and isinstance(c.args[0], ast.Constant):
                    mode = c.args[0].value
                for kw in c.keywords:
                    if kw.arg == "mode" and isinstance(kw.value, ast.Constant):
                        mode = kw.value.value
                return isinstance(mode, str) and any(ch in mode for ch in "wax+")
        if isinstance(f, ast.Name):
            if f.id == "print":
                return any(kw.arg == "file" and ast.unparse(kw.value) not in ("sys.stderr", "sys.stdout") for kw in c.keywords)
            if f.id == "open":
                return True
        return False

    def writes(node):
        return any(is_write_call(x) for x in ast.walk(node))

    def foreign(node):
        for x in ast.walk(node):
            if isinstance(x, ast.Raise):
                return True
            if isinstance(x, ast.Call):
                f = x.func
                name = f.attr if isinstance(f, ast.Attribute) else getattr(f, "id", "?")
                if name not in LOOP_SAFE_CALLS:
                    return True
        return False

    fn = ast.parse(inspect.getsource(d.generate)).body[0]
    rows = []
    seen_loop = False
    for st in fn.body:
        if isinstance(st, ast.For) and writes(st) and not seen_loop:
            seen_loop = True
            for inner in st.body:
                rows.append((f"loop:{type(inner).__name__}:{inner.lineno}", writes(inner), foreign(inner), True))
            if st.orelse:
                rows.append((f"loop-else:{st.lineno}", writes(ast.Module(body=st.orelse, type_ignores=[])), True, True))
        else:
            label = f"{type(st).__name__}:{st.lineno}"
            rows.append((label, writes(st), foreign(st), False))
    # chdir: prev = Path.cwd() / os.getcwd() before try, os.chdir(prev) in finally
    cfn = ast.parse(inspect.getsource(d.chdir.__wrapped__ if hasattr(d.chdir, "__wrapped__") else d.chdir)).body[0]
    saves_real, restores = False, False
    for x in ast.walk(cfn):
        if isinstance(x, ast.Assign) and isinstance(x.value, ast.Call):
            src = ast.unparse(x.value)
            if src in ("Path.cwd()", "os.getcwd()", "Path(os.getcwd())"):
                saved = x.targets[0].id if isinstance(x.targets[0], ast.Name) else None
                saves_real = saved is not None
                for t in ast.walk(cfn):
                    if isinstance(t, ast.Try):
                        for f in t.finalbody:
                            if ast.unparse(f).strip() == f"os.chdir({saved})":
                                restores = True
    return {"rows": rows, "chdir_saves_real_cwd": saves_real, "chdir_restores_in_finally": restores}


def r_atomic():
    t = atomic_tables()
    S = coq_string
    out = ["(* GENERATED on every run by /verif/harness/reflect.py from the AST of generate() and chdir(). *)\nFrom DMCG Require Import Atomic.\nOpen Scope string_scope.\n"]
    out.append("Definition generate_stmts : list stmt := [" + "; ".join(
        f"{{| s_label := {S(l)}; s_writes := {lib.coq_bool(w)}; s_foreign := {lib.coq_bool(f)}; s_in_loop := {lib.coq_bool(i)} |}}" for l, w, f, i in t["rows"]) + "].\n")
    out.append(f"Definition chdir_saves_real_cwd : bool := {lib.coq_bool(t['chdir_saves_real_cwd'])}.\n")
    out.append(f"Definition chdir_restores_in_finally : bool := {lib.coq_bool(t['chdir_restores_in_finally'])}.\n")
    lib.write_gen("AtomicTables", "\n".join(out))


FIELD_KINDS = ["pydantic.BaseModel", "pydantic_v2.BaseModel", "dataclasses.dataclass", "typing.TypedDict", "msgspec.Struct"]


def parse_field_line(text):
    """From a rendered class: the annotation and assigned value of member a ->
    (hint is optional, NotRequired wrapper, effective default kind, hint text, value text)
    effective default: none | ellipsis | None | value | factory"""
    import ast
    tree = ast.parse(text)
    cls = next(n for n in ast.walk(tree) if isinstance(n, ast.ClassDef))
    st = next(x for x in cls.body if isinstance(x, ast.AnnAssign) and x.target.id == "a")
    ann = st.annotation
    full_ann = ast.unparse(st.annotation)
    field_call = None
    if isinstance(ann, ast.Subscript) and ast.unparse(ann.value) == "Annotated":
        elts = ann.slice.elts
        ann = elts[0]
        for e in elts[1:]:
            if isinstance(e, ast.Call) and ast.unparse(e.func) in ("Field", "field", "Meta"):
                field_call = e
    notreq = False
    if isinstance(ann, ast.Subscript) and ast.unparse(ann.value) == "NotRequired":
        notreq = True
        ann = ann.slice
    hint = ast.unparse(ann)
    opt = hint.startswith("Optional[") or hint.endswith("| None") or hint == "None"

    def from_call(c):
        if ast.unparse(c.func) == "Meta":
            return None
        for kw in c.keywords:
            if kw.arg == "default_factory":
                return "factory"
            if kw.arg == "default":
                return "None" if ast.unparse(kw.value) == "None" else ("ellipsis" if ast.unparse(kw.value) == "..." else "value")
        if c.args:
            a0 = ast.unparse(c.args[0])
            return "ellipsis" if a0 == "..." else ("None" if a0 == "None" else "value")
        return None

    eff = "none"
    if st.value is not None:
        v = st.value
        if isinstance(v, ast.Call) and ast.unparse(v.func) in ("Field", "field"):
            eff = from_call(v) or "none"
        else:
            eff = "None" if ast.unparse(v) == "None" else "value"
    elif field_call is not None:
        eff = from_call(field_call) or "none"
    return opt, notreq, eff, full_ann, (ast.unparse(st.value) if st.value is not None else "")


def field_table():
    """Every member-level flag combination rendered through the real field classes and class templates (T1)."""
    import itertools
    import sys as _sys
    lib.ensure_repo_on_path()
    import datamodel_code_generator as d
    from datamodel_code_generator.format import PythonVersion
    from datamodel_code_generator.model import get_data_model_types
    from datamodel_code_generator.reference import Reference
    from datamodel_code_generator.types import DataType

    rows = []
    for kind in FIELD_KINDS:
        ms = get_data_model_types(d.DataModelType(kind), PythonVersion.PY_312)
        C = getattr(_sys.modules[ms.field_model.__module__], "Constraints", None)
        for req, dflt, nullable, thn, dtopt, sdn, ua, constr, udk in itertools.product(
                [True, False], ["no", "none", "val"], [None, True, False], [False, True], [False, True], [False, True], [False, True], [False, True], [False, True]):
            if constr and C is None:
                continue
            if udk and not kind.startswith("pydantic"):
                continue
            if ua and kind in ("dataclasses.dataclass", "typing.TypedDict"):
                continue
            kw = dict(name="a", data_type=DataType(type="int", is_optional=dtopt), required=req, nullable=nullable, type_has_null=thn,
                      strip_default_none=sdn, use_annotated=ua, use_default_kwarg=udk)
            if dflt != "no":
                kw["has_default"] = True
                kw["default"] = None if dflt == "none" else 1
            if constr:
                kw["constraints"] = C.parse_obj({"minimum": 1})
            f = ms.field_model(**kw)
            model = ms.data_model(reference=Reference(path="p", name="M", original_name="M"), fields=[f])
            f.parent = model
            text = model.render()
            opt, notreq, eff, hint, val = parse_field_line(text)
            rows.append(dict(kind=kind, req=req, dflt=dflt, nullable=nullable, thn=thn, dtopt=dtopt, sdn=sdn, ua=ua, constr=constr, udk=udk,
                             opt_hint=opt, notreq=notreq, eff=eff, hint=hint, val=val))
    return rows


def field_key(r):
    kn = FIELD_KINDS.index(r["kind"])
    k = kn
    k = k * 2 + int(r["req"])
    k = k * 3 + {"no": 0, "none": 1, "val": 2}[r["dflt"]]
    k = k * 3 + {None: 0, True: 1, False: 2}[r["nullable"]]
    for f in ("thn", "dtopt", "sdn", "ua", "constr", "udk"):
        k = k * 2 + int(r[f])
    return k


def r_field_table():
    rows = field_table()
    EFF = {"none": "ENone", "ellipsis": "EEllipsis", "None": "ENoneV", "value": "EValue", "factory": "EFactory"}
    body = "; ".join(f"({field_key(r)}, {{| r_opt := {lib.coq_bool(r['opt_hint'])}; r_notreq := {lib.coq_bool(r['notreq'])}; r_eff := {EFF[r['eff']]} |}})" for r in rows)
    lib.write_gen("FieldTable", "(* GENERATED on every run: every member-level flag vector rendered through the real field classes and templates. *)\nFrom DMCG Require Import FieldSem.\nOpen Scope N_scope.\n\nDefinition field_table : list (N * rend) := [" + body + "].\n")


def determinism_tables():
    """T3 for C08: every for-loop / comprehension in the anchored functions that iterates a set the output order depends on
    must go through sorted(); and the module-level caches."""
    import ast
    import functools
    import inspect
    lib.ensure_repo_on_path()
    import datamodel_code_generator as d
    from datamodel_code_generator import imports as imp, reference as ref, types as ty
    from datamodel_code_generator.model import base as mbase
    from datamodel_code_generator.parser import base as pbase, jsonschema as pj

    sites = []

    def scan(fn, label, set_names):
        tree = ast.parse(inspect.getsource(fn).lstrip() if False else __import__("textwrap").dedent(inspect.getsource(fn)))
        for node in ast.walk(tree):
            iters = []
            if isinstance(node, ast.For):
                iters.append(node.iter)
            elif isinstance(node, (ast.ListComp, ast.GeneratorExp, ast.SetComp, ast.DictComp)):
                iters += [g.iter for g in node.generators]
            for it in iters:
                src = ast.unparse(it)
                if any(sn in src for sn in set_names):
                    is_sorted = isinstance(it, ast.Call) and getattr(it.func, "id", None) == "sorted"
                    sites.append((f"{label}:{node.lineno}", src[:60].replace('"', "'"), is_sorted))

    scan(pj.JsonSchemaParser._resolve_unparsed_json_pointer, "_resolve_unparsed_json_pointer", ["reserved_refs", "reserved_ref"])
    scan(pj.JsonSchemaParser._parse_file, "_parse_file", ["reserved_refs"])
    scan(imp.Imports._set_alias, "Imports._set_alias", ["imports"])
    scan(d.generate, "generate", ["results.items()"])
    # dict-of-sets emission: Imports.dump iterates self.items() (insertion order of a deterministic append sequence) - listed, not required sorted
    caches = []
    for mod in (ref, ty, mbase, pj, imp):
        for name, obj in vars(mod).items():
            if isinstance(obj, functools._lru_cache_wrapper):
                caches.append(f"{mod.__name__.split('.')[-1]}.{name}")
    for name, obj in vars(imp.Import).items():
        f = getattr(obj, "__func__", obj)
        if isinstance(f, functools._lru_cache_wrapper):
            caches.append(f"imports.Import.{name}")
    # directory inputs
    src = inspect.getsource(pbase.Parser.iter_source.fget if isinstance(pbase.Parser.iter_source, property) else pbase.Parser.iter_source)
    # the listing is sorted with a key that is injective on paths: a tuple ending in the path itself (ties on the file
    # name are broken by the path, so the parse order never follows the order in which the OS lists a directory)
    dir_sorted = False
    for node in ast.walk(ast.parse(__import__("textwrap").dedent(src))):
        if isinstance(node, ast.Call) and getattr(node.func, "id", None) == "sorted" and "rglob" in ast.unparse(node.args[0]):
            key = next((k.value for k in node.keywords if k.arg == "key"), None)
            if key is None:
                dir_sorted = True   # Path objects compare by their parts
            elif isinstance(key, ast.Lambda) and isinstance(key.body, ast.Tuple) and key.body.elts:
                arg = key.args.args[0].arg
                dir_sorted = ast.unparse(key.body.elts[-1]) in (arg, f"{arg}.as_posix()", f"str({arg})", f"{arg}.parts")
    # package-wide: a for loop / comprehension that iterates a set built in the same function (set literal, set(), set algebra on
    # key views) without sorted().  Sites where the order provably cannot reach the output are listed with the reason.
    harmless = {("parser/base.py", "__postprocess_result_modules", "folders"): "fills a dict that generate() emits through sorted(results.items())"}
    pkg = Path(d.__file__).parent

    def setish(e, names=()):
        if isinstance(e, (ast.Set, ast.SetComp)) or (isinstance(e, ast.Name) and e.id in names):
            return True
        if isinstance(e, ast.Call) and isinstance(e.func, ast.Name) and e.func.id in ("set", "frozenset"):
            return True
        if isinstance(e, ast.Call) and isinstance(e.func, ast.Attribute) and e.func.attr in ("union", "intersection", "difference", "symmetric_difference"):
            return True
        if isinstance(e, ast.BinOp) and isinstance(e.op, (ast.Sub, ast.BitAnd, ast.BitOr, ast.BitXor)):
            keysish = lambda x: (isinstance(x, ast.Call) and isinstance(x.func, ast.Attribute) and x.func.attr in ("keys", "items")) or setish(x, names)
            return keysish(e.left) or keysish(e.right)
        return False

    for f in sorted(pkg.rglob("*.py")):
        rel = f.relative_to(pkg).as_posix()
        for fn in ast.walk(ast.parse(f.read_text())):
            if not isinstance(fn, (ast.FunctionDef, ast.AsyncFunctionDef)):
                continue
            names = set()
            for n in ast.walk(fn):
                if isinstance(n, ast.Assign) and setish(n.value, names):
                    names |= {x.id for x in n.targets if isinstance(x, ast.Name)}
                if isinstance(n, ast.AnnAssign) and n.value is not None and isinstance(n.target, ast.Name) and setish(n.value, names):
                    names.add(n.target.id)
            for n in ast.walk(fn):
                its = [n.iter] if isinstance(n, ast.For) else [g.iter for g in n.generators] if isinstance(n, (ast.ListComp, ast.GeneratorExp, ast.DictComp)) else []
                for it in its:
                    if setish(it, names) and (rel, fn.name, ast.unparse(it)) not in harmless:
                        sites.append((f"{rel}:{fn.name}:{n.lineno}", ast.unparse(it)[:60].replace('"', "'"), False))
    return {"sites": sites, "caches": sorted(caches), "dir_sorted": dir_sorted}


def r_determinism():
    t = determinism_tables()
    S = coq_string
    out = ["(* GENERATED on every run by /verif/harness/reflect.py (AST of the set-emission sites, lru_cache inventory). *)\nFrom Coq Require Import List String Bool.\nImport ListNotations.\nOpen Scope string_scope.\n"]
    out.append("Definition set_emission_sites : list (string * string * bool) := [" + "; ".join(f"({S(a)}, {S(b)}, {lib.coq_bool(c)})" for a, b, c in t["sites"]) + "].\n")
    out.append("Definition lru_caches : list string := [" + "; ".join(S(c) for c in t["caches"]) + "].\n")
    out.append(f"Definition directory_input_sorted : bool := {lib.coq_bool(t['dir_sorted'])}.\n")
    lib.write_gen("DeterminismTables", "\n".join(out))


def constraint_tables():
    lib.ensure_repo_on_path()
    from datamodel_code_generator.model.pydantic.types import DataTypeManager as V1
    from datamodel_code_generator.model.pydantic_v2.types import DataTypeManager as V2
    from datamodel_code_generator.model.pydantic.types import number_kwargs, string_kwargs
    return {"v1": sorted(V1().kwargs_schema_to_model.items()), "v2": sorted(V2().kwargs_schema_to_model.items()),
            "number_kwargs": sorted(number_kwargs), "string_kwargs": sorted(string_kwargs)}


def r_constraints():
    t = constraint_tables()
    S = coq_string
    out = ["(* GENERATED on every run from model/pydantic/types.py and model/pydantic_v2/types.py. *)\nFrom Coq Require Import List String.\nImport ListNotations.\nOpen Scope string_scope.\n"]
    for k in ("v1", "v2"):
        out.append(f"Definition kw_table_{k} : list (string * string) := [" + "; ".join(f"({S(a)}, {S(b)})" for a, b in t[k]) + "].\n")
    out.append("Definition number_kwargs : list string := [" + "; ".join(S(x) for x in t["number_kwargs"]) + "].\n")
    out.append("Definition string_kwargs : list string := [" + "; ".join(S(x) for x in t["string_kwargs"]) + "].\n")
    lib.write_gen("ConstraintTables", "\n".join(out))


def input_tables():
    """how the definition sets of a document are found, and how the input type is inferred (AST / class attributes)"""
    lib.ensure_repo_on_path()
    import ast
    import inspect
    import textwrap
    import datamodel_code_generator as d
    from datamodel_code_generator.parser.jsonschema import JsonSchemaParser
    from datamodel_code_generator.parser.openapi import OpenAPIParser
    raw = ast.parse(textwrap.dedent(inspect.getsource(OpenAPIParser.parse_raw)))
    keys = []
    for node in ast.walk(raw):
        # specification.get("components", {}).get("schemas", {})
        if (isinstance(node, ast.AnnAssign) and ast.unparse(node.target) == "schemas" and node.value is not None) or \
                (isinstance(node, ast.Assign) and ast.unparse(node.targets[0]) == "schemas"):
            for c in ast.walk(node.value):
                if isinstance(c, ast.Call) and isinstance(c.func, ast.Attribute) and c.func.attr == "get" and c.args and isinstance(c.args[0], ast.Constant):
                    keys.append(c.args[0].value)
    keys = list(reversed(keys))
    inf = ast.parse(textwrap.dedent(inspect.getsource(d.infer_input_type)))
    order = [ast.unparse(n.test) + " -> " + ast.unparse(n.body[0].value) for n in ast.walk(inf) if isinstance(n, ast.If)]
    final = [ast.unparse(n.value) for n in inf.body[0].body if isinstance(n, ast.Return)]
    sch = ast.parse(textwrap.dedent(inspect.getsource(d.is_schema)))
    schema_keys = sorted({c.value for c in ast.walk(sch) if isinstance(c, ast.Constant) and isinstance(c.value, str) and not c.value.startswith("http")})
    return {"js_paths": list(JsonSchemaParser.SCHEMA_PATHS), "oa_paths": list(OpenAPIParser.SCHEMA_PATHS), "oa_raw_keys": keys,
            "infer": order + final, "is_schema_keys": schema_keys}


def r_input():
    t = input_tables()
    S = coq_string
    L = lambda xs: "[" + "; ".join(S(x) for x in xs) + "]"
    out = ["(* GENERATED on every run from parser/jsonschema.py, parser/openapi.py and __init__.py (class attributes / AST). *)\nFrom Coq Require Import List String.\nImport ListNotations.\nOpen Scope string_scope.\n".replace("\\n", "\n")]
    out.append(f"Definition js_schema_paths : list string := {L(t['js_paths'])}.\n".replace("\\n", "\n"))
    out.append(f"Definition oa_schema_paths : list string := {L(t['oa_paths'])}.\n".replace("\\n", "\n"))
    out.append(f"Definition oa_raw_keys : list string := {L(t['oa_raw_keys'])}.\n".replace("\\n", "\n"))
    out.append(f"Definition infer_steps : list string := {L(t['infer'])}.\n".replace("\\n", "\n"))
    out.append(f"Definition is_schema_keys : list string := {L(t['is_schema_keys'])}.\n".replace("\\n", "\n"))
    lib.write_gen("InputTables", "\n".join(out).replace("\\n", "\n"))


def skeleton_rows():
    """The class skeletons of every output model type, rendered by the real templates through generate() with neutral
    slot texts, over the structural flag combinations: number of members x description x base class x closed x
    schema descriptions on/off, plus enums and root models.  Row: (kind, shape, options) -> every written module compiles."""
    lib.ensure_repo_on_path()
    import itertools
    import json as _json
    from harness import e2e
    rows = []
    kinds = ["pydantic.BaseModel", "pydantic_v2.BaseModel", "dataclasses.dataclass", "typing.TypedDict", "msgspec.Struct"]
    for kind, nf, desc, base, closed, usd in itertools.product(kinds, (0, 1, 2), (0, 1, 2), (0, 1), (0, 1), (0, 1)):
        props = {f"m{i}": {"type": "integer", **({"description": "member text"} if desc else {})} for i in range(nf)}
        root = {"title": "Root", "type": "object", "properties": props}
        if desc == 1:
            root["description"] = "one line"
        elif desc == 2:
            root["description"] = "line one\nline two"
        if closed:
            root["additionalProperties"] = False
        defs = {"E": {"type": "string", "enum": ["a", "b"]}, "S": {"type": "string", "minLength": 1}, "L": {"type": "array", "items": {"type": "integer"}},
                "Z": {"type": "string", "enum": []} if nf == 0 and not desc else {"type": "string", "enum": ["z"], "description": "enum text"}}
        if base:
            defs["B"] = {"type": "object", "properties": {"b": {"type": "string"}}}
            root["allOf"] = [{"$ref": "#/definitions/B"}]
        root["definitions"] = defs
        opts = {"use_schema_description": True, "use_field_description": True} if usd else {}
        g = e2e.generate(_json.dumps(root), kind=kind, **opts)
        ok = False
        if g.ok:
            ok = True
            for text in g.files.values():
                try:
                    compile(text, "<skeleton>", "exec", dont_inherit=True)
                except SyntaxError:
                    ok = False
        elif g.error and not g.timeout and "Error" in type(g.error).__name__ if not isinstance(g.error, str) else False:
            ok = True
        rows.append((kind, f"members={nf} description={desc} base={base} closed={closed}", "descriptions" if usd else "plain", ok, bool(g.ok)))
    return rows


def r_skeleton():
    rows = skeleton_rows()
    S = coq_string
    out = ["(* GENERATED on every run: class skeletons rendered by the real templates (through generate()) with neutral slot texts,\n   one row per output model type x structural flag combination: (kind, shape, options, every module compiles, generation succeeded). *)\nFrom Coq Require Import List String Bool.\nImport ListNotations.\nOpen Scope string_scope.\n".replace("\\n", "\n")]
    out.append("Definition skeleton_table : list (string * string * string * bool * bool) := [\n" + ";\n".join(
        f"  ({S(a)}, {S(b)}, {S(c)}, {lib.coq_bool(d)}, {lib.coq_bool(e)})" for a, b, c, d, e in rows) + "].\n")
    lib.write_gen("SkeletonTable", "\n".join(out).replace("\\n", "\n"))


def hint_import_rows():
    """which typing / collections name the real DataType.imports yields for a list, a set and a dict, per spelling"""
    lib.ensure_repo_on_path()
    from datamodel_code_generator.types import DataType
    rows = []
    for uo in (False, True):
        for sc in (False, True):
            for gc in (False, True):
                row = []
                for flag in ("is_list", "is_set", "is_dict"):
                    dt = DataType(type="int", use_union_operator=uo, use_standard_collections=sc, use_generic_container=gc, **{flag: True})
                    names = [i.import_ for i in dt.imports]
                    if len(names) > 1:
                        raise RuntimeError(f"DataType.imports yields {names} for {flag}")
                    row.append(names[0] if names else None)
                rows.append(((uo, sc, gc), tuple(row)))
    return rows


def r_hint_imports():
    rows = hint_import_rows()

    def o(x):
        return "None" if x is None else f'(Some (of_string "{x}"))'
    out = ["(* GENERATED on every run from the real DataType.imports: (uo, sc, gc) -> (list import, set import, dict import). *)\nFrom DMCG Require Import HintImports.\nImport ListNotations.\n".replace("\\n", "\n")]
    out.append("Definition hint_import_table : imp_table := [\n" + ";\n".join(
        f"  (({lib.coq_bool(a)}, {lib.coq_bool(b)}, {lib.coq_bool(c)}), ({o(l)}, {o(s)}, {o(d)}))" for (a, b, c), (l, s, d) in rows) + "].\n")
    lib.write_gen("HintImportTable", "\n".join(out).replace("\\n", "\n"))


REFLECTORS = {
    "HintImportTable": r_hint_imports,
    "SkeletonTable": r_skeleton,
    "InputTables": r_input,
    "ConstraintTables": r_constraints,
    "DeterminismTables": r_determinism,
    "FieldTable": r_field_table,
    "AtomicTables": r_atomic,
    "VersionTables": r_version,
    "PlumbingTables": r_plumbing,
    "EscapeTables": r_escape,
    "UnicodeTables": r_unicode,
    "BaseModelAttrs": r_basemodel_attrs,
}


def reflect_all():
    """Run every reflector; return [(name, error)] for those that failed."""
    failed = []
    for name, fn in REFLECTORS.items():
        try:
            fn()
        except Exception:
            failed.append((name, traceback.format_exc()))
    return failed
