"""Reflectors: read tables from the imported /repo modules and the running CPython and emit them as
Coq data under coq/gen (tie T1).  Each reflector fails closed: an exception means the tie is broken."""
from __future__ import annotations

import keyword
import re
import traceback

from harness import lib
from harness.lib import coq_list, coq_ranges, coq_str

HEADER = "(* GENERATED on every run by /verif/harness/reflect.py from /repo and the running CPython. *)\nFrom DMCG Require Import Str Ranges.\nOpen Scope N_scope.\n\n"

_cache: dict = {}


def unicode_tables():
    if "uni" in _cache:
        return _cache["uni"]
    w = re.compile(r"\w")
    t = {
        "word_tbl": lib.ranges_of(lambda ch: w.match(ch) is not None),
        "xids_tbl": lib.ranges_of(lambda ch: ch.isidentifier()),
        "xidc_tbl": lib.ranges_of(lambda ch: ("a" + ch).isidentifier()),
        "numeric_tbl": lib.ranges_of(lambda ch: ch.isnumeric()),
    }
    lower, upper = [], []
    for c in range(0x110000):
        ch = chr(c)
        lo, up = ch.lower(), ch.upper()
        if lo != ch:
            lower.append((c, lo))
        if up != ch:
            upper.append((c, up))
    t["lower_map"], t["upper_map"] = lower, upper
    _cache["uni"] = t
    return t


def r_unicode():
    t = unicode_tables()
    out = [HEADER]
    for k in ("word_tbl", "xids_tbl", "xidc_tbl", "numeric_tbl"):
        out.append(f"Definition {k} : ranges := {coq_ranges(t[k])}.\n")
    for k in ("lower_map", "upper_map"):
        body = "; ".join(f"({c},{coq_str(s)})" for c, s in t[k])
        out.append(f"Definition {k} : cmap := [{body}].\n")
    out.append(f"Definition kwlist : list str := {coq_list(keyword.kwlist, coq_str)}.\n")
    lib.write_gen("UnicodeTables", "\n".join(out))


def r_basemodel_attrs():
    lib.ensure_repo_on_path()
    from datamodel_code_generator import reference

    bm = reference.BaseModel
    names = sorted(n for n in dir(bm) if hasattr(bm, n))
    # hasattr can be true for names dir() does not list (metaclass attributes)
    for n in dir(type(bm)):
        if hasattr(bm, n) and n not in names:
            names.append(n)
    names = sorted(set(names))
    lib.write_gen("BaseModelAttrs", HEADER + f"Definition base_attrs : list str := {coq_list(names, coq_str)}.\n")


def escape_tables():
    lib.ensure_repo_on_path()
    from datamodel_code_generator.parser import base as pbase
    from datamodel_code_generator.model.pydantic import types as ptypes
    from datamodel_code_generator.model import typed_dict as td

    out = {}
    for name, tbl in (("enum_table", pbase.escape_characters), ("regex_table", ptypes.escape_characters),
                      ("tdkey_table", td.escape_characters)):
        if not isinstance(tbl, dict) or not all(isinstance(k, int) and isinstance(v, str) for k, v in tbl.items()):
            raise TypeError(f"{name}: not a str.maketrans table of int -> str")
        out[name] = sorted(tbl.items())
    return out


def r_escape():
    t = escape_tables()
    out = [HEADER.replace("Str Ranges", "Str Escape")]
    for name, items in t.items():
        body = "; ".join(f"({k},{coq_str(v)})" for k, v in items)
        out.append(f"Definition {name} : etable := [{body}].\n")
    lib.write_gen("EscapeTables", "\n".join(out))


REFLECTORS = {
    "EscapeTables": r_escape,
    "UnicodeTables": r_unicode,
    "BaseModelAttrs": r_basemodel_attrs,
}


def reflect_all():
    """Run every reflector; return [(name, error)] for those that failed."""
    failed = []
    for name, fn in REFLECTORS.items():
        try:
            fn()
        except Exception:
            failed.append((name, traceback.format_exc()))
    return failed
