"""Shared machinery for C03 / C04 / C14 / C15 / C16: schemas of the supported subset, instances derived from
them (valid ones and one-step mutations), the jsonschema package as reference validator, and running the
generated pydantic models (v2 natively, v1-style through pydantic.v1)."""
from __future__ import annotations

import copy
import json

from harness import e2e


def to_draft7(s):
    """draft-4 boolean exclusive flags rewritten the way the specification defines them (true: the bound becomes the
    exclusive bound; false: inclusive), so that one reference validator (Draft 7) reads both spellings"""
    if isinstance(s, list):
        return [to_draft7(v) for v in s]
    if not isinstance(s, dict):
        return s
    out = {k: to_draft7(v) for k, v in s.items()}
    for flag, bound in (("exclusiveMinimum", "minimum"), ("exclusiveMaximum", "maximum")):
        if isinstance(out.get(flag), bool):
            if out.pop(flag) and bound in out:
                out[flag] = out.pop(bound)
    return out


def reference_valid(schema, inst):
    """the jsonschema package (Draft 7) as reference validator"""
    import jsonschema
    return not list(jsonschema.Draft7Validator(to_draft7(schema)).iter_errors(inst))


# ------------------------------------------------------------------------------------------
# schema generator: objects with typed properties, required, nested objects, arrays, $ref (also recursive),
# enum/const, nullable types, anyOf, allOf composition, additionalProperties, numeric/length bounds


def scalar(rng, constrained=True):
    t = rng.choice(["integer", "integer", "string", "string", "number", "boolean"])
    s = {"type": t}
    if constrained and rng.random() < 0.6:
        if t == "integer":
            lo = rng.choice([None, 0, 1, -5, 10])
            hi = None if lo is None and rng.random() < 0.5 else (lo or 0) + rng.choice([1, 3, 10, 100])
            style = rng.choice(["incl", "excl6", "mixed"])
            if lo is not None:
                s["exclusiveMinimum" if style == "excl6" else "minimum"] = lo
            if hi is not None:
                s["exclusiveMaximum" if style in ("excl6", "mixed") else "maximum"] = hi
            if rng.random() < 0.2:
                s["multipleOf"] = rng.choice([2, 5])
        elif t == "number":
            if rng.random() < 0.7:
                s["minimum"] = rng.choice([0, 0.5, -2.5, 1])
            if rng.random() < 0.5:
                s["maximum"] = s.get("minimum", 0) + rng.choice([1, 2.5, 100])
        elif t == "string":
            if rng.random() < 0.6:
                s["minLength"] = rng.choice([0, 1, 3])
            if rng.random() < 0.5:
                s["maxLength"] = s.get("minLength", 0) + rng.choice([0, 2, 10])
            if rng.random() < 0.25:
                s["pattern"] = rng.choice(["^[a-z]+$", "^a", "\\d+$", "^x.y$"])
    return s


def nullable_enum(rng):
    return {"type": ["string", "null"], "enum": rng.sample(["a", "b", "c d"], 2) + [None]}


def prop(rng, names, depth, member=True):
    r = rng.random()
    if r < 0.45 or depth >= 2:
        s = scalar(rng)
        q = rng.random()
        if q < 0.08:
            s = {"type": [s["type"], "null"]}
        elif q < 0.16:
            s["type"] = [s["type"], "null"]          # nullable, constraints kept
        elif q < 0.24:
            s = nullable_enum(rng)
        return s
    if r < 0.55:
        return {"enum": rng.choice([["a", "b"], [1, 2, 3], ["x"]]), "type": rng.choice(["string", None])} if False else {"type": "string", "enum": rng.sample(["a", "b", "c d", "e-f"], 2)}
    if r < 0.6:
        return {"const": rng.choice(["k", 7])}
    if r < 0.72:
        # (a nullable array below member level loses its nullability: known finding C03-nested-nullable-array)
        a = {"type": rng.choice(["array", "array", "array", ["array", "null"]]) if member else "array", "items": prop(rng, names, depth + 1, member=False)}
        if rng.random() < 0.5:
            a["minItems"] = rng.choice([0, 1, 2])
        if rng.random() < 0.4:
            a["maxItems"] = a.get("minItems", 0) + rng.choice([0, 1, 3])
        return a
    if r < 0.8 and names:
        return {"$ref": "#/definitions/" + rng.choice(names)}
    if r < 0.87:
        key = rng.choice(["anyOf", "anyOf", "oneOf"])
        q = rng.random()
        if q < 0.15:
            return {key: [nullable_enum(rng), {"type": "integer"}]}
        if q < 0.3 and names:
            return {key: [{"$ref": "#/definitions/" + rng.choice(names)}, {"type": rng.choice(["integer", "boolean"])}]}
        if q < 0.45:
            t = rng.choice(["string", "integer"])
            u = {"anyOf": [{"type": t}, {"type": [t, "null"]}]}      # the second alternative is the nullable form of the first
            return rng.choice([{"type": "array", "items": u}, {"type": "object", "additionalProperties": u}, u])
        return {key: [scalar(rng, False), {"type": "array", "items": scalar(rng, False)}]} if rng.random() < 0.5 else {key: [{"type": "string"}, {"type": "integer"}]}
    if r < 0.93:
        if names and rng.random() < 0.25:
            return {"type": "object", "additionalProperties": {"$ref": "#/definitions/" + rng.choice(names)}}
        return {"type": "object", "additionalProperties": nullable_enum(rng) if rng.random() < 0.15 else scalar(rng, False)}
    return obj(rng, names, depth + 1)


def obj(rng, names, depth=0, base=None, inherited=()):
    n = rng.choice([1, 2, 3, 4])
    pnames = rng.sample(["id", "name", "first-name", "class", "value", "count", "tags", "x_y", "Self", "data", "n1", "kind"], n)
    props = {p: prop(rng, names, depth) for p in pnames}
    o = {"type": "object", "properties": props}
    req = [p for p in pnames if rng.random() < 0.5]
    if req:
        o["required"] = req
    if rng.random() < 0.2:
        o["additionalProperties"] = False
    if base and rng.random() < 0.6:
        o["allOf"] = [{"$ref": "#/definitions/" + base}]
        if inherited and rng.random() < 0.4:
            # the child requires members it inherits
            o["required"] = sorted(set(o.get("required", [])) | set(rng.sample(inherited, rng.choice([1, min(2, len(inherited))]))))
    if depth == 0 and rng.random() < 0.15 and "additionalProperties" not in o:
        # the same object written as sibling allOf branches: parent, properties, required
        parts = list(o.pop("allOf", []))
        parts.append({"type": "object", "properties": o.pop("properties")})
        if "required" in o:
            parts.append({"required": o.pop("required")})
        o = {"allOf": parts}
    return o


def gen_document(rng):
    k = rng.choice([1, 2, 3])
    names = [f"D{i}" for i in range(k)]
    defs = {}
    for i, nm in enumerate(names):
        if rng.random() < 0.25:
            d = scalar(rng)          # a named scalar (root model), often constrained
            if d["type"] == "boolean":
                d = {"type": "string", "minLength": 3}
            defs[nm] = d
            continue
        base = names[i - 1] if i > 0 and rng.random() < 0.3 and defs[names[i - 1]].get("type") == "object" and "additionalProperties" not in defs[names[i - 1]] else None
        inherited = sorted((defs[base].get("properties") or {})) if base else ()
        defs[nm] = obj(rng, names[: i + 1] if rng.random() < 0.5 else names[:i], 0, base, inherited)
    root = obj(rng, names, 0)
    root["title"] = "Root"
    root["definitions"] = defs
    return root


# ------------------------------------------------------------------------------------------
# instances


def resolve(doc, s):
    """follow $ref; an object written with allOf is returned as the merged object (properties, required)"""
    while isinstance(s, dict) and "$ref" in s:
        s = doc["definitions"][s["$ref"].split("/")[-1]]
    if isinstance(s, dict) and "allOf" in s:
        props, req = {}, []
        m = {k: v for k, v in s.items() if k not in ("allOf", "properties", "required")}
        for part in list(s["allOf"]) + [{k: v for k, v in s.items() if k in ("properties", "required")}]:
            pm = resolve(doc, part)
            props.update(pm.get("properties", {}))
            req += pm.get("required", [])
        m["type"] = "object"
        m["properties"] = props
        if req:
            m["required"] = sorted(set(req))
        return m
    return s


def flatten(doc):
    """the document with every allOf-composed object replaced by its merged form (used by the guards)"""
    def walk(s):
        if isinstance(s, dict):
            if "allOf" in s:
                s = resolve(doc, s)
            return {k: walk(v) for k, v in s.items()}
        if isinstance(s, list):
            return [walk(v) for v in s]
        return s
    return walk(doc)


def admits_null_alt(s):
    """an anyOf / oneOf (possibly nested) one of whose alternatives admits null"""
    if not isinstance(s, dict):
        return False
    for key in ("anyOf", "oneOf"):
        for a in s.get(key, []):
            if isinstance(a, dict) and ((isinstance(a.get("type"), list) and "null" in a["type"]) or a.get("type") == "null"
                                        or (None in a.get("enum", [])) or admits_null_alt(a)):
                return True
    return False


def refers_to(s, name):
    if isinstance(s, dict):
        if s.get("$ref", "").endswith("/" + name):
            return True
        return any(refers_to(v, name) for k, v in s.items() if k != "properties")
    if isinstance(s, list):
        return any(refers_to(v, name) for v in s)
    return False


def self_referencing_constrained_member(doc):
    """a member of definition D whose own type mentions D again (array / map / union of D) and that carries item counts:
    the field rendering drops the constraints of a self-referencing field"""
    for name, d in (doc.get("definitions") or {}).items():
        flat_d = resolve(doc, d) if isinstance(d, dict) and "allOf" in d else d
        for p, ps in ((flat_d or {}).get("properties") or {}).items():
            if isinstance(ps, dict) and ("minItems" in ps or "maxItems" in ps) and refers_to(ps, name):
                return True
    return False


def overridden_required_member(doc):
    """a child (allOf with a $ref parent) that declares a member of the parent again without requiring it, while the parent requires it"""
    def walk(s):
        if isinstance(s, dict):
            if "allOf" in s:
                own = dict(s.get("properties") or {})
                own_req = set(s.get("required", []))
                parent_req = set()
                for part in s["allOf"]:
                    if isinstance(part, dict) and "$ref" in part:
                        parent_req |= set(resolve(doc, part).get("required", []))
                    elif isinstance(part, dict):
                        own.update(part.get("properties") or {})
                        own_req |= set(part.get("required", []))
                if any(p in parent_req and p not in own_req for p in own):
                    return True
            return any(walk(v) for v in s.values())
        if isinstance(s, list):
            return any(walk(v) for v in s)
        return False
    return walk(doc)


class NoInstance(Exception):
    """required members form a reference cycle: the schema has no finite instance"""


def valid_instance(rng, doc, s, depth=0, boundary=None):
    if depth > 12:
        raise NoInstance
    s = resolve(doc, s)
    if "const" in s:
        return s["const"]
    if "enum" in s:
        return rng.choice(s["enum"])
    for key in ("anyOf", "oneOf"):
        if key in s:
            return valid_instance(rng, doc, rng.choice(s[key]), depth + 1, boundary)
    t = s.get("type")
    if isinstance(t, list):
        nn = [x for x in t if x != "null"]
        if rng.random() < 0.3 or not nn:
            return None
        t = nn[0]
    if t == "integer":
        lo = s.get("minimum", s.get("exclusiveMinimum", -3) + 1 if "exclusiveMinimum" in s else None)
        hi = s.get("maximum", s.get("exclusiveMaximum", 3) - 1 if "exclusiveMaximum" in s else None)
        if lo is None and hi is None:
            v = rng.choice([0, 1, -7, 12])
        elif lo is None:
            v = hi - rng.choice([0, 1, 5])
        elif hi is None:
            v = lo + rng.choice([0, 1, 5])
        else:
            v = rng.choice([lo, hi, (lo + hi) // 2])
        m = s.get("multipleOf")
        if m:
            v = (v // m) * m
            if lo is not None and v < lo:
                v += m
        return int(v)
    if t == "number":
        lo, hi = s.get("minimum"), s.get("maximum")
        if lo is None and hi is None:
            return rng.choice([0.5, 2.0, -1.25])
        if lo is None:
            return hi
        if hi is None:
            return lo + rng.choice([0, 0.5])
        return rng.choice([lo, hi, (lo + hi) / 2])
    if t == "string":
        lo, hi = s.get("minLength", 0), s.get("maxLength")
        pat = s.get("pattern")
        n = rng.choice([lo, hi if hi is not None else lo + 2])
        base = {"^[a-z]+$": "a", "^a": "a", "\\d+$": "1", "^x.y$": None}.get(pat, "a")
        if pat == "^x.y$":
            return "xay" if (lo <= 3 and (hi is None or hi >= 3)) else "xay"
        v = (base or "a") * max(n, 1 if pat else 0)
        return v
    if t == "boolean":
        return rng.choice([True, False])
    if t == "null":
        return None
    if t == "array":
        lo, hi = s.get("minItems", 0), s.get("maxItems")
        n = rng.choice([lo, hi if hi is not None else lo + 1])
        if depth > 3:
            n = lo
        return [valid_instance(rng, doc, s.get("items", {}), depth + 1, boundary) for _ in range(n)]
    if t == "object" or "properties" in s:
        out = {}
        req = set(s.get("required", []))
        for p, ps in s.get("properties", {}).items():
            if p in req or (rng.random() < 0.5 and depth < 3):
                out[p] = valid_instance(rng, doc, ps, depth + 1, boundary)
        ap = s.get("additionalProperties")
        if isinstance(ap, dict) and not s.get("properties"):
            for k in rng.sample(["k1", "k2"], rng.choice([0, 1, 2])):
                out[k] = valid_instance(rng, doc, ap, depth + 1, boundary)
        return out
    return rng.choice([1, "s", None])


def mutations(rng, doc, s, inst, path=()):
    """One-step violations: yields (description, mutated instance). Only at the top two object levels."""
    s = resolve(doc, s)
    if not isinstance(inst, dict):
        return
    req = list(s.get("required", []))
    for p in req:
        if p in inst:
            m = copy.deepcopy(inst)
            del m[p]
            yield (f"required member {'/'.join(path + (p,))} dropped", m)
    if s.get("additionalProperties") is False:
        m = copy.deepcopy(inst)
        m["zz_extra"] = 1
        yield ("extra member with additionalProperties: false", m)
    for p, ps in s.get("properties", {}).items():
        if p not in inst:
            continue
        ps_r = resolve(doc, ps)
        v = inst[p]
        def put(x, why):
            m = copy.deepcopy(inst)
            m[p] = x
            return (f"{'/'.join(path + (p,))}: {why}", m)
        t = ps_r.get("type")
        if t == "integer" and isinstance(v, int) and not isinstance(v, bool):
            if "minimum" in ps_r:
                yield put(ps_r["minimum"] - 1, "below minimum")
            if "maximum" in ps_r:
                yield put(ps_r["maximum"] + 1, "above maximum")
            if "exclusiveMinimum" in ps_r:
                yield put(ps_r["exclusiveMinimum"], "equal to exclusiveMinimum")
            if "exclusiveMaximum" in ps_r:
                yield put(ps_r["exclusiveMaximum"], "equal to exclusiveMaximum")
            if "multipleOf" in ps_r:
                yield put(v + 1 if (v + 1) % ps_r["multipleOf"] else v + 3, "not a multiple")
            yield put("not-a-number", "wrong type (string for integer)")
        if t == "string" and isinstance(v, str):
            if ps_r.get("minLength", 0) > 0:
                yield put("a" * (ps_r["minLength"] - 1) if "pattern" not in ps_r else "", "shorter than minLength")
            if "maxLength" in ps_r:
                yield put("a" * (ps_r["maxLength"] + 1), "longer than maxLength")
            if ps_r.get("pattern") in ("^[a-z]+$", "^a", "^x.y$"):
                yield put("Z9", "pattern miss")
            if "enum" in ps_r:
                yield put("not-a-member", "not in enum")
            yield put(["list"], "wrong type (array for string)")
        if "const" in ps_r:
            yield put("other" if ps_r["const"] != "other" else "x", "not the const value")
        if t == "array" and isinstance(v, list):
            if ps_r.get("minItems", 0) > 0:
                yield put(v[: ps_r["minItems"] - 1], "fewer than minItems")
            if "maxItems" in ps_r and v:
                yield put(v + [v[0]] * (ps_r["maxItems"] - len(v) + 1), "more than maxItems")
        if isinstance(v, dict) and len(path) < 1:
            for why, mv in mutations(rng, doc, ps_r, v, path + (p,)):
                m = copy.deepcopy(inst)
                m[p] = mv
                yield (why, m)


# ------------------------------------------------------------------------------------------
# running the generated models


class Built:
    def __init__(self, kind, text, mod):
        self.kind, self.text, self.mod = kind, text, mod
        self.root = getattr(mod, "Root", None)

    def validate(self, inst):
        if self.kind == "pydantic_v2.BaseModel":
            return self.root.model_validate(inst)
        if self.kind == "pydantic.BaseModel":
            return self.root.parse_obj(inst)
        from pydantic import TypeAdapter
        return TypeAdapter(self.root).validate_python(inst)

    def accepts_strict(self, inst):
        """pydantic v2 on exactly typed JSON (no lax coercion): the JSON text validated in strict mode"""
        try:
            self.root.model_validate_json(json.dumps(inst), strict=True)
            return True
        except Exception:  # noqa: BLE001
            return False

    def accepts(self, inst):
        try:
            self.validate(inst)
            return True, None
        except Exception as e:  # noqa: BLE001
            return False, f"{type(e).__name__}: {str(e)[:160]}"

    def dump(self, obj):
        if self.kind == "pydantic_v2.BaseModel":
            return json.loads(obj.model_dump_json(by_alias=True, exclude_unset=True))
        if self.kind == "pydantic.BaseModel":
            return json.loads(obj.json(by_alias=True, exclude_unset=True))
        return obj

    def json_schema(self):
        if self.kind == "pydantic_v2.BaseModel":
            return self.root.model_json_schema(by_alias=True)
        if self.kind == "pydantic.BaseModel":
            return self.root.schema(by_alias=True)
        return None

    def close(self):
        e2e.unload(self.mod)


def build(doc_or_text, kind="pydantic_v2.BaseModel", file_type="jsonschema", **opts):
    """-> (Built | None, error text | None).  error None and Built None: generation reported an error."""
    text = doc_or_text if isinstance(doc_or_text, str) else json.dumps(doc_or_text)
    if opts.get("strict_types"):
        from datamodel_code_generator.types import StrictTypes
        opts = dict(opts, strict_types=[StrictTypes(x) for x in opts["strict_types"]])
    g = e2e.generate(text, kind=kind, file_type=file_type, **opts)
    if g.timeout:
        return None, "generate() does not terminate"
    if not g.ok:
        return None, None
    err = e2e.parses(g.text)
    if err:
        return None, f"output does not parse: {err}"
    mod, err = e2e.load_module(g.text, kind)
    if err:
        return None, f"exec: {err}"
    return Built(kind, g.text, mod), None


KEYWORDS = ["minimum", "maximum", "exclusiveMinimum", "exclusiveMaximum", "multipleOf", "minLength", "maxLength", "pattern", "minItems", "maxItems",
            "enum", "const", "required", "additionalProperties"]


def _num(v):
    """2.0 and 2 are the same JSON number: written the same way before texts are compared"""
    return int(v) if isinstance(v, float) and v.is_integer() else v


def norm_reported(schema):
    """Flatten pydantic's reported JSON Schema to {pointer: {keyword: value}} for the keywords of C04, following $ref,
    unwrapping anyOf [X, null]."""
    defs = schema.get("$defs", schema.get("definitions", {}))
    out = {}

    def deref(s, seen=()):
        while isinstance(s, dict) and "$ref" in s and s["$ref"] not in seen:
            seen = seen + (s["$ref"],)
            s = defs.get(s["$ref"].split("/")[-1], {})
        if isinstance(s, dict) and "allOf" in s and len(s["allOf"]) == 1 and len([k for k in s if k not in ("allOf", "title", "default", "description")]) == 0:
            return deref(s["allOf"][0], seen)
        if isinstance(s, dict) and "anyOf" in s:
            nn = [x for x in s["anyOf"] if x.get("type") != "null"]
            if len(nn) == 1:
                merged = dict(deref(nn[0], seen))
                return merged
        return s

    def walk(s, ptr, depth, out):
        s = deref(s)
        if not isinstance(s, dict) or depth > 4:
            return
        kws = {k: _num(s[k]) for k in KEYWORDS if k in s and not (k == "additionalProperties" and s[k] is not False)}
        if "required" in kws:
            kws["required"] = sorted(kws["required"])
        if "enum" in kws:
            kws["enum"] = sorted(map(repr, [e for e in kws["enum"] if e is not None]))
        if kws:
            out[ptr] = kws
        for p, ps in s.get("properties", {}).items():
            walk(ps, f"{ptr}/{p}", depth + 1, out)
        if isinstance(s.get("items"), dict):
            walk(s["items"], ptr + "/[]", depth + 1, out)
        if isinstance(s.get("additionalProperties"), dict):
            walk(s["additionalProperties"], ptr + "/{}", depth + 1, out)
        for key in ("anyOf", "oneOf"):
            if isinstance(s.get(key), list) and depth <= 3:
                alts = []
                for a in s[key]:
                    sub = {}
                    walk(a, "", depth + 1, sub)
                    ad = deref(a)
                    sub["type"] = ad.get("type") if isinstance(ad, dict) else None
                    alts.append(json.dumps(sub, sort_keys=True, default=str))
                out[ptr + "/|"] = {"alternatives": sorted(alts)}
    walk(schema, "", 0, out)
    return out


def norm_input(doc):
    """The same flattening for the input schema (draft-4 booleans rewritten, allOf parents merged)."""
    out = {}

    def deref(s):
        seen = set()
        while isinstance(s, dict) and "$ref" in s and s["$ref"] not in seen:
            seen.add(s["$ref"])
            s = doc["definitions"][s["$ref"].split("/")[-1]]
        return s

    def merged_object(s):
        s = deref(s)
        if "allOf" in s:
            props, req = {}, []
            for part in s["allOf"]:
                pm = merged_object(part)
                props.update(pm.get("properties", {}))
                req += pm.get("required", [])
            own = {k: v for k, v in s.items() if k != "allOf"}
            props.update(own.get("properties", {}))
            req += own.get("required", [])
            m = dict(own)
            m["properties"] = props
            if req:
                m["required"] = sorted(set(req))
            return m
        return s

    def walk(s, ptr, depth):
        s = merged_object(s)
        if not isinstance(s, dict) or depth > 4:
            return
        t = s.get("type")
        if isinstance(t, list):
            nn = [x for x in t if x != "null"]
            s = dict(s, type=nn[0] if len(nn) == 1 else t)
        s = dict(s)
        if s.get("exclusiveMinimum") is True:
            s["exclusiveMinimum"] = s.pop("minimum")
        elif s.get("exclusiveMinimum") is False:
            s.pop("exclusiveMinimum")
        if s.get("exclusiveMaximum") is True:
            s["exclusiveMaximum"] = s.pop("maximum")
        elif s.get("exclusiveMaximum") is False:
            s.pop("exclusiveMaximum")
        kws = {k: _num(s[k]) for k in KEYWORDS if k in s and not (k == "additionalProperties" and s[k] is not False)}
        if "required" in kws:
            kws["required"] = sorted(kws["required"])
        if "enum" in kws:
            kws["enum"] = sorted(map(repr, [e for e in kws["enum"] if e is not None]))
        if kws:
            out[ptr] = kws
        for p, ps in s.get("properties", {}).items():
            walk(ps, f"{ptr}/{p}", depth + 1)
        if isinstance(s.get("items"), dict):
            walk(s["items"], ptr + "/[]", depth + 1)
        if isinstance(s.get("additionalProperties"), dict):
            walk(s["additionalProperties"], ptr + "/{}", depth + 1)
    walk(doc, "", 0)
    return out
