"""C18 - CLI flags, pyproject.toml settings and generate() arguments agree."""
from __future__ import annotations

import argparse
import contextlib
import io
import json
import os
import shutil
import tempfile
from pathlib import Path

from harness import lib, e2e

PID = "C18"
PROPS_V = "props/C18.v"
TABLES = ("PlumbingTables",)
RULE = ("correspondence: for EVERY argparse option x {nothing, pyproject only, command line only, both with different "
        "values, command line with a falsy value}: main() is run in-process with generate replaced by a recorder and a "
        "temporary pyproject.toml; the recorded keyword argument is compared with the extracted model (forwarded/merged); "
        "falsifier: real runs (main() with the real generate) comparing the output of command line / pyproject / generate() "
        "kwargs for options with a visible effect, exit codes on success and failure. non-trivial = option source differs")
TRUSTED = ["argparse and tomllib as libraries; the reflected keyword map is read from the AST of main() and cross-checked behaviourally here"]
ASSUMPTIONS = ["main() is called with a fresh argparse Namespace (the shared module-level Namespace is a known finding of C08/C18)"]

SKIP = {"help", "version", "no_color", "debug", "url", "input", "output"}
SCHEMA = {"title": "Pet", "type": "object", "properties": {"petName": {"type": "string", "description": "d"},
                                                             "tags": {"type": "array", "items": {"type": "string"}},
                                                             "kind": {"type": "string", "enum": ["a", "b"]},
                                                             "n": {"type": ["integer", "null"], "minimum": 1},
                                                             "owner": {"type": "object", "properties": {"name": {"type": "string"}, "_x": {"type": "integer"}}}},
          "required": ["petName"]}


@contextlib.contextmanager
def sandbox(pyproject: dict | None):
    lib.WORK.mkdir(exist_ok=True)
    d = Path(tempfile.mkdtemp(prefix="c18", dir=lib.WORK))
    (d / ".git").mkdir()
    (d / "schema.json").write_text(json.dumps(SCHEMA))
    (d / "aliases.json").write_text(json.dumps({"petName": "pet_name_alias"}))
    (d / "extra.json").write_text(json.dumps({"Pet": {"comment": "c"}}))
    (d / "kw.json").write_text(json.dumps({"a": "b"}))
    (d / "header.txt").write_text("# header\n")
    (d / "tpl").mkdir()
    (d / "tpl2").mkdir()
    if pyproject is not None:
        lines = ["[tool.datamodel-codegen]"]
        for k, v in pyproject.items():
            lines.append(f"{k.replace('_', '-')} = {toml_value(v)}")
        (d / "pyproject.toml").write_text("\n".join(lines) + "\n")
    cwd = os.getcwd()
    os.chdir(d)
    try:
        yield d
    finally:
        os.chdir(cwd)
        shutil.rmtree(d, ignore_errors=True)


def toml_value(v):
    if isinstance(v, bool):
        return "true" if v else "false"
    if isinstance(v, list):
        return "[" + ", ".join(toml_value(x) for x in v) + "]"
    return json.dumps(str(v))


def run_main(argv, recorder=True):
    """Run main() with a fresh namespace. Returns (exit code, recorded kwargs or None, stderr)."""
    from datamodel_code_generator import __main__ as m
    rec = {}
    old_gen, old_ns = m.generate, m.namespace
    m.namespace = argparse.Namespace(no_color=False)
    if recorder:
        m.generate = lambda **kw: rec.update(kw)
    err = io.StringIO()
    try:
        with contextlib.redirect_stderr(err), contextlib.redirect_stdout(io.StringIO()):
            try:
                code = m.main(argv)
            except SystemExit as e:
                code = e.code
        return int(code), (rec if recorder else None), err.getvalue()
    finally:
        m.generate, m.namespace = old_gen, old_ns


def option_values(action):
    """(cli argv, cli token, pyproject value) pairs with two different values where the option allows it."""
    flag = sorted(action.option_strings, key=len)[-1]
    kind = type(action).__name__
    if kind == "_StoreTrueAction":
        return [flag], True, False          # both: CLI true vs pyproject false
    if action.choices:
        ch = list(action.choices)
        a, b = ch[0], ch[1 % len(ch)]
        if action.dest == "output_datetime_class":
            a = b = "datetime"
        if action.dest == "output_model_type":
            a, b = "pydantic_v2.BaseModel", "dataclasses.dataclass"
        if action.dest == "target_python_version":
            a, b = "3.11", "3.10"
        if action.dest == "input_file_type":
            a, b = "jsonschema", "openapi"
        if action.dest == "openapi_scopes":
            a, b = "paths", "tags"
        if action.nargs == "+":
            return [flag, a], [a], [b]
        return [flag, a], a, b
    if isinstance(action.type, argparse.FileType):
        f = {"aliases": "aliases.json", "extra_template_data": "extra.json", "custom_formatters_kwargs": "kw.json"}[action.dest]
        return [flag, f], f, None
    if action.dest == "custom_file_header_path":
        return [flag, "header.txt"], "header.txt", "header.txt"
    if action.dest == "custom_template_dir":
        return [flag, "tpl"], "tpl", "tpl2"
    if action.dest == "encoding":
        return [flag, "utf-16"], "utf-16", "latin-1"
    if action.dest == "http_headers":
        return [flag, "a:b"], ["a:b"], None
    if action.dest == "http_query_parameters":
        return [flag, "a=b"], ["a=b"], None
    if action.nargs == "+":
        return [flag, "cliv"], ["cliv"], ["pyv"]
    return [flag, "cliv"], "cliv", "pyv"


def canon(v):
    if hasattr(v, "value") and not isinstance(v, (str, int, float)):
        return canon(v.value)
    if isinstance(v, (list, tuple, set, frozenset)):
        return sorted(str(canon(x)) for x in v)
    if isinstance(v, Path):
        return v.name
    if isinstance(v, dict):
        return {k: canon(x) for k, x in v.items()}
    return v


def correspond(ctx):
    from datamodel_code_generator.arguments import arg_parser
    from harness import reflect
    t = reflect.plumbing_tables()
    fwd = {}
    for k, f in t["fwd"]:
        fwd.setdefault(f, []).append(k)
    drv = lib.Driver()
    bad = 0
    base = ["--input", "schema.json"]
    for action in arg_parser._actions:
        d = action.dest
        if d in SKIP:
            continue
        argv, cli_val, py_val = option_values(action)
        base = ["--input", "schema.json"] + (["--snake-case-field"] if d == "original_field_name_delimiter" else [])
        kws = fwd.get(d, [])
        runs = {}
        with sandbox(None):
            runs["none"] = run_main(base)
        with sandbox(None):
            runs["cli"] = run_main(base + argv)
        extra_py = {"snake_case_field": True} if d == "original_field_name_delimiter" else {}
        if py_val is not None:
            with sandbox({d: py_val, **extra_py}):
                runs["py"] = run_main(base)
            with sandbox({d: py_val, **extra_py}):
                runs["both"] = run_main(base + argv)
        falsy = None
        if type(action).__name__ == "_StoreAction" and not action.choices and action.nargs is None and not isinstance(action.type, argparse.FileType) \
                and d not in ("custom_file_header_path", "custom_template_dir", "encoding") and py_val is not None:
            flag = sorted(action.option_strings, key=len)[-1]
            with sandbox({d: py_val, **extra_py}):
                runs["falsy"] = run_main(base + [flag, ""])
        for name, (code, rec, err) in runs.items():
            ctx.count("eval_main")
            ctx.nontrivial((d, name))
            if code != 0:
                bad += 1
                if bad <= 5:
                    ctx.tie_broken("correspondence", f"main() failed for option {d} given as {name}", err[-400:], hint=d)
        if any(code != 0 for code, _, _ in runs.values()):
            continue
        for k in kws:
            # model: which source does the keyword argument come from?
            reqs, names = [], []
            for name in runs:
                cli = f"{d}=CLI" if name in ("cli", "both", "falsy") else ""
                py = f"{d}=PY" if name in ("py", "both", "falsy") else ""
                reqs.append(f"fwd\t{k}\t{cli}\t{py}")
                names.append(name)
            outs = drv.batch(reqs)
            vals = {name: canon(runs[name][1].get(k)) for name in runs}
            for name, src in zip(names, outs):
                ctx.count("eval_model")
                if src == "NOTFORWARDED":
                    bad += 1
                    ctx.tie_broken("correspondence", f"model does not forward {d} as {k}", "")
                    continue
                want = {"DEFAULT": vals["none"], "CLI": vals["cli"] if name != "falsy" else "", "PY": vals.get("py")}[src]
                got = vals[name]
                if name == "falsy":
                    want = canon("")
                    if got == [""]:
                        got = ""  # comma separated list options split the empty string into ['']
                if got != want:
                    bad += 1
                    if bad <= 6:
                        ctx.tie_broken("correspondence", f"option {d} given as {name}: generate({k}=...) got {got!r}, model says the {src} value {want!r}",
                                       json.dumps({"option": d, "kwarg": k, "source": name, "values": vals}, default=str), hint=d)
            # the sources must be distinguishable, otherwise the comparison says nothing
            if "py" in vals and vals["py"] == vals["none"] and py_val not in (False, None) and d not in ("output_datetime_class",):
                bad += 1
                ctx.tie_broken("correspondence", f"pyproject-only value of {d} does not reach generate({k}=...)", json.dumps(vals, default=str), hint=d)
            if vals["cli"] == vals["none"] and d not in ("output_datetime_class",):
                bad += 1
                ctx.tie_broken("correspondence", f"command-line value of {d} does not reach generate({k}=...)", json.dumps(vals, default=str), hint=d)
        ctx.bucket("kind", type(action).__name__)
    ctx.extra["exhaustive"] = True
    ctx.extra["options"] = len(arg_parser._actions)
    ctx.count("disagreements", bad)
    ctx.sample({"option": "snake_case_field", "sources": ["none", "cli", "py", "both"]})


# ---------------------------------------------------------------------------------------------
# falsifier: real generation, three ways

VISIBLE = {
    "parent_scoped_naming": True,
    "snake_case_field": True, "use_standard_collections": True, "use_union_operator": True, "field_constraints": True,
    "use_schema_description": True, "use_field_description": True, "strip_default_none": True, "force_optional": True,
    "use_double_quotes": True, "use_annotated": True, "use_default_kwarg": True, "allow_extra_fields": True,
    "class_name": "Zoo", "base_class": "pkg.Base", "enum_field_as_literal": "all", "output_model_type": "dataclasses.dataclass",
    "target_python_version": "3.11", "use_subclass_enum": True, "capitalise_enum_members": True, "set_default_enum_member": True,
    "keep_model_order": True, "use_generic_container_types": True, "special_field_name_prefix": "zz", "no_alias": True,
    "custom_file_header": "# hdr", "use_title_as_name": True, "collapse_root_models": True, "enable_faux_immutability": True,
    "allow_population_by_field_name": True, "strict_nullable": True, "strict_types": ["str"], "additional_imports": "os.path",
    "wrap_string_literal": True, "empty_enum_field_name": "emp", "original_field_name_delimiter": "-",
}


def three_ways(option, value, other=None):
    """Returns violation text or None."""
    from datamodel_code_generator.arguments import arg_parser
    from harness import reflect
    import datamodel_code_generator as dm
    action = next(a for a in arg_parser._actions if a.dest == option)
    flag = sorted(action.option_strings, key=len)[-1]
    if value is True:
        argv = [flag]
    elif isinstance(value, list):
        argv = [flag, *value]
    else:
        argv = [flag, str(value)]
    base = ["--input", "schema.json", "--output", "out.py", "--disable-timestamp"]
    outs = {}
    with sandbox(None) as d:
        code, _, err = run_main(base + argv, recorder=False)
        if code != 0:
            return None
        outs["cli"] = (d / "out.py").read_text()
    with sandbox({option: value}) as d:
        code, _, err = run_main(base, recorder=False)
        if code != 0:
            return f"pyproject {option}={value!r} fails ({err[-200:]}) although the command line form succeeds"
        outs["pyproject"] = (d / "out.py").read_text()
    if other is not None:
        with sandbox({option: other}) as d:
            code, _, err = run_main(base + argv, recorder=False)
            if code == 0:
                outs["both"] = (d / "out.py").read_text()
    with sandbox(None) as d:
        code, _, err = run_main(base, recorder=False)
        outs["default"] = (d / "out.py").read_text() if code == 0 else ""
    # generate() keyword form
    t = reflect.plumbing_tables()
    kws = [k for k, f in t["fwd"] if f == option]
    if kws:
        with sandbox(None) as d:
            import inspect
            sig = inspect.signature(dm.generate)
            kw = {}
            v = value
            ann = option
            if option == "output_model_type":
                v = dm.DataModelType(value)
            elif option == "target_python_version":
                from datamodel_code_generator.format import PythonVersion
                v = PythonVersion(value)
            elif option == "enum_field_as_literal":
                from datamodel_code_generator.parser import LiteralType
                v = LiteralType(value)
            elif option == "strict_types":
                from datamodel_code_generator.types import StrictTypes
                v = [StrictTypes(x) for x in value]
            elif option == "additional_imports":
                v = [value]
            kw[kws[0]] = v
            if option == "use_annotated":
                kw["field_constraints"] = True
            try:
                with contextlib.redirect_stderr(io.StringIO()):
                    dm.generate(Path("schema.json"), input_file_type=dm.InputFileType.Auto, output=Path("out.py"), disable_timestamp=True, **kw)
                outs["generate"] = (d / "out.py").read_text()
            except Exception as e:  # noqa: BLE001
                outs["generate"] = f"<error {type(e).__name__}: {e}>"
    if outs["pyproject"] != outs["cli"]:
        return f"{option}: output differs between command line and pyproject.toml"
    if "both" in outs and outs["both"] != outs["cli"]:
        return f"{option}: command line does not win over pyproject.toml"
    if "generate" in outs and outs["generate"] != outs["cli"]:
        return f"{option}: generate({kws[0]}=...) output differs from the command line output"
    return None


def relative_paths():
    """path-valued options written relative to the working directory - on the command line and in pyproject.toml, with the output
    next to the working directory or below it - against generate() with the absolute path. Returns violation text or None."""
    import datamodel_code_generator as dm
    src = Path(dm.__file__).parent / "model" / "template"
    outs = {}
    for where in ("out.py", "sub/out.py"):
        for how in ("cli", "pyproject", "generate"):
            for option, rel in (("custom_template_dir", "tpl"), ("custom_file_header_path", "header.txt")):
                py = {option: rel} if how == "pyproject" else None
                with sandbox(py) as d:
                    shutil.rmtree(d / "tpl")
                    shutil.copytree(src, d / "tpl")
                    for f in (d / "tpl").rglob("*.jinja2"):
                        if f.name in ("BaseModel.jinja2", "Enum.jinja2"):
                            f.write_text("# custom-template-marker\n" + f.read_text())
                    (d / "sub").mkdir()
                    base = ["--input", "schema.json", "--output", where, "--disable-timestamp"]
                    if how == "cli":
                        code, _, err = run_main(base + ["--" + option.replace("_", "-"), rel], recorder=False)
                    elif how == "pyproject":
                        code, _, err = run_main(base, recorder=False)
                    else:
                        try:
                            with contextlib.redirect_stderr(io.StringIO()):
                                dm.generate(Path("schema.json"), output=Path(where), disable_timestamp=True, **{option: (d / rel).resolve()})
                            code, err = 0, ""
                        except Exception as e:  # noqa: BLE001
                            code, err = 1, f"{type(e).__name__}: {e}"
                    outs[(option, where, how)] = (d / where).read_text() if code == 0 and (d / where).exists() else f"<exit {code}: {err[-160:]}>"
    for option in ("custom_template_dir", "custom_file_header_path"):
        ref = outs[(option, "out.py", "generate")]
        marker = "# custom-template-marker" if option == "custom_template_dir" else "# header"
        if marker not in ref:
            return None  # the option has no visible effect in this setting: nothing to compare
        for (o, where, how), text in outs.items():
            if o == option and text != ref:
                return (f"{option} given as a relative path ({how}, output {where}): the output differs from generate({option}=<absolute path>) "
                        f"({'custom text missing' if marker not in text else 'different text'}: {text[:120]!r})")
    return None


def falsy_cli(option, pyvalue="zz"):
    """An empty string given on the command line must still win over the pyproject value."""
    from datamodel_code_generator.arguments import arg_parser
    action = next(a for a in arg_parser._actions if a.dest == option)
    flag = sorted(action.option_strings, key=len)[-1]
    base = ["--input", "schema.json", "--output", "out.py", "--disable-timestamp"]
    if option == "original_field_name_delimiter":
        base.append("--snake-case-field")
    outs = []
    for py in (None, {option: pyvalue}):
        with sandbox(py) as d:
            code, _, err = run_main(base + [flag, ""], recorder=False)
            outs.append((d / "out.py").read_text() if code == 0 else f"<exit {code}>")
    with sandbox({option: pyvalue}) as d:
        code, _, err = run_main(base, recorder=False)
        pyonly = (d / "out.py").read_text() if code == 0 else f"<exit {code}>"
    if outs[0] != outs[1] and outs[1] == pyonly:
        return f"{option}: pyproject value {pyvalue!r} wins over the command-line value ''"
    return None


def exit_codes():
    with sandbox(None) as d:
        code, _, err = run_main(["--input", "schema.json", "--output", "out.py"], recorder=False)
        if code != 0:
            return f"successful run exits {code}"
    with sandbox(None) as d:
        (d / "bad.json").write_text('{"$ref": "#/definitions/Missing"}')
        code, _, err = run_main(["--input", "bad.json", "--output", "out.py", "--input-file-type", "jsonschema"], recorder=False)
        if code != 1 or not err.strip():
            return f"failing run exits {code} with stderr {err[-100:]!r}"
    with sandbox(None) as d:
        (d / "bad.yaml").write_text("a: [1, 2\n")
        code, _, err = run_main(["--input", "bad.yaml", "--output", "out.py"], recorder=False)
        if code != 1 or not err.strip():
            return f"unparsable input exits {code} with stderr {err[-100:]!r}"
    return None


def falsify(ctx):
    rng = ctx.rng("fals")
    opts = list(VISIBLE.items())
    hinted = [h for h in ctx.hints if isinstance(h, str)]
    todo = [(o, v) for o, v in opts if o in hinted] + [x for x in opts if x[0] not in hinted]
    if not ctx.thorough:
        rest = todo[len(hinted):]
        rng.shuffle(rest)
        todo = todo[: len(hinted)] + rest[:14]
    for o in hinted:
        if o not in VISIBLE:
            todo.insert(0, (o, True))
    # options whose namespace default is not None cannot be told apart from "not given": try them from pyproject only
    from harness import reflect
    for dest, kind, none_default, _ in reflect.plumbing_tables()["actions"]:
        if not none_default and dest not in ("help", "version", "no_color") and kind == "_StoreTrueAction":
            todo.insert(0, (dest, True))
    for o in list(dict.fromkeys(hinted + ["special_field_name_prefix", "custom_file_header", "base_class"])):
        from datamodel_code_generator.arguments import arg_parser
        act = next((a for a in arg_parser._actions if a.dest == o), None)
        if act is None or type(act).__name__ != "_StoreAction" or act.choices or act.nargs is not None or isinstance(act.type, argparse.FileType):
            continue
        ctx.count("eval_e2e")
        why = falsy_cli(o)
        if why:
            ctx.violation(f"falsy-cli:{o}", why, {"falsy": True, "option": o, "why": why})
    for option, value in todo:
        ctx.count("eval_e2e")
        ctx.nontrivial(("e2e", option))
        other = {True: False}.get(value) if value is True else ("zzz" if isinstance(value, str) and option in ("class_name", "special_field_name_prefix", "custom_file_header", "empty_enum_field_name") else None)
        try:
            why = three_ways(option, value, other)
        except StopIteration:
            continue
        if why:
            ctx.violation(f"three-ways:{option}", why, {"option": option, "value": value, "other": other, "why": why})
    ctx.count("eval_e2e")
    why = exit_codes()
    if why:
        ctx.violation("exit-codes", why, {"exit": True, "why": why})
    _relative_paths_case(ctx)
    # free-text values whose leading / trailing white space is part of the value
    for option, value in (("custom_file_header", "# hdr\n"), ("custom_file_header", "\n# hdr"), ("custom_file_header", "  # hdr  "), ("custom_file_header", "# a\n\n"),
                          ("class_name", "Zoo")):   # (a prefix that is no identifier part, e.g. with a blank, makes the name loop spin: C07's prefix guard)
        ctx.count("eval_e2e")
        ctx.nontrivial(("padded", option, value))
        try:
            why = three_ways(option, value, None)
        except StopIteration:
            continue
        if why:
            ctx.violation(f"three-ways:{option}:{value!r}", f"value {value!r}: {why}", {"option": option, "value": value, "other": None, "why": why})
    ctx.sample({"three_ways": [o for o, _ in todo[:5]]})


def _relative_paths_case(ctx):
    ctx.count("eval_e2e", 12)
    ctx.nontrivial("relative-paths")
    why = relative_paths()
    if why:
        ctx.violation("relative-paths", why, {"relative_paths": True, "why": why})


def replay_finding(ctx, f):
    r = f["replay"]
    if r.get("history"):
        return history_leak() is not None
    return three_ways(r["option"], r["value"], r.get("other")) is not None


def history_leak():
    """main() keeps options of earlier calls (shared module-level Namespace)."""
    from datamodel_code_generator import __main__ as m
    rec = []
    old = m.generate
    m.generate = lambda **kw: rec.append(kw.get("snake_case_field"))
    try:
        with sandbox(None):
            with contextlib.redirect_stderr(io.StringIO()), contextlib.redirect_stdout(io.StringIO()):
                m.main(["--input", "schema.json"])
                m.main(["--input", "schema.json", "--snake-case-field"])
                m.main(["--input", "schema.json"])
    finally:
        m.generate = old
    return "third call still snake-cases" if rec and rec[-1] else None


def replay(ctx, payload):
    r = payload.get("replay", payload)
    if r.get("falsy"):
        why = falsy_cli(r["option"])
    elif "option" in r:
        why = three_ways(r["option"], r["value"], r.get("other"))
    elif r.get("exit"):
        why = exit_codes()
    elif r.get("relative_paths"):
        why = relative_paths()
    else:
        print(json.dumps(payload, indent=1)[:3000])
        return 0
    print("replay:", why or "no violation")
    return 1 if why else 0
