"""C03 - every instance valid under the schema is accepted by the generated model (and dumps back by wire name)."""
from __future__ import annotations

import json

from harness import lib, e2e, schemasem as ss, schemamodel as sm

PID = "C03"
PROPS_V = "props/C03.v"
TABLES = ("UnicodeTables", "BaseModelAttrs")
RULE = ("correspondence (structure): schema terms of the modelled sub-language -> the extracted gen prints the generated class tree; the real "
        "generator's output for the same JSON Schema is read back from its AST (nested classes and root models inlined, constraints collected from "
        "con*() and Field()) and must be the same text, for pydantic v1/v2 x {constrained types, field constraints, annotated, union operator}; "
        "correspondence (meaning): the extracted valid / accepts vs the jsonschema package / the exec'd pydantic v2 classes on generated and "
        "mutated instances; falsifier: documents from the wider grammar ($ref incl. recursive, allOf, const, patterns, nullable enums, oneOf, OpenAPI "
        "discriminators) x {v1, v2, dataclass, TypedDict} x options - every instance the jsonschema package finds valid must be accepted and dump "
        "back equal by wire name. non-trivial = distinct (schema, instance, kind, options)")
TRUSTED = ["the jsonschema package (Draft 7) decides validity of instances", "the AST reader harness/schemamodel.canon_module (canonical form of the real output)",
           "instances are exactly typed JSON without non-integral numbers in the model comparison; floats appear in the falsifier only"]
ASSUMPTIONS = ["theorem over the modelled sub-language (no $ref/allOf/const/pattern/number bounds, no required member of type [T, null], member names that "
               "are not their own class name); the rest of the supported subset is covered by the falsifier only"]

V2, V1, DC, TD = "pydantic_v2.BaseModel", "pydantic.BaseModel", "dataclasses.dataclass", "typing.TypedDict"
STYLES = [(V2, {}, "0"), (V2, {"field_constraints": True}, "1"), (V1, {}, "0"), (V1, {"field_constraints": True, "use_annotated": True}, "1"),
          (V2, {"use_union_operator": True, "use_standard_collections": True}, "0")]


def correspond(ctx):
    drv = lib.Driver()
    rng = ctx.rng("corr")
    terms = [sm.gen_obj(rng) for _ in range(ctx.n(60, 600))]
    reqs = []
    for t in terms:
        reqs.append("schema\t0\t" + sm.tokens(t))
        reqs.append("schema\t1\t" + sm.tokens(t))
    outs = drv.batch(reqs)
    bad = 0
    sval_reqs, sval_meta = [], []
    for i, t in enumerate(terms):
        doc = sm.to_jsonschema(t)
        doc["title"] = "Root"
        text = json.dumps(doc)
        for kind, opts, fc in STYLES:
            ctx.count("eval_structure")
            ctx.nontrivial(("st", text, kind, json.dumps(opts, sort_keys=True)))
            g = e2e.generate(text, kind=kind, **opts)
            model = outs[2 * i + (1 if fc == "1" else 0)]
            if not g.ok:
                bad += 1
                if bad <= 5:
                    ctx.tie_broken("correspondence", f"real generator fails ({g.error}) where the model generates", text[:1500], hint=("doc", doc))
                continue
            try:
                real = sm.canon_module(g.text)
            except sm.Unmodelled as e:
                real = f"unmodelled: {e}"
            if real != model:
                bad += 1
                if bad <= 5:
                    ctx.tie_broken("correspondence", f"generated class tree differs from the model ({kind}, {opts})",
                                   f"schema: {text[:1200]}\nmodel: {model[:1200]}\nreal:  {real[:1200]}", hint=("doc", doc))
        # meaning: valid / accepts
        b, err = ss.build(doc, V2)
        if b is None:
            continue
        try:
            for _ in range(6):
                inst = sm.gen_instance(rng, t)
                if rng.random() < 0.6:
                    inst = sm.mutate(rng, t, inst)
                if not isinstance(inst, dict) or not sm.exactly_typed(inst):
                    continue
                sval_reqs.append("sval\t" + sm.tokens(t) + "\t" + sm.json_tokens(inst))
                sval_meta.append((doc, inst, ss.reference_valid(doc, inst), b.accepts_strict(inst)))
        finally:
            b.close()
    res = drv.batch(sval_reqs)
    nvalid = 0
    for r, (doc, inst, ref_valid, real_acc) in zip(res, sval_meta):
        ctx.count("eval_meaning")
        ctx.nontrivial(("sv", json.dumps(doc, sort_keys=True), json.dumps(inst, sort_keys=True)))
        if len(r) != 5 or set(r) - {"0", "1"}:
            bad += 1
            ctx.tie_broken("correspondence", "driver answer " + r, json.dumps(doc)[:500])
            continue
        m_valid, m_acc, m_relaxed, m_supp, m_strict = (c == "1" for c in r)
        nvalid += m_valid
        ctx.bucket("instance", "valid" if m_valid else ("relaxed-valid" if m_relaxed else "invalid"))
        if not m_supp:
            bad += 1
            ctx.tie_broken("correspondence", "generated term is outside supported", json.dumps(doc)[:500])
        if m_valid != ref_valid:
            bad += 1
            if bad <= 8:
                ctx.tie_broken("correspondence", f"model valid={m_valid}, jsonschema package says {ref_valid}", f"{json.dumps(doc)[:1000]}\n{json.dumps(inst)[:500]}")
        if m_acc != real_acc:
            bad += 1
            if bad <= 8:
                ctx.tie_broken("correspondence", f"model accepts={m_acc}, generated pydantic class says {real_acc}",
                               f"{json.dumps(doc)[:1000]}\n{json.dumps(inst)[:500]}", hint=("inst", doc, inst))
    ctx.count("disagreements", bad)
    ctx.count("model_valid_instances", nvalid)
    ctx.sample({"term": sm.tokens(terms[0])[:300], "model": outs[0][:300]})


# ---------------------------------------------------------------------------------------------------
# falsifier


def same_json(a, b):
    if isinstance(a, bool) or isinstance(b, bool):
        return a is b
    if isinstance(a, (int, float)) and isinstance(b, (int, float)):
        return a == b
    if type(a) is not type(b):
        return False
    if isinstance(a, dict):
        return a.keys() == b.keys() and all(same_json(a[k], b[k]) for k in a)
    if isinstance(a, list):
        return len(a) == len(b) and all(same_json(x, y) for x, y in zip(a, b))
    return a == b


def check_instances(b, ref_schema, instances, dump=True):
    for inst in instances:
        if not ss.reference_valid(ref_schema, inst):
            continue
        try:
            obj = b.validate(inst)
        except Exception as e:  # noqa: BLE001
            if type(e).__name__ in ("PydanticUserError", "ConfigError", "PydanticUndefinedAnnotation", "NameError"):
                return None, None  # unresolved names in the generated module: C02's subject
            return f"valid instance rejected: {json.dumps(inst)[:300]} ({type(e).__name__}: {str(e)[:200]})", inst
        if dump and b.kind in (V1, V2):
            try:
                back = b.dump(obj)
            except Exception as e:  # noqa: BLE001
                return f"accepted object cannot be serialised: {json.dumps(inst)[:300]} ({type(e).__name__}: {str(e)[:160]})", inst
            if not same_json(back, inst):
                return f"dump by wire name differs: {json.dumps(inst)[:300]} -> {json.dumps(back)[:300]}", inst
    return None, None


def check_document(doc, kind, opts, rng, instances=None, file_type="jsonschema", ref_schema=None):
    b, err = ss.build(doc, kind, file_type=file_type, **opts)
    if err:
        return err if "does not" in err else None  # exec failures are C02's subject
    if b is None:
        return None
    try:
        if instances is None:
            instances = []
            for k in range(5):
                try:
                    instances.append(ss.valid_instance(rng, doc, doc))
                except ss.NoInstance:
                    break
        why, _ = check_instances(b, ref_schema or doc, instances)
        return why
    finally:
        b.close()


def renamed_members(doc):
    """member names the generator has to change (no alias mechanism in dataclasses / TypedDict class syntax)"""
    import keyword
    names = set()

    def walk(s):
        if isinstance(s, dict):
            for p in (s.get("properties") or {}):
                names.add(p)
            for v in s.values():
                walk(v)
        elif isinstance(s, list):
            for v in s:
                walk(v)
    walk(doc)
    return any((not n.isidentifier()) or keyword.iskeyword(n) or n.startswith("_") or n[0].isupper() for n in names)


def _walk(s, f, pos="root"):
    """f(schema, position); position: prop | items | values | alt | root | def"""
    if isinstance(s, dict):
        f(s, pos)
        for k, v in s.items():
            if k == "properties" and isinstance(v, dict):
                for ps in v.values():
                    _walk(ps, f, "prop")
            elif k == "items":
                _walk(v, f, "items")
            elif k == "additionalProperties":
                _walk(v, f, "values")
            elif k in ("anyOf", "oneOf"):
                for a in v:
                    _walk(a, f, "alt")
            elif k == "allOf":
                for a in v:
                    _walk(a, f, pos)
            elif k == "definitions":
                for d in v.values():
                    _walk(d, f, "def")


def is_nullable_enum(s):
    return "enum" in s and None in s["enum"]


def has(doc, pred):
    hit = []
    _walk(doc, lambda s, pos: hit.append(1) if pred(s, pos) else None)
    return bool(hit)


def _types(s):
    t = s.get("type")
    return set(t if isinstance(t, list) else [t])


_DOC = [None]


def v1_coercing_union(s, pos):
    for key in ("anyOf", "oneOf"):
        if key in s:
            alts = [ss.resolve(_DOC[0], a) if (_DOC[0] is not None and isinstance(a, dict) and "$ref" in a) else a for a in s[key]]
            ts = [_types(a) for a in alts if isinstance(a, dict)]
            scalars = set().union(*ts) & {"string", "integer", "number", "boolean"} if ts else set()
            if len(scalars) >= 2:
                return True   # pydantic v1 tries the alternatives left to right with coercion (0 -> "0", true -> 1, 1 -> 1.0)
    return False


def contains_array(s):
    if not isinstance(s, dict):
        return False
    if s.get("type") == "array":
        return True
    return any(contains_array(a) for key in ("anyOf", "oneOf") for a in s.get(key, []))


def v1_counts_over_nested_list(s, pos):
    return s.get("type") == "array" and ("minItems" in s or "maxItems" in s) and contains_array(s.get("items"))


def const_required_elsewhere(doc):
    """a const member made required by a sibling allOf branch"""
    def pred(s, pos):
        if "allOf" not in s:
            return False
        consts, req = set(), set(s.get("required", []))
        for part in s["allOf"]:
            if isinstance(part, dict) and "$ref" not in part:
                consts |= {p for p, ps in (part.get("properties") or {}).items() if isinstance(ps, dict) and "const" in ps}
                if "properties" not in part:
                    req |= set(part.get("required", []))
        return bool(consts & req)
    return has(doc, pred)


def nullable_array(s, pos):
    return isinstance(s.get("type"), list) and "array" in s["type"] and "null" in s["type"]


def required_nullable_array(doc):
    flat = ss.flatten(doc)

    def walk(s):
        if isinstance(s, dict):
            req = set(s.get("required", []) if isinstance(s.get("required"), list) else [])
            for p, ps in (s.get("properties") or {}).items():
                if p in req and isinstance(ps, dict) and nullable_array(ps, None):
                    return True
            return any(walk(v) for v in s.values())
        if isinstance(s, list):
            return any(walk(v) for v in s)
        return False
    return walk(flat)


def in_known_class(doc, kind, opts):
    text = json.dumps(doc)
    if opts.get("strict_nullable") and required_nullable_array(doc):
        return True  # C03-strict-nullable-required-array
    if kind == TD and has(doc, nullable_array):
        return True  # C03-typeddict-nullable-array
    if kind in (DC, TD) and renamed_members(doc):
        return True  # C03-dataclass-renamed-member
    if kind in (DC, TD) and ('"const"' in text):
        return True  # plain dataclasses / TypedDicts carry Literal only for some shapes; decided by the pydantic kinds
    if kind == TD and has(doc, lambda s, pos: is_nullable_enum(s)):
        return True  # C03-typeddict-nullable-enum
    if kind == V1 and opts.get("use_annotated") and renamed_members(doc):
        return True  # C03-v1-annotated-alias-lost
    if kind == V1:
        _DOC[0] = doc
        if has(doc, v1_coercing_union):
            return True  # C03-v1-union-coercion
        if has(doc, lambda s, pos: is_nullable_enum(s)):
            return True  # C03-v1-nullable-enum (nested, or required: pydantic v1 refuses None before trying the enum)
        if has(doc, v1_counts_over_nested_list):
            return True  # C03-v1-counts-reach-nested-list
        if const_required_elsewhere(doc):
            return True  # C03-v1-const-required-by-allof
    return False


def gen_openapi(rng):
    """an OpenAPI document with a discriminated oneOf/anyOf; returns (doc, reference JSON Schema for Root, instances)"""
    kinds = rng.sample(["cat", "dog", "lizard", "bird"], rng.choice([2, 3]))
    with_titles = rng.random() < 0.6
    with_mapping = rng.random() < 0.4
    key = rng.choice(["oneOf", "anyOf"])
    schemas = {}
    for k in kinds:
        own = {"cat": "meow", "dog": "bark", "lizard": "scales", "bird": "wings"}[k]
        s = {"type": "object", "required": ["petType", own], "additionalProperties": False,
             "properties": {"petType": {"type": "string"}, own: rng.choice([{"type": "boolean"}, {"type": "integer", "minimum": 0}])}}
        if with_titles:
            s["title"] = {"cat": "Feline", "dog": "Canine", "lizard": "Reptile", "bird": "Avian"}[k]
        schemas[k] = s
    disc = {"propertyName": "petType"}
    if with_mapping:
        disc["mapping"] = {k: f"#/components/schemas/{k}" for k in kinds}
    schemas["Pet"] = {key: [{"$ref": f"#/components/schemas/{k}"} for k in kinds], "discriminator": disc}
    root_props = {"pet": {"$ref": "#/components/schemas/Pet"}}
    if rng.random() < 0.5:
        root_props["pets"] = {"type": "array", "items": {"$ref": "#/components/schemas/Pet"}}
    schemas["Root"] = {"type": "object", "required": ["pet"], "properties": root_props}
    doc = {"openapi": "3.0.0", "info": {"title": "t", "version": "1"}, "paths": {}, "components": {"schemas": schemas}}
    ref = {"$ref": "#/components/schemas/Root", "components": {"schemas": schemas}}

    def animal(k):
        own = {"cat": "meow", "dog": "bark", "lizard": "scales", "bird": "wings"}[k]
        v = True if schemas[k]["properties"][own]["type"] == "boolean" else 3
        return {"petType": k, own: v}
    insts = []
    for k in kinds:
        i = {"pet": animal(k)}
        if "pets" in root_props:
            i["pets"] = [animal(x) for x in kinds]
        insts.append(i)
    return doc, ref, insts


def falsify(ctx):
    rng = ctx.rng("fals")
    seen = 0

    def report(key, what, replay):
        nonlocal seen
        seen += 1
        if seen <= 6:
            ctx.violation(key, what, replay)

    for h in ctx.hints:
        if h[0] == "doc":
            for kind in (V2, V1):
                why = check_document(h[1], kind, {}, rng)
                if why:
                    report(f"doc:{kind}:{{}}:{json.dumps(h[1], sort_keys=True)}", f"{kind}: {why}", {"doc": h[1], "kind": kind, "opts": {}})
        elif h[0] == "inst":
            why = check_document(h[1], V2, {}, rng, instances=[h[2]])
            if why:
                report(f"doc:{V2}:{{}}:{json.dumps(h[1], sort_keys=True)}", f"{V2}: {why}", {"doc": h[1], "kind": V2, "opts": {}, "instances": [h[2]]})

    option_pool = [{}, {}, {"field_constraints": True}, {"snake_case_field": True}, {"use_standard_collections": True, "use_union_operator": True},
                   {"use_title_as_name": True}, {"strict_nullable": True}, {"collapse_root_models": True}, {"use_annotated": True, "field_constraints": True},
                   {"reuse_model": True}, {"enum_field_as_literal": "all"}, {"use_one_literal_as_default": True, "enum_field_as_literal": "one"}]
    for i in range(ctx.n(110, 2000)):
        doc = ss.gen_document(rng)
        kind = rng.choice([V2, V2, V1, V1, DC, TD])
        opts = rng.choice(option_pool)
        if in_known_class(doc, kind, opts):
            ctx.count("outside_guard")
            continue
        ctx.count("eval_e2e")
        ctx.bucket("kind", kind)
        ctx.nontrivial(json.dumps(doc, sort_keys=True) + kind + json.dumps(opts, sort_keys=True))
        why = check_document(doc, kind, opts, rng)
        if why:
            report(f"doc:{kind}:{json.dumps(opts, sort_keys=True)}:{json.dumps(doc, sort_keys=True)}", f"{kind} {opts}: {why}",
                   {"doc": doc, "kind": kind, "opts": opts})
    for i in range(ctx.n(30, 400)):
        doc, ref, insts = gen_openapi(rng)
        kind = rng.choice([V2, V2, V1])
        opts = rng.choice([{}, {"use_title_as_name": True}, {"use_title_as_name": True, "field_constraints": True}, {"collapse_root_models": True},
                           {"use_annotated": True, "field_constraints": True}])
        ctx.count("eval_openapi")
        ctx.bucket("kind", kind + "/openapi")
        ctx.nontrivial(json.dumps(doc, sort_keys=True) + kind + json.dumps(opts, sort_keys=True))
        why = check_document(doc, kind, opts, rng, instances=insts, file_type="openapi", ref_schema=ref)
        if why:
            report(f"openapi:{kind}:{json.dumps(opts, sort_keys=True)}:{json.dumps(doc, sort_keys=True)}", f"{kind} {opts}: {why}",
                   {"doc": doc, "kind": kind, "opts": opts, "file_type": "openapi", "ref_schema": ref, "instances": insts})
    ctx.sample({"doc": ss.gen_document(ctx.rng("sample"))})


def _replay(r):
    return check_document(r["doc"], r["kind"], r["opts"], lib.rng_for(0, "replay"), instances=r.get("instances"),
                          file_type=r.get("file_type", "jsonschema"), ref_schema=r.get("ref_schema"))


def replay_finding(ctx, f):
    return _replay(f["replay"]) is not None


def replay(ctx, payload):
    r = payload.get("replay", payload)
    if "doc" not in r:
        print(json.dumps(payload, indent=1)[:3000])
        return 0
    why = _replay(r)
    print("replay:", why or "no violation")
    return 1 if why else 0
