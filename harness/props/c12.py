"""C12 - in multi-module output every cross-module reference resolves inside the package."""
from __future__ import annotations

import ast
import itertools
import json
import builtins
import keyword

from harness import lib, e2e

PID = "C12"
PROPS_V = "props/C12.v"
TABLES = ()
RULE = ("correspondence: model relative/exact vs parser.base.relative/exact_import on ALL ordered pairs of module paths of "
        "depth <= 3 over {a,b,c} (thorough: depth <= 4), and the model's written()/py_resolve vs the imports the real "
        "generator emits for generated module sets, and Layout.layout (which key becomes a package) vs the files the real generator "
        "writes for EVERY set of <= 3 (thorough: 4) module keys of depth <= 3 over two names plus random sets; falsifier: schema sets with dotted definition names -> modular "
        "generate() -> every ImportFrom and every qualified use resolved statically by Python's rule against the written "
        "files. non-trivial = importer and reference are in different modules")
TRUSTED = ["Python's relative-import rule is modelled by py_resolve (package of a file; k dots drop k-1 segments)",
           "module keys with '-' or file names containing dots (the rel_path_depth adjustment) are outside the model"]
ASSUMPTIONS = ["theorem holds inside the boolean guard; the two excluded classes are refuted in Coq and listed as known findings"]

SEG = {"a": 1, "b": 2, "c": 3, "d": 4}
NAME = 9  # the class name atom


def enc_path(p):
    return ",".join(str(SEG[s]) for s in p) if p else "-"


def all_paths(depth, segs="abc"):
    out = [()]
    for n in range(1, depth + 1):
        out += list(itertools.product(segs, repeat=n))
    return out


def model_str(dots, extra, right):
    inv = {v: k for k, v in SEG.items()}
    inv[NAME] = "K"
    left = "." * dots + ".".join(inv[int(x)] for x in extra.split(",")) if extra != "-" else "." * dots
    return left, inv[int(right)]


def correspond(ctx):
    from datamodel_code_generator.parser.base import relative, exact_import
    drv = lib.Driver()
    paths = all_paths(ctx.n(3, 4))
    reqs, reals, metas = [], [], []
    for cur in paths:
        for rp in paths:
            real = relative(".".join(cur), ".".join((*rp, "K")))
            reqs.append(f"rel\t{enc_path(cur)}\t{enc_path(rp)}\t{NAME}")
            reals.append(real)
            metas.append((cur, rp))
    outs = drv.batch(reqs)
    bad = 0
    for out, real, (cur, rp) in zip(outs, reals, metas):
        ctx.count("eval_relative")
        if cur != rp:
            ctx.nontrivial((cur, rp))
        if out == "NONE":
            model = ("", "")
            mex = None
        else:
            d, e, r = out.split("\t")
            model = model_str(int(d), e, r)
            # exact form
            inv = {v: k for k, v in SEG.items()}
            inv[NAME] = "K"
            mex = (model[0] + model[1] if model[0] == "." * len(model[0]) else model[0] + "." + model[1], "K")
        if model != real:
            bad += 1
            if bad <= 4:
                ctx.tie_broken("correspondence", "relative() model != code", json.dumps({"cur": cur, "ref": rp, "code": real, "model": model}), hint=(cur, rp))
        elif mex is not None:
            rex = exact_import(real[0], real[1], "K")
            if rex != mex:
                bad += 1
                if bad <= 4:
                    ctx.tie_broken("correspondence", "exact_import() model != code", json.dumps({"cur": cur, "ref": rp, "code": rex, "model": mex}), hint=(cur, rp))
    ctx.extra["exhaustive"] = True
    ctx.extra["path_pairs"] = len(reqs)
    ctx.count("disagreements", bad)
    ctx.sample({"cur": "a.b", "ref": "a.c.K", "code": relative("a.b", "a.c.K")})
    # whole-output correspondence: imports emitted by the real generator vs written()
    rng = ctx.rng("whole")
    nbad = 0
    for _ in range(ctx.n(60, 600)):
        classes, edges, opts = gen_case(rng, guarded=False)
        if len({c[1] for c in classes}) != len(classes):
            continue  # clashing names are renamed by the generator; the end-to-end oracle covers them
        files = run_case(classes, edges, opts)
        if files is None:
            continue
        M = sorted({c[0] for c in classes})
        reqs, exp = [], []
        for (si, di, is_base) in edges:
            src, dst = classes[si][0], classes[di][0]
            if src == dst:
                continue
            init = any(len(m) > len(src) and m[: len(src)] == src for m in M) and src != ()
            reqs.append(f"wr\t{int(bool(opts.get('use_exact_imports')))}\t{int(is_base)}\t{int(init)}\t{enc_path(src)}\t{enc_path(dst)}\t{NAME}")
            exp.append((src, dst, classes[di][1], is_base, init))
        outs = drv.batch(reqs)
        for out, (src, dst, dname, is_base, init) in zip(outs, exp):
            ctx.count("eval_written")
            if out == "NONE":
                continue
            d, e, r, use, res = out.split("\t")
            left, right = model_str(int(d), e, r)
            right = dname if right == "K" else right
            left = ".".join(dname if x == "K" else x for x in left.split("."))
            fname = file_of(M, src)
            text = files.get(fname)
            if text is None:
                continue
            found = False
            for node in ast.walk(ast.parse(text)):
                if isinstance(node, ast.ImportFrom) and node.level == int(d):
                    modname = node.module or ""
                    if modname == left.lstrip(".") and any(a.name == right for a in node.names):
                        found = True
            if not found:
                nbad += 1
                if nbad <= 3:
                    ctx.tie_broken("correspondence", "import written by the generator differs from the model's written()",
                                   json.dumps({"classes": classes, "edge": [src, dst, is_base], "opts": opts, "model": f"from {left} import {right}", "file": fname,
                                               "imports": [l for l in text.splitlines() if l.startswith("from .")]}), hint=(classes, edges, opts))
    ctx.count("disagreements", nbad)
    # layout correspondence: which key is written as a package - real generator vs Layout.layout, on every set of
    # up to 3 (thorough: 4) module keys of depth <= 3 over two segment names, plus random sets over three
    paths2 = all_paths(3, "ab")
    sets = [list(c) for k in (1, 2, 3) for c in itertools.combinations(paths2, k) if c != ((),)]  # the root alone is single-file output
    if ctx.thorough:
        sets += [list(c) for c in itertools.combinations(paths2, 4)]
    paths3 = all_paths(4, "abc")
    for _ in range(ctx.n(60, 1200)):
        sets.append(rng.sample(paths3, rng.choice([3, 4, 5, 6])))
    lays = model_layouts(drv, sets)
    lbad = 0
    for M, lay in zip(sets, lays):
        ctx.count("eval_layout")
        if len(M) > 1:
            ctx.nontrivial(("layout", tuple(M)))
        ctx.bucket("layout_shadow", shadow_in(M, lay))
        real = real_layout(M)
        if real is None:
            continue
        diff = [m for m in M if real[m] != lay.get(m)]
        if diff:
            lbad += 1
            if lbad <= 4:
                ctx.tie_broken("correspondence", "package layout: the generator writes a module key differently from Layout.layout",
                               json.dumps({"modules": [".".join(m) or "<root>" for m in M], "key": ".".join(diff[0]), "code_is_package": real[diff[0]],
                                           "model_is_package": lay.get(diff[0])}),
                               hint=([(m, cls_name(m)) for m in M], [], {}))
    ctx.count("layout_disagreements", lbad)


# ---------------------------------------------------------------------------------------------


def cls_name(mod):
    return "K" + "".join(mod).upper()


def def_name(mod):
    return ".".join((*mod, cls_name(mod)))


def file_of(M, m):
    if m == ():
        return "__init__.py"
    if any(len(x) > len(m) and x[: len(m)] == m for x in M):
        return "/".join(m) + "/__init__.py"
    return "/".join(m) + ".py"


def in_known_class(M, src, dst, is_base, exact):
    """The classes excluded by the Coq guard (known findings R14, R25)."""
    init = src != () and any(len(x) > len(src) and x[: len(src)] == src for x in M)
    descendant = len(dst) > len(src) and dst[: len(src)] == src
    ancestor = len(dst) < len(src) and src[: len(dst)] == dst
    if init and descendant:
        return True
    if (exact or is_base) and ancestor:
        return True
    return False


def model_layouts(drv, Ms):
    """the Coq model's layout for each module-key set: [{module key: written as a package?}]"""
    inv = {v: k for k, v in SEG.items()}
    outs = drv.batch(["layout\t" + ";".join(enc_path(m) for m in M) for M in Ms])
    res = []
    for out in outs:
        d = {}
        for item in out.split(";"):
            k, b = item.split(":")
            d[tuple(inv[int(x)] for x in k.split(",")) if k != "-" else ()] = b == "1"
        res.append(d)
    return res


def shadow_in(M, lay):
    """known finding C12-shadow, decided by the layout model: a key with a descendant is written as a plain module file
    (nothing one level below it was visited before it)"""
    return any(m != () and not lay.get(m, False) and any(len(x) > len(m) and x[: len(m)] == m for x in M) for m in M)


def real_layout(M):
    """module key -> is the class generated for it found in <m>/__init__.py (True) or <m>.py (False)"""
    classes = [(m, cls_name(m)) for m in M]
    files = run_case(classes, [], {})
    if files is None:
        return None
    out = {}
    for m in M:
        a, b = "/".join(m) + ".py", "/".join((*m, "__init__.py"))
        ina = a in files and f"class {cls_name(m)}(" in files[a]
        inb = b in files and f"class {cls_name(m)}(" in files[b]
        out[m] = True if inb and not ina else False if ina and not inb else None
    return out


POOL = ["Item", "Pet", "Tag"]


def gen_case(rng, guarded=True):
    """-> (classes [(module path, class name)], edges [(src idx, dst idx, is_base)], opts)"""
    segs = "abc"
    n = rng.choice([2, 3, 4, 5])
    mods = []
    while len(mods) < n:
        d = rng.choice([0, 1, 1, 2, 2, 3])
        m = tuple(rng.choice(segs) for _ in range(d))
        if m not in mods:
            mods.append(m)
    classes = []
    clash = rng.random() < 0.5
    for m in mods:
        for _ in range(rng.choice([1, 1, 2])):
            nm = rng.choice(POOL) if clash and rng.random() < 0.6 else cls_name(m)
            if (m, nm) not in classes:
                classes.append((m, nm))
    opts = {}
    if rng.random() < 0.35:
        opts["use_exact_imports"] = True
    if rng.random() < 0.2:
        opts["collapse_root_models"] = True
    # treat_dot_as_module is not generated: known finding C12-treat-dot-overwrite (its post-processing overwrites files)
    edges = []
    for _ in range(rng.choice([1, 2, 3, 5])):
        si, di = rng.randrange(len(classes)), rng.randrange(len(classes))
        src, dst = classes[si][0], classes[di][0]
        is_base = rng.random() < 0.25
        if si == di:
            continue
        if guarded and src != dst and in_known_class(mods, src, dst, is_base, opts.get("use_exact_imports")):
            continue
        if any(e[0] == si and e[1] == di for e in edges):
            continue
        if is_base and any(e[0] == si and e[2] for e in edges):
            continue
        if is_base and reaches(edges, di, si):
            continue
        edges.append((si, di, is_base))
    return classes, edges, opts


def reaches(edges, a, b):
    seen, todo = set(), [a]
    while todo:
        x = todo.pop()
        if x == b:
            return True
        if x in seen:
            continue
        seen.add(x)
        todo += [e[1] for e in edges if e[0] == x and e[2]]
    return False


def def_key(c):
    return ".".join((*c[0], c[1]))


def build_schema(classes, edges):
    defs = {}
    for i, c in enumerate(classes):
        defs[def_key(c)] = {"type": "object", "properties": {f"m{i}": {"type": "integer"}}}
    for i, (si, di, is_base) in enumerate(edges):
        d = defs[def_key(classes[si])]
        ref = {"$ref": "#/definitions/" + def_key(classes[di])}
        if is_base:
            d.setdefault("allOf", []).append(ref)
        else:
            d["properties"][f"r{i}"] = ref
    return {"definitions": defs}


def run_case(classes, edges, opts):
    g = e2e.generate(json.dumps(build_schema(classes, edges)), modular=True, **opts)
    if not g.ok:
        return None
    return g.files


def top_level_names(text):
    names = set()
    t = ast.parse(text)
    for n in t.body:
        if isinstance(n, (ast.ClassDef, ast.FunctionDef)):
            names.add(n.name)
        elif isinstance(n, ast.Assign):
            for tg in n.targets:
                if isinstance(tg, ast.Name):
                    names.add(tg.id)
        elif isinstance(n, ast.AnnAssign) and isinstance(n.target, ast.Name):
            names.add(n.target.id)
        elif isinstance(n, (ast.Import, ast.ImportFrom)):
            for a in n.names:
                names.add((a.asname or a.name).split(".")[0])
    return names


def defined_names(text):
    t = ast.parse(text)
    out = set()
    for n in t.body:
        if isinstance(n, ast.ClassDef):
            out.add(n.name)
        elif isinstance(n, ast.Assign):
            out.update(tg.id for tg in n.targets if isinstance(tg, ast.Name))
        elif isinstance(n, ast.AnnAssign) and isinstance(n.target, ast.Name):
            out.add(n.target.id)
    return out


def check_output(files):
    """Static check of the property on a written file set {relative path: text}. Returns violation text or None."""
    paths = set(files)
    dirs = set()
    for p in paths:
        parts = p.split("/")
        for i in range(1, len(parts)):
            dirs.add("/".join(parts[:i]))
    for p in paths:
        for part in p[:-3].split("/"):
            if part != "__init__" and (not part.isidentifier() or keyword.iskeyword(part)):
                return f"module or package name {part!r} in {p} is not an importable identifier"
        if not p.endswith("__init__.py") and p[:-3] in dirs:
            return f"module file {p} is shadowed by the package directory {p[:-3]}/ of the same output"

    def module_file(mp):
        a, b = "/".join(mp) + ".py", "/".join((*mp, "__init__.py"))
        if mp == ():
            b = "__init__.py"
            return b if b in paths else None
        if b in paths:
            return b
        if a in paths:
            return a
        return None

    for p, text in files.items():
        try:
            tree = ast.parse(text)
        except SyntaxError as e:
            return f"{p} does not parse: {e}"
        parts = tuple(p.split("/"))
        pkg = parts[:-1]
        bound_modules = {}
        for node in tree.body:
            if not isinstance(node, ast.ImportFrom) or node.level == 0:
                continue
            up = node.level - 1
            if up > len(pkg):
                return f"{p}: 'from {'.' * node.level}{node.module or ''} import ...' goes beyond the top-level package"
            base = pkg[: len(pkg) - up]
            target = base + tuple((node.module or "").split(".")) if node.module else base
            tf = module_file(target)
            for a in node.names:
                sub = module_file((*target, a.name))
                ok_attr = tf is not None and a.name in defined_names(files[tf])
                if sub is not None and not ok_attr:
                    bound_modules[a.asname or a.name] = sub
                elif ok_attr:
                    pass
                else:
                    return (f"{p}: 'from {'.' * node.level}{node.module or ''} import {a.name}' resolves to "
                            f"{'/'.join(target) or '<root>'} which {'does not exist in the output' if tf is None else 'does not define it and has no such submodule'}")
        # qualified uses reach the import
        for node in ast.walk(tree):
            if isinstance(node, ast.Attribute) and isinstance(node.value, ast.Name) and node.value.id in bound_modules:
                tf = bound_modules[node.value.id]
                if node.attr not in defined_names(files[tf]):
                    return f"{p}: use {node.value.id}.{node.attr} reaches {tf}, which does not define {node.attr}"
        # every name a class uses (bases, annotations) is bound somewhere in the file: a qualified use 'mod.Cls' whose
        # 'from . import mod' line is missing reaches no import at all
        bound = set(dir(builtins)) | top_level_names(text)
        for node in tree.body:
            if isinstance(node, (ast.Import, ast.ImportFrom)):
                bound.update((a.asname or a.name).split(".")[0] for a in node.names)
        for node in tree.body:
            if not isinstance(node, ast.ClassDef):
                continue
            local = {st.target.id for st in node.body if isinstance(st, ast.AnnAssign) and isinstance(st.target, ast.Name)}
            local |= {st.name for st in node.body if isinstance(st, (ast.ClassDef, ast.FunctionDef))}
            exprs = list(node.bases) + [st.annotation for st in node.body if isinstance(st, ast.AnnAssign)]
            for e in exprs:
                if isinstance(e, ast.Constant) and isinstance(e.value, str):
                    try:
                        e = ast.parse(e.value, mode="eval").body
                    except SyntaxError:
                        continue
                for x in ast.walk(e):
                    if isinstance(x, ast.Name) and x.id not in bound and x.id not in local:
                        return f"{p}: class {node.name} uses the name {x.id!r}, which no import or definition of the file binds"
    return None


TYPING = {"Optional", "List", "Union", "Any", "Dict", "Annotated", "Literal", "Set", "Sequence", "Mapping", "None"}


def resolve_name(files, fname, node):
    """Resolve a Name / Attribute used in file fname to (file, class name) following from-imports."""
    tree = ast.parse(files[fname])
    parts = tuple(fname.split("/"))
    pkg = parts[:-1]

    def module_file(mp):
        if mp == ():
            return "__init__.py" if "__init__.py" in files else None
        b, a = "/".join((*mp, "__init__.py")), "/".join(mp) + ".py"
        return b if b in files else (a if a in files else None)

    bindings = {}
    for n in tree.body:
        if isinstance(n, ast.ImportFrom) and n.level > 0:
            up = n.level - 1
            if up > len(pkg):
                continue
            base = pkg[: len(pkg) - up]
            target = base + tuple(n.module.split(".")) if n.module else base
            for a in n.names:
                bindings[a.asname or a.name] = (target, a.name)
    local = defined_names(files[fname])
    if isinstance(node, ast.Name):
        if node.id in bindings:
            target, nm = bindings[node.id]
            tf = module_file(target)
            if tf is not None and nm in defined_names(files[tf]):
                return tf, nm
            return None
        if node.id in local:
            return fname, node.id
        return None
    if isinstance(node, ast.Attribute) and isinstance(node.value, ast.Name) and node.value.id in bindings:
        target, nm = bindings[node.value.id]
        tf = module_file((*target, nm))
        if tf is not None and node.attr in defined_names(files[tf]):
            return tf, node.attr
    return None


def class_index(files):
    """{file: {class name: ClassDef}}"""
    out = {}
    for f, text in files.items():
        out[f] = {n.name: n for n in ast.parse(text).body if isinstance(n, ast.ClassDef)}
    return out


def fields_of(files, idx, f, cname, depth=0):
    """field names of a class including inherited ones (following resolved bases)."""
    cls = idx.get(f, {}).get(cname)
    if cls is None or depth > 10:
        return set()
    names = {st.target.id for st in cls.body if isinstance(st, ast.AnnAssign) and isinstance(st.target, ast.Name)}
    for b in cls.bases:
        r = resolve_name(files, f, b)
        if r:
            names |= fields_of(files, idx, r[0], r[1], depth + 1)
    return names


def check_refs(files, classes, edges):
    """Every use of a foreign model reaches the class generated for precisely that definition."""
    idx = class_index(files)
    where = {}
    for f, cl in idx.items():
        for cname, node in cl.items():
            for st in node.body:
                if isinstance(st, ast.AnnAssign) and isinstance(st.target, ast.Name) and st.target.id.startswith("m") and st.target.id[1:].isdigit():
                    where[int(st.target.id[1:])] = (f, cname)
    for i, (si, di, is_base) in enumerate(edges):
        if si not in where or di not in where:
            continue
        f, cname = where[si]
        node = idx[f][cname]
        if is_base:
            cands = list(node.bases)
        else:
            cands = []
            for st in node.body:
                if isinstance(st, ast.AnnAssign) and isinstance(st.target, ast.Name) and st.target.id == f"r{i}":
                    ann = st.annotation
                    if isinstance(ann, ast.Constant) and isinstance(ann.value, str):
                        ann = ast.parse(ann.value, mode="eval").body
                    for x in ast.walk(ann):
                        if isinstance(x, ast.Attribute):
                            cands.append(x)
                        elif isinstance(x, ast.Name) and x.id not in TYPING:
                            cands.append(x)
                    # drop the Name that is the value of a collected Attribute
                    attr_values = {id(x.value) for x in cands if isinstance(x, ast.Attribute)}
                    cands = [x for x in cands if id(x) not in attr_values]
        if not cands:
            continue
        ok = False
        for x in cands:
            r = resolve_name(files, f, x)
            if r and f"m{di}" in fields_of(files, idx, r[0], r[1]):
                ok = True
        if not ok:
            return (f"{f}: class {cname} {'base' if is_base else 'member r%d' % i} ({', '.join(ast.unparse(x) for x in cands)}) "
                    f"does not reach the model generated for {def_key(classes[di])}")
    return None


def norm_case(classes, edges):
    return [(tuple(c[0]), c[1]) for c in classes], [(a, b, bool(c)) for a, b, c in edges]


def check_case(classes, edges, opts):
    classes, edges = norm_case(classes, edges)
    g = e2e.generate(json.dumps(build_schema(classes, edges)), modular=True, **opts)
    if g.timeout:
        return "generate() does not terminate"
    if not g.ok:
        return None
    return check_output(g.files) or check_refs(g.files, classes, edges)


def case_in_known(classes, edges, opts, lay):
    mods = [c[0] for c in classes]
    if opts.get("use_exact_imports"):
        # known finding C12-exact-base-and-member: one foreign class used as base and as member type in one module
        for s1, d1, b1 in edges:
            for s2, d2, b2 in edges:
                if b1 and not b2 and d1 == d2 and classes[s1][0] == classes[s2][0] and classes[d1][0] != classes[s1][0]:
                    return True
    return shadow_in(mods, lay) or any(
        classes[s][0] != classes[d][0] and in_known_class(mods, classes[s][0], classes[d][0], b, opts.get("use_exact_imports")) for s, d, b in edges)


def clash_family():
    """two classes of the same name in two modules, one of them an ancestor package of the other's module, a third class of
    the inner module and a user in a third module - every small reference pattern between them, run in full in both tiers"""
    for name in ("Item", "Pet"):
        for m1, m2, m3 in (((), ("a",), ("b",)), ((), ("a", "b"), ("c",)), (("a",), ("a", "b"), ("c",)), ((), ("a",), ("a", "b")),
                           (("b",), ("a",), ("c",))):
            classes = [(m1, name), (m2, cls_name(m2)), (m2, name), (m3, "User")]
            # 1 -> 0: the inner module uses the outer same-named class; 2 -> 1: orders the local same-named class after it;
            # 3 -> 2: another module uses the local one; 3 -> 0: ... and the outer one
            for edges in ([(1, 0, False), (2, 1, False), (3, 2, False)], [(1, 0, False), (3, 2, False)], [(2, 1, False), (3, 2, False), (3, 0, False)],
                          [(1, 0, False), (2, 1, False), (3, 2, False), (3, 0, False)], [(1, 0, True), (2, 1, False), (3, 2, False)]):
                for opts in ({}, {"collapse_root_models": True}, {"use_exact_imports": True}):
                    yield classes, edges, dict(opts)


def wrapper_family():
    """root-model (wrapper) definitions of one module used once, twice or three times from another module - by several
    members of one model or by several models - next to direct references into the same module; every import style"""
    for cat, shop in ((("catalog",), ("shop",)), (("a", "catalog"), ("a", "shop")), (("catalog",), ("web", "shop")), ((), ("shop",))):
        c = lambda n: ".".join((*cat, n))
        sh = lambda n: ".".join((*shop, n))
        ref = lambda n: {"$ref": "#/definitions/" + c(n)}
        wrappers = {
            "PriceMap": {"type": "object", "additionalProperties": ref("Price")},
            "Prices": {"type": "array", "items": ref("Price")},
            "Currency": {"type": "string"},
            "Either": {"anyOf": [ref("Price"), ref("Tag")]},
        }
        for wname, wdef in wrappers.items():
            for uses in (1, 2, 3):
                for spread in (False, True):
                    for direct in (False, True):
                        defs = {c("Price"): {"type": "object", "properties": {"amount": {"type": "integer"}}},
                                c("Tag"): {"type": "object", "properties": {"label": {"type": "string"}}}, c(wname): wdef}
                        props = {f"u{i}": ref(wname) for i in range(uses)}
                        if direct:
                            props["d"] = ref("Price")
                        if spread and uses > 1:
                            items = list(props.items())
                            defs[sh("Store")] = {"type": "object", "properties": dict(items[:1])}
                            defs[sh("Depot")] = {"type": "object", "properties": dict(items[1:])}
                        else:
                            defs[sh("Store")] = {"type": "object", "properties": props}
                        for opts in ({"collapse_root_models": True}, {}, {"collapse_root_models": True, "use_exact_imports": True}, {"use_exact_imports": True}):
                            if opts.get("use_exact_imports") and cat == ():
                                continue  # known finding C12-exact-ancestor: the exact form pointing into an ancestor package __init__
                            yield {"definitions": defs}, dict(opts)


def check_doc(doc, opts):
    g = e2e.generate(json.dumps(doc), modular=True, **opts)
    if g.timeout:
        return "generate() does not terminate"
    if not g.ok:
        return None
    return check_output(g.files)


def falsify(ctx):
    rng = ctx.rng("fals")
    nw = 0
    for k, (doc, opts) in enumerate(wrapper_family()):
        if not ctx.thorough and not opts.get("collapse_root_models") and k % 5:
            continue
        ctx.count("eval_e2e")
        ctx.count("wrapper_cases")
        ctx.nontrivial(json.dumps([doc, sorted(opts)], sort_keys=True))
        why = check_doc(doc, opts)
        if why:
            nw += 1
            if nw <= 3:
                ctx.violation(f"wrapper:{json.dumps([sorted(doc['definitions']), sorted(opts)])}", f"definitions {sorted(doc['definitions'])} {opts}: {why}",
                              {"doc": doc, "opts": opts, "why": why})
    cases = list(clash_family())
    for h in ctx.hints[:10]:
        if isinstance(h, tuple) and len(h) == 3:
            cases.append(h)
        elif isinstance(h, tuple) and len(h) == 2:
            a, b = tuple(h[0]), tuple(h[1])
            cases.append(([(a, cls_name(a)), (b, cls_name(b))], [(0, 1, False)], {}))
            cases.append(([(a, cls_name(a)), (b, cls_name(b)), (a + ("d",), "KD")], [(0, 1, False)], {}))
    for _ in range(ctx.n(250, 4000)):
        cases.append(gen_case(rng, guarded=True))
    seen = 0
    cases = [(*norm_case(c, e), o) for c, e, o in cases]
    # three shallow/deep layouts around an ancestor package that holds models of its own
    for deep, anc, other in ((("a", "b", "c"), ("a",), ("c",)), (("a", "b", "c"), ("a",), ("c", "a")), (("b", "a", "c", "a"), ("b",), ("c",)),
                             (("b", "a", "c", "a"), ("b", "a"), ("c",)), (("a", "b", "c"), (), ("b",))):
        cl = [(deep, cls_name(deep)), (anc, cls_name(anc)), (other, cls_name(other))]
        for edges in ([], [(2, 0, False)], [(2, 0, False), (2, 1, False)], [(0, 2, False)]):
            cases.insert(0, (cl, edges, {}))
    lays = model_layouts(lib.Driver(), [sorted({c[0] for c in cl}) for cl, _, _ in cases])
    for (classes, edges, opts), lay in zip(cases, lays):
        if case_in_known(classes, edges, opts, lay) or opts.get("treat_dot_as_module"):
            ctx.count("skipped_known_class")
            continue
        ctx.count("eval_e2e")
        ctx.bucket("modules", len({c[0] for c in classes}))
        ctx.bucket("name_clash", len({c[1] for c in classes}) != len(classes))
        ctx.bucket("opts", ",".join(sorted(opts)) or "-")
        if edges:
            ctx.nontrivial(json.dumps([classes, edges, sorted(opts)]))
        why = check_case(classes, edges, opts)
        if why:
            seen += 1
            if seen <= 6:
                ctx.violation(f"e2e:{json.dumps([classes, edges, sorted(opts)])}", f"classes {classes} refs {edges} {opts}: {why}",
                              {"classes": classes, "edges": edges, "opts": opts, "why": why})
    ctx.sample({"classes": cases[-1][0], "edges": cases[-1][1], "opts": cases[-1][2]})


def replay_finding(ctx, f):
    r = f["replay"]
    if "doc" in r:
        return check_doc(r["doc"], r["opts"]) is not None
    return check_case(r["classes"], r["edges"], r["opts"]) is not None


def replay(ctx, payload):
    r = payload.get("replay", payload)
    if "doc" in r:
        why = check_doc(r["doc"], r["opts"])
        print("replay:", why or "no violation")
        return 1 if why else 0
    if "classes" not in r:
        print(json.dumps(payload, indent=1)[:3000])
        return 0
    why = check_case(r["classes"], r["edges"], r["opts"])
    print("replay:", why or "no violation")
    return 1 if why else 0
