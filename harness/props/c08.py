"""C08 - output is a function of input and options only."""
from __future__ import annotations

import hashlib
import contextlib
import json
import os
import shutil
import subprocess
import sys
import tempfile
from pathlib import Path

from harness import lib, e2e

PID = "C08"
PROPS_V = "props/C08.v"
TABLES = ("DeterminismTables",)
RULE = ("correspondence: every lru_cache'd function of the package (reflected inventory) is called along random interleaved histories with "
        "varying arguments: the cached call must equal __wrapped__ on the same arguments and returned objects must not have been mutated; "
        "falsifier: (a) the same input and options under several PYTHONHASHSEEDs in subprocesses, byte comparison (single documents, directory "
        "inputs created in different orders, multi-file references outside definitions); (b) generate() after random histories of other "
        "generate() calls with other inputs/options in one interpreter vs a fresh interpreter; (c) from different working directories. "
        "non-trivial = history length >= 1 or seeds differ")
TRUSTED = ["determinism of PyYAML, Jinja2, black, isort and of dict ordering in third-party code is only explored"]
ASSUMPTIONS = ["main() is excluded from histories here: its shared Namespace is the proved refutation (known finding)"]

DOCS = {
    "plain": {"title": "M", "type": "object", "properties": {"userName": {"type": "string"}, "_meta": {"$ref": "#/definitions/_meta"}, "tags": {"type": "array", "items": {"type": "string"}},
                                                            "k": {"enum": ["a-b", "c d"]}},
              "definitions": {"_meta": {"type": "object", "properties": {"x-y": {"type": "integer"}, "_links": {"$ref": "#/definitions/_links"}}},
                              "_links": {"type": "object", "properties": {"Self": {"type": "string"}}}}},
    "unions": {"definitions": {"A": {"type": "object", "properties": {"v": {"anyOf": [{"type": "string"}, {"type": "integer"}, {"type": "null"}]}}},
                               "B": {"allOf": [{"$ref": "#/definitions/A"}], "type": "object", "properties": {"w": {"type": ["number", "null"]}, "a": {"$ref": "#/definitions/A"}}},
                               "pets": {"type": "array", "items": {"$ref": "#/definitions/B"}}}},
}
DOCS["extras"] = {"title": "M", "type": "object", "properties": {
    "label": {"type": "string", "description": "d", "x-unit": "none", "x-order": 3, "x-a": 1, "x-b": 2, "x-c": 3, "x-d": 4, "x-e": 5, "x-f": 6, "readOnly": True, "examples": ["e"]},
    "n": {"type": "integer", "x-unit": "m", "x-scale": 2, "x-zeta": 0, "x-alpha": 1, "x-mid": 2, "title": "N"}}}
EXTRA_KEYS = ["x-unit", "x-order", "x-a", "x-b", "x-c", "x-d", "x-e", "x-f", "x-scale", "x-zeta", "x-alpha", "x-mid"]
# directory inputs whose parse order must not follow the order in which the OS lists a directory: files of the same name in
# different directories, names that differ in case only, all referring to each other
TWINS = {"a/pet.json": {"title": "PetA", "type": "object", "properties": {"o": {"$ref": "../b/pet.json#/definitions/Owner"}}, "definitions": {"Tag": {"type": "object", "properties": {"t": {"type": "string"}}}}},
         "b/pet.json": {"title": "PetB", "type": "object", "properties": {"t": {"$ref": "../a/pet.json#/definitions/Tag"}}, "definitions": {"Owner": {"type": "object", "properties": {"n": {"type": "string"}}}}},
         "c/other.json": {"title": "Other", "type": "object", "properties": {"p": {"$ref": "../a/pet.json"}, "q": {"$ref": "../b/pet.json"}}}}
CASES = {"Pet.json": {"title": "Pet", "type": "object", "properties": {"o": {"$ref": "pet.json#/definitions/Owner"}}, "definitions": {"Tag": {"type": "object", "properties": {"t": {"type": "string"}}}}},
         "pet.json": {"title": "Pets", "type": "object", "properties": {"t": {"$ref": "Pet.json#/definitions/Tag"}}, "definitions": {"Owner": {"type": "object", "properties": {"n": {"type": "string"}}}}},
         "user.json": {"title": "User", "type": "object", "properties": {"p": {"$ref": "Pet.json"}, "q": {"$ref": "pet.json"}}}}
# a member named like the type it has (the generator aliases the import) and a document that uses the same types plainly
DOCS["shadow"] = {"title": "S", "type": "object", "properties": {"date": {"type": "string", "format": "date"}, "time": {"type": "string", "format": "time"},
                                                                  "UUID": {"type": "string", "format": "uuid"}, "Decimal": {"type": "number", "format": "decimal"},
                                                                  "datetime": {"type": "string", "format": "date-time"}}}
DOCS["dates"] = {"title": "D", "type": "object", "properties": {"born": {"type": "string", "format": "date"}, "at": {"type": "string", "format": "time"},
                                                                 "id": {"type": "string", "format": "uuid"}, "price": {"type": "number", "format": "decimal"},
                                                                 "seen": {"type": "array", "items": {"type": "string", "format": "date-time"}}}}
OPTSETS = [
    {}, {"snake_case_field": True}, {"remove_special_field_name_prefix": True}, {"special_field_name_prefix": "zz"}, {"use_union_operator": True, "use_standard_collections": True},
    {"capitalise_enum_members": True}, {"field_constraints": True, "use_annotated": True}, {"reuse_model": True, "collapse_root_models": True}, {"use_title_as_name": True},
    {"strip_default_none": True, "use_default_kwarg": True}, {"original_field_name_delimiter": "-", "snake_case_field": True}, {"enum_field_as_literal": "all"},
]
KINDS = ["pydantic_v2.BaseModel", "pydantic.BaseModel", "dataclasses.dataclass", "typing.TypedDict"]

CHILD = r'''
import json, sys, os, hashlib, warnings
warnings.simplefilter("ignore")
sys.path.insert(0, "/verif"); sys.path.insert(0, os.environ.get("VERIF_REPO", "/repo") + "/src")
from harness import e2e
from harness.props import c08
job = json.loads(sys.stdin.read())
for h in job.get("history", []):
    c08.run_one(h)
print(json.dumps(c08.run_one(job["target"])))
'''


def fix_opts(o):
    o = dict(o)
    if o.get("enum_field_as_literal"):
        from datamodel_code_generator.parser import LiteralType
        o["enum_field_as_literal"] = LiteralType(o["enum_field_as_literal"])
    for k in ("field_extra_keys", "field_extra_keys_without_x_prefix"):
        if k in o:
            o[k] = set(o[k])
    return o


@contextlib.contextmanager
def reversed_listing():
    """every way of listing a directory answers in the opposite order (what another file system / OS may do)"""
    import pathlib
    saved = [(pathlib.Path, n, getattr(pathlib.Path, n)) for n in ("rglob", "glob", "iterdir")] + [(os, "listdir", os.listdir)]
    for obj, name, orig in saved:
        if obj is os:
            setattr(obj, name, (lambda orig: lambda *a, **k: list(reversed(orig(*a, **k))))(orig))
        else:
            setattr(obj, name, (lambda orig: lambda self, *a, **k: iter(list(orig(self, *a, **k))[::-1]))(orig))
    try:
        yield
    finally:
        for obj, name, orig in saved:
            setattr(obj, name, orig)


def run_one(job):
    """job: {doc | tree, kind, opts, cwd?}; returns {file: sha256 of text} (or error text)"""
    opts = fix_opts(job.get("opts", {}))
    cwd = os.getcwd()
    try:
        if job.get("cwd"):
            os.chdir(job["cwd"])
        if "tree" in job:
            lib.WORK.mkdir(exist_ok=True)
            d = Path(tempfile.mkdtemp(prefix="c08", dir=lib.WORK))
            try:
                items = list(job["tree"].items())
                if job.get("reverse"):
                    items.reverse()
                for rel, doc in items:
                    p = d / "in" / rel
                    p.parent.mkdir(parents=True, exist_ok=True)
                    p.write_text(json.dumps(doc))
                with (reversed_listing() if job.get("listing") == "reversed" else contextlib.nullcontext()):
                    g = e2e.generate(d / "in", kind=job["kind"], modular=True, **opts)
            finally:
                shutil.rmtree(d, ignore_errors=True)
        else:
            g = e2e.generate(json.dumps(job["doc"]), kind=job["kind"], formatters=job.get("formatters", ()), **opts)
    finally:
        os.chdir(cwd)
    if not g.ok:
        return {"error": (g.error or "")[:60]}
    return {k: v for k, v in g.files.items()}


_memo_runs = {}


def prefetch(pairs):
    """run (job, seed) pairs in parallel; results are served to in_subprocess from a memo"""
    from concurrent.futures import ThreadPoolExecutor
    todo = [(j, sd) for j, sd in pairs if (json.dumps(j, sort_keys=True), sd) not in _memo_runs]
    with ThreadPoolExecutor(max_workers=12) as ex:
        for (j, sd), r in zip(todo, ex.map(lambda p: _in_subprocess(*p), todo)):
            _memo_runs[(json.dumps(j, sort_keys=True), sd)] = r


def in_subprocess(job, seed):
    k = (json.dumps(job, sort_keys=True), seed)
    if k not in _memo_runs:
        _memo_runs[k] = _in_subprocess(job, seed)
    return _memo_runs[k]


def _in_subprocess(job, seed):
    env = dict(os.environ, PYTHONHASHSEED=str(seed), PYTHONPATH="/verif:" + str(lib.REPO / "src"), PYTHONDONTWRITEBYTECODE="1")
    p = subprocess.run([lib.PY, "-W", "ignore", "-c", CHILD], input=json.dumps(job), capture_output=True, text=True, env=env, timeout=300)
    if p.returncode != 0:
        return {"error": "child failed: " + p.stderr[-300:]}
    return json.loads(p.stdout.strip().splitlines()[-1])


def correspond(ctx):
    """cached vs uncached along random interleaved histories (the memo model says: identical)"""
    from harness import reflect
    from datamodel_code_generator import reference as ref, types as ty
    from datamodel_code_generator.imports import Import
    from datamodel_code_generator.model import base as mbase
    from datamodel_code_generator.parser import jsonschema as pj
    import re as _re
    rng = ctx.rng("memo")
    inv = reflect.determinism_tables()["caches"]
    words = ["fooBar", "HTTPServer", "user_id", "pets", "Pet", "a-b", "_meta", "x", "status", "data", "Self", "userName"]
    hints = ["int", "Optional[int]", "Union[int, None]", "int | None", "List[int | None] | None", "Union[str, Union[int, None]]", "None", "Dict[str, int] | None", "str | None | int"]
    calls = {
        "reference.camel_to_snake": (ref.camel_to_snake, lambda: (rng.choice(words),)),
        "reference.snake_to_upper_camel": (ref.snake_to_upper_camel, lambda: (rng.choice(words), rng.choice(["_", "-", " "]))),
        "reference.get_singular_name": (ref.get_singular_name, lambda: (rng.choice(words), rng.choice(["Item", "Enum"]))),
        "types.get_optional_type": (ty.get_optional_type, lambda: (rng.choice(hints), rng.random() < 0.5)),
        "base.get_optional_type": (ty.get_optional_type, lambda: (rng.choice(hints), rng.random() < 0.5)),
        "types._remove_none_from_type": (ty._remove_none_from_type, lambda: (rng.choice(hints), ty.UNION_PATTERN, ", ")),
        "jsonschema.get_ref_type": (pj.get_ref_type, lambda: (rng.choice(["#/definitions/A", "a.json#/x", "https://x/y.json", "#foo", "../b.yaml"]),)),
        "imports.Import.from_full_path": (Import.from_full_path, lambda: (rng.choice(["typing.List", "a.b.C", "x", "datetime.date"]),)),
    }
    bad = 0
    for name in inv:
        if name == "base.get_template":
            continue  # returns a Jinja template object (identity is the cache's purpose)
        if name not in calls:
            bad += 1
            ctx.tie_broken("correspondence", f"lru_cache'd function {name} is not covered by the history driver (new cache in the package)", "")
    snapshots = {}
    for _ in range(ctx.n(4000, 40000)):
        name = rng.choice([n for n in calls])
        fn, mk = calls[name]
        args = mk()
        ctx.count("eval_memo")
        ctx.nontrivial((name, args if name != "types._remove_none_from_type" else args[0]))
        try:
            got = fn(*args)
            want = fn.__wrapped__(*args) if name != "imports.Import.from_full_path" else fn.__wrapped__(Import, *args)
        except Exception as e:  # noqa: BLE001
            continue
        r_got = repr(got)
        if r_got != repr(want):
            bad += 1
            if bad <= 4:
                ctx.tie_broken("correspondence", f"cached {name}{args!r} = {r_got} but the function computes {want!r}", "")
        key = (name, repr(args))
        if key in snapshots and snapshots[key] != r_got:
            bad += 1
            if bad <= 4:
                ctx.tie_broken("correspondence", f"{name}{args!r} returned {snapshots[key]} earlier in this history and {r_got} now", "")
        snapshots[key] = r_got
    ctx.count("disagreements", bad)
    ctx.sample({"caches": inv})


MULTI = {
    "catalog.json": {"title": "Catalog", "type": "object", "properties": {"n": {"type": "integer"}},
                     "shapes": {"geo": {"type": "object", "properties": {"lat": {"type": "number"}}},
                                "zone": {"type": "object", "properties": {"code": {"type": "string"}}},
                                "area": {"type": "object", "properties": {"sq": {"type": "number"}}},
                                "misc": {"type": "string", "enum": ["a", "b"]}}},
    "order.json": {"title": "Order", "type": "object", "properties": {"g": {"$ref": "catalog.json#/shapes/geo"}, "z": {"$ref": "catalog.json#/shapes/zone"},
                                                                         "a": {"$ref": "catalog.json#/shapes/area"}, "m": {"$ref": "catalog.json#/shapes/misc"}}},
    "sub/item.json": {"title": "Item", "type": "object", "properties": {"o": {"$ref": "../order.json"}, "z": {"$ref": "../catalog.json#/shapes/zone"}}},
}


def falsify(ctx):
    rng = ctx.rng("fals")
    seen = 0

    def report(key, what, payload):
        nonlocal seen
        seen += 1
        if seen <= 6:
            ctx.violation(key, what, payload)

    # (a) hash seeds
    seeds = [0, 1, 2, 3] if not ctx.thorough else list(range(10))
    jobs = [{"tree": MULTI, "kind": "pydantic_v2.BaseModel", "opts": {}}, {"tree": MULTI, "kind": "pydantic_v2.BaseModel", "opts": {}, "reverse": True},
            {"doc": DOCS["unions"], "kind": "pydantic.BaseModel", "opts": {"reuse_model": True}},
            {"doc": DOCS["plain"], "kind": "typing.TypedDict", "opts": {"snake_case_field": True}, "formatters": ["black", "isort"]}]
    jobs += [{"doc": DOCS["extras"], "kind": k, "opts": o} for k in KINDS + ["msgspec.Struct"]
             for o in ({"field_include_all_keys": True}, {"field_extra_keys": EXTRA_KEYS}, {"field_extra_keys_without_x_prefix": EXTRA_KEYS})]
    listing = [{"tree": t, "kind": k, "opts": o} for t in (TWINS, CASES) for k in ("pydantic_v2.BaseModel", "dataclasses.dataclass") for o in ({}, {"reuse_model": True})]
    prefetch([({"target": j}, sd) for j in jobs for sd in seeds] + [({"target": dict(j, **x)}, 0) for j in listing for x in ({}, {"listing": "reversed"})])
    hist_cases = []
    for _ in range(ctx.n(14, 120)):
        target = {"doc": DOCS[rng.choice(list(DOCS))], "kind": rng.choice(KINDS), "opts": rng.choice(OPTSETS)}
        hist = [{"doc": DOCS[rng.choice(list(DOCS))], "kind": rng.choice(KINDS), "opts": rng.choice(OPTSETS)} for _ in range(rng.choice([1, 2, 4]))]
        hist_cases.append((target, hist))
    for kind in KINDS:   # directed: the history holds the shadowing document, the target uses the same types
        hist_cases.append(({"doc": DOCS["dates"], "kind": kind, "opts": {}}, [{"doc": DOCS["shadow"], "kind": kind, "opts": {}}]))
        hist_cases.append(({"doc": DOCS["shadow"], "kind": kind, "opts": {}}, [{"doc": DOCS["dates"], "kind": kind, "opts": {}}, {"doc": DOCS["shadow"], "kind": "pydantic_v2.BaseModel", "opts": {}}]))
    prefetch([({"target": t}, 0) for t, h in hist_cases] + [({"target": t, "history": h}, 0) for t, h in hist_cases])
    for job in jobs:
        outs = []
        for sd in seeds:
            ctx.count("eval_subprocess")
            outs.append(in_subprocess({"target": job}, sd))
        ctx.nontrivial(("seeds", json.dumps(job, sort_keys=True)[:80]))
        if any("error" in o for o in outs):
            ctx.tie_broken("falsifier", "a hash-seed job failed to run", json.dumps(outs[0])[:300])
        for sd, o in zip(seeds[1:], outs[1:]):
            if o != outs[0]:
                diff = [k for k in set(o) | set(outs[0]) if o.get(k) != outs[0].get(k)]
                report(f"hashseed:{json.dumps(job, sort_keys=True)[:120]}", f"output differs between PYTHONHASHSEED={seeds[0]} and {sd} in {diff[:3]}",
                       {"hashseed": True, "job": job, "seeds": [seeds[0], sd]})
                break
    # directory inputs created in different orders -> same bytes
    a, b = in_subprocess({"target": jobs[0]}, 0), in_subprocess({"target": jobs[1]}, 0)
    ctx.count("eval_subprocess", 2)
    if a != b:
        report("dir-order", "directory input created in a different order gives different output", {"hashseed": True, "job": jobs[1], "seeds": [0, 0], "against": jobs[0]})
    # the order in which the OS lists a directory
    for j in listing:
        ctx.count("eval_subprocess", 2)
        ctx.nontrivial(("listing", json.dumps(j, sort_keys=True)[:200]))
        a, b = in_subprocess({"target": j}, 0), in_subprocess({"target": dict(j, listing="reversed")}, 0)
        if "error" in a or "error" in b:
            if ("error" in a) != ("error" in b):
                report(f"listing:{json.dumps(j, sort_keys=True)[:160]}", f"a directory input generates or fails depending on the order in which the directory is listed ({a.get('error') or b.get('error')})",
                       {"hashseed": True, "job": dict(j, listing="reversed"), "seeds": [0, 0], "against": j})
            continue
        if a != b:
            diff = [k for k in set(a) | set(b) if a.get(k) != b.get(k)]
            report(f"listing:{json.dumps(j, sort_keys=True)[:160]}", f"directory input {sorted(j['tree'])}: output differs with the order in which the directory is listed, in {diff[:3]}",
                   {"hashseed": True, "job": dict(j, listing="reversed"), "seeds": [0, 0], "against": j})
    # (b) histories in one interpreter vs fresh interpreter
    for target, hist in hist_cases:
        ctx.count("eval_subprocess", 2)
        ctx.nontrivial(("history", json.dumps(hist, sort_keys=True)[:100]))
        fresh = in_subprocess({"target": target}, 0)
        after = in_subprocess({"target": target, "history": hist}, 0)
        if fresh != after:
            report(f"history:{json.dumps(target, sort_keys=True)[:100]}:{json.dumps(hist, sort_keys=True)[:200]}",
                   f"generate({target['kind']}, {target['opts']}) gives different output after a history of {len(hist)} other generate() calls ({[h['opts'] for h in hist]})",
                   {"history": hist, "target": target})
    # (c) working directory
    t = {"doc": DOCS["plain"], "kind": "pydantic_v2.BaseModel", "opts": {}}
    r1, r2 = in_subprocess({"target": t}, 0), in_subprocess({"target": dict(t, cwd="/")}, 0)
    ctx.count("eval_subprocess", 2)
    if r1 != r2:
        report("cwd", "output depends on the working directory", {"target": dict(t, cwd="/"), "history": []})
    ctx.sample({"history_example": OPTSETS[:3]})


def main_history():
    from harness.props import c18
    return c18.history_leak()


def replay_finding(ctx, f):
    r = f["replay"]
    if r.get("main_history"):
        return main_history() is not None
    if r.get("hashseed"):
        return in_subprocess({"target": r["job"]}, r["seeds"][0]) != in_subprocess({"target": r.get("against", r["job"])}, r["seeds"][1])
    return in_subprocess({"target": r["target"]}, 0) != in_subprocess({"target": r["target"], "history": r["history"]}, 0)


def replay(ctx, payload):
    r = payload.get("replay", payload)
    if not (r.get("hashseed") or "target" in r or r.get("main_history")):
        print(json.dumps(payload, indent=1)[:3000])
        return 0
    bad = replay_finding(ctx, {"replay": r})
    print("replay:", "outputs differ" if bad else "no violation")
    return 1 if bad else 0
