"""C11 - no model is lost or duplicated and eager dependencies are defined first."""
from __future__ import annotations

import ast
import itertools
import json

from harness import lib, e2e

PID = "C11"
PROPS_V = "props/C11.v"
TABLES = ()
RULE = ("correspondence: the Gallina model of sort_data_models vs the real function on real pydantic DataModel objects: "
        "ALL graphs with <= 2 nodes (both edge kinds, all orders; <= 3 nodes in thorough) plus random graphs to 8 nodes; "
        "falsifier: schema sets realising a random two-edge-kind graph through generate() (pydantic v1/v2, dataclass, "
        "TypedDict, reuse_model, keep_model_order), checking class multiset, base order, update calls and that the "
        "module executes. non-trivial = graph has at least one edge")
TRUSTED = ["graphs are realised with allOf+$ref (inheritance) and property $ref (member); other eager edges (RootModel "
           "subscripts, functional TypedDict values, alias assignments) are covered by the executing falsifier only"]
ASSUMPTIONS = ["paths of the models are pairwise distinct (NoDup hypothesis of the theorems)"]


def build_models(nodes):
    from datamodel_code_generator.model.pydantic import BaseModel, DataModelField
    from datamodel_code_generator.reference import Reference
    from datamodel_code_generator.types import DataType
    ids = {n[0] for n in nodes} | {x for n in nodes for x in n[1] + n[2]}
    refs = {p: Reference(path=str(p), name=f"M{p}", original_name=f"M{p}") for p in ids}
    ms = []
    for p, bases, frefs in nodes:
        ms.append(BaseModel(reference=refs[p], base_classes=[refs[b] for b in bases],
                            fields=[DataModelField(name=f"f{j}", data_type=DataType(reference=refs[r])) for j, r in enumerate(frefs)]))
    return ms


def real_sort(nodes):
    from datamodel_code_generator.parser.base import sort_data_models
    ms = build_models(nodes)
    try:
        _, s, upd = lib.call_with_timeout(sort_data_models, 5.0, ms)
    except lib.Timeout:
        return "TIMEOUT"
    except Exception:  # noqa: BLE001
        return "ERROR"
    return "OK\t" + (",".join(m.path for m in s.values()) or "-") + "\t" + (",".join(upd) or "-")


def enc_nodes(nodes):
    f = lambda l: ",".join(map(str, l)) if l else "-"
    return "|".join(f"{p}:{f(b)}:{f(r)}" for p, b, r in nodes)


def all_graphs(n, extra=0):
    """every assignment of base/member edge sets over n nodes (targets may include one unknown node), all orders"""
    ids = list(range(1, n + 1))
    targets = ids + ([9] if extra else [])
    subsets = [list(c) for k in range(len(targets) + 1) for c in itertools.combinations(targets, k)]
    for combo in itertools.product(subsets, repeat=2 * n):
        nodes = [(ids[i], combo[2 * i], combo[2 * i + 1]) for i in range(n)]
        for perm in itertools.permutations(nodes):
            yield list(perm)


def rand_graph(rng, n=None, acyclic_bases=False):
    n = n or rng.choice([2, 3, 4, 5, 6, 8])
    ids = list(range(1, n + 1))
    rng.shuffle(ids)
    nodes = []
    pb, pr = rng.choice([(0.1, 0.2), (0.25, 0.3), (0.4, 0.1), (0.0, 0.4)])
    for i, p in enumerate(ids):
        cand_b = ids[:i] if acyclic_bases else ids
        bases = [b for b in cand_b if rng.random() < pb and b != p]
        if rng.random() < 0.03:
            bases.append(99)
        frefs = [r for r in ids if rng.random() < pr]
        nodes.append((p, bases[:2], frefs))
    rng.shuffle(nodes)
    return nodes


def correspond(ctx):
    drv = lib.Driver()
    rng = ctx.rng("corr")
    cases = []
    cases += list(all_graphs(1, extra=1))
    cases += list(all_graphs(2))
    if ctx.thorough:
        # 3 nodes: restrict each edge set to <= 2 targets to keep the enumeration in the minutes
        ids = [1, 2, 3]
        subsets = [list(c) for k in range(3) for c in itertools.combinations(ids, k)]
        for combo in itertools.product(subsets, repeat=6):
            nodes = [(ids[i], combo[2 * i], combo[2 * i + 1]) for i in range(3)]
            if rng.random() < 0.25:
                for perm in itertools.permutations(nodes):
                    cases.append(list(perm))
    for _ in range(ctx.n(1500, 20000)):
        cases.append(rand_graph(rng, acyclic_bases=rng.random() < 0.6))
    ctx.extra["exhaustive"] = True
    ctx.extra["exhaustive_domain"] = "all graphs with <= 2 nodes x 2 edge kinds x all orders"
    reqs = ["sortdm\t1000\t" + enc_nodes(n) for n in cases]
    outs = drv.batch(reqs)
    bad = 0
    for nodes, out in zip(cases, outs):
        ctx.count("eval_sort")
        real = real_sort(nodes)
        ctx.bucket("n", len(nodes))
        ctx.bucket("result", real.split("\t")[0])
        if any(b or r for _, b, r in nodes):
            ctx.nontrivial(enc_nodes(nodes))
        if real != out:
            bad += 1
            if bad <= 4:
                ctx.tie_broken("correspondence", "sort_data_models model != code", json.dumps({"nodes": nodes, "code": real, "model": out}), hint=nodes)
    ctx.count("disagreements", bad)
    ctx.sample({"nodes": cases[-1], "code": real_sort(cases[-1])})
    # keep_model_order pass (C11_bases_first is about its result): directed inheritance chains in both name
    # orders - a chain whose names sort against the inheritance needs about k^2/2 passes - with unrelated
    # models around them, the chain base possibly imported
    from . import c14
    kcases = []
    for k in range(2, 9):
        for down in (False, True):
            for extra in (0, 1, 3):
                for imp in (False, True):
                    ids = list(range(10, 10 + k))
                    ms = [(n, [n + 1] if down else [n - 1]) for n in ids]
                    if down:
                        ms[-1] = (ids[-1], [40] if imp else [])
                    else:
                        ms[0] = (ids[0], [40] if imp else [])
                    ms += [(30 + j, []) for j in range(extra)]
                    rng.shuffle(ms)
                    kcases.append((ms, [40] if imp else []))
    for _ in range(ctx.n(40, 600)):
        # two chains interleaved by name
        k = rng.choice([3, 4, 5, 6])
        a, b = list(range(10, 10 + 2 * k, 2)), list(range(11, 11 + 2 * k, 2))
        ms = []
        for ch in (a, b):
            down = rng.random() < 0.7
            for i, n in enumerate(ch):
                base = ch[i + 1] if down and i + 1 < len(ch) else ch[i - 1] if not down and i > 0 else None
                ms.append((n, [base] if base else []))
        rng.shuffle(ms)
        kcases.append((ms, []))
    reqs = ["korder\t" + (",".join(map(str, imp)) or "-") + "\t" + ";".join(f"{n}:{','.join(map(str, b))}" for n, b in ms) for ms, imp in kcases]
    for (ms, imp), out in zip(kcases, drv.batch(reqs)):
        ctx.count("eval_keep_order")
        ctx.nontrivial("ko" + json.dumps(ms))
        real = c14.real_sort(ms, imp, timeout=5.0)
        model = None if out == "FUEL" else [int(x) for x in out.split(",")] if out else []
        if real != model:
            bad += 1
            if bad <= 6:
                ctx.tie_broken("correspondence", f"keep_model_order pass: code {real}, model {model}", json.dumps({"models": ms, "imported": imp}),
                               hint={"chain": ms})


# ---------------------------------------------------------------------------------------------
# falsifier: end to end


def schema_of(nodes, twins=()):
    """twins: (new id, original id) - the new definition is an exact copy of the original one
    (what reuse_model deduplicates)"""
    defs = {}
    for p, bases, frefs in nodes:
        d = {"type": "object", "properties": {f"m{p}": {"type": "integer"}}}
        for j, r in enumerate(frefs):
            d["properties"][f"r{p}_{j}"] = {"$ref": f"#/definitions/N{r}"}
        if bases:
            d["allOf"] = [{"$ref": f"#/definitions/N{b}"} for b in bases]
        defs[f"N{p}"] = d
    for new, orig in twins:
        defs[f"N{new}"] = json.loads(json.dumps(defs[f"N{orig}"]))
    return {"definitions": defs}


def check_graph(nodes, kind, opts, twins=()):
    nodes = [(p, list(b), list(r)) for p, b, r in nodes]
    g = e2e.generate(json.dumps(schema_of(nodes, twins)), kind=kind, **opts)
    if g.timeout:
        return "generate() does not terminate"
    if not g.ok:
        return None  # a reported error
    err = e2e.parses(g.text)
    if err:
        return f"output does not parse: {err}"
    tree = ast.parse(g.text)
    classes = [n for n in tree.body if isinstance(n, ast.ClassDef)]
    names = [c.name for c in classes]
    if len(set(names)) != len(names):
        return f"a class is emitted twice: {names}"
    # each definition yields a class carrying its marker (reuse_model may turn identical ones into subclasses)
    marker_owner = {}
    for c in classes:
        for st in c.body:
            if isinstance(st, ast.AnnAssign) and isinstance(st.target, ast.Name) and st.target.id.startswith("m") and st.target.id[1:].isdigit():
                marker_owner[int(st.target.id[1:])] = c.name
    # TypedDict functional syntax / aliases are assignments, not classes
    assigned = {t.id for n in tree.body if isinstance(n, ast.Assign) for t in n.targets if isinstance(t, ast.Name)}
    for p, _, _ in list(nodes) + [(t[0], 0, 0) for t in twins]:
        if p not in marker_owner and f"N{p}" not in assigned and f"N{p}" not in names:
            return f"the model for definition N{p} is missing from the output"
    # bases first
    pos = {c.name: i for i, c in enumerate(classes)}
    for c in classes:
        for b in c.bases:
            for x in ast.walk(b):
                if isinstance(x, ast.Name) and x.id in pos and pos[x.id] >= pos[c.name] and x.id != c.name:
                    return f"class {c.name} is emitted before its base class {x.id}"
    if kind in ("pydantic_v2.BaseModel", "pydantic.BaseModel", "dataclasses.dataclass", "typing.TypedDict"):
        m, err = e2e.load_module(g.text, kind)
        try:
            if err:
                return f"module does not execute: {err}"
            if kind.startswith("pydantic"):
                for c in classes:
                    cls = getattr(m, c.name, None)
                    if cls is None or not isinstance(cls, type):
                        continue
                    try:
                        if kind == "pydantic.BaseModel":
                            # every field must be prepared: a missing update_forward_refs() shows up here
                            for fname, f in getattr(cls, "__fields__", {}).items():
                                if type(f.type_).__name__ == "ForwardRef" or type(f.outer_type_).__name__ == "ForwardRef":
                                    return f"{c.name}.{fname} is an unresolved forward reference (no update_forward_refs() call)"
                        else:
                            # pydantic v2 completes models lazily; the observable is that rebuilding does not fail
                            try:
                                cls.model_rebuild(force=True)
                            except Exception as ex:  # noqa: BLE001
                                return f"{c.name}.model_rebuild() raises {type(ex).__name__}: {str(ex)[:120]}"
                            if not cls.__pydantic_complete__:
                                return f"{c.name} is still not fully defined after model_rebuild()"
                    except AttributeError:
                        pass
        finally:
            e2e.unload(m)
    return None


def has_base_cycle(nodes):
    bases = {p: b for p, b, _ in nodes}
    for p in bases:
        seen, todo = set(), list(bases[p])
        while todo:
            x = todo.pop()
            if x == p:
                return True
            if x in seen or x not in bases:
                continue
            seen.add(x)
            todo += bases[x]
    return False


def check_doc(doc, kind, opts):
    """bases first / each class once / module executes, for a hand-written document"""
    g = e2e.generate(json.dumps(doc), kind=kind, **opts)
    if g.timeout:
        return "generate() does not terminate"
    if not g.ok:
        return None
    err = e2e.parses(g.text)
    if err:
        return f"output does not parse: {err}"
    tree = ast.parse(g.text)
    classes = [n for n in tree.body if isinstance(n, ast.ClassDef)]
    names = [c.name for c in classes]
    if len(set(names)) != len(names):
        return f"a class is emitted twice: {names}"
    pos = {c.name: i for i, c in enumerate(classes)}
    for c in classes:
        for b in c.bases:
            for x in ast.walk(b):
                if isinstance(x, ast.Name) and x.id in pos and pos[x.id] >= pos[c.name] and x.id != c.name:
                    return f"class {c.name} is emitted before its base class {x.id}"
    if kind in ("pydantic_v2.BaseModel", "pydantic.BaseModel", "dataclasses.dataclass", "typing.TypedDict"):
        m, err = e2e.load_module(g.text, kind)
        e2e.unload(m)
        if err:
            return f"module does not execute: {err}"
    return None


def same_name_duplicates():
    """the same object schema under the same name in two containers (definitions and a part only reached by $ref, parsed last), a
    model that inherits from / refers to one copy, the root referring to the copies in both orders"""
    foo = {"type": "object", "properties": {"a": {"type": "integer"}}}
    for container in ("extras", "components", "$defs"):
        for kind_of_use in ("base", "member", "items"):
            for first in ("other-copy", "user"):
                for third in (False, True):
                    if kind_of_use == "base":
                        bar = {"allOf": [{"$ref": "#/definitions/Foo"}, {"type": "object", "properties": {"b": {"type": "integer"}}}]}
                    elif kind_of_use == "member":
                        bar = {"type": "object", "properties": {"f": {"$ref": "#/definitions/Foo"}, "b": {"type": "integer"}}}
                    else:
                        bar = {"type": "object", "properties": {"fs": {"type": "array", "items": {"$ref": "#/definitions/Foo"}}}}
                    props = {"zero": {"$ref": f"#/{container}/Foo"}, "bar": {"$ref": "#/definitions/Bar"}}
                    if first == "user":
                        props = dict(reversed(list(props.items())))
                    defs = {"Foo": foo, "Bar": bar}
                    if third:
                        defs["Baz"] = {"allOf": [{"$ref": "#/definitions/Bar"}], "type": "object", "properties": {"c": {"type": "string"}}}
                        props["baz"] = {"$ref": "#/definitions/Baz"}
                    yield {"title": "Top", "type": "object", "properties": props, "definitions": defs, container: {"Foo": json.loads(json.dumps(foo))}}


def reuse_duplicates():
    """--reuse-model on a module that holds an exact-duplicate enumeration and an exact-duplicate object in every order, with
    further models behind them: every definition keeps a class (or an alias), no class is written twice, the module executes"""
    enum = {"type": "string", "enum": ["red", "blue"]}
    coat = {"type": "object", "properties": {"layers": {"type": "integer"}}}
    parts = {"PrimaryColor": enum, "AccentColor": dict(enum), "Coating": coat, "PaintJob": json.loads(json.dumps(coat)),
             "Wheel": {"type": "object", "properties": {"size": {"type": "integer"}}}, "Seat": {"type": "object", "properties": {"heated": {"type": "boolean"}}}}
    orders = [["PrimaryColor", "AccentColor", "Coating", "PaintJob", "Wheel", "Seat"], ["Coating", "PaintJob", "PrimaryColor", "AccentColor", "Wheel", "Seat"],
              ["PrimaryColor", "Coating", "AccentColor", "PaintJob", "Wheel", "Seat"], ["Wheel", "PrimaryColor", "AccentColor", "Coating", "PaintJob", "Seat"],
              ["PrimaryColor", "AccentColor", "Coating", "PaintJob"]]
    for order in orders:
        defs = {k: parts[k] for k in order}
        root = {"title": "Order", "type": "object", "properties": {k.lower(): {"$ref": "#/definitions/" + k} for k in order}, "definitions": defs}
        yield root, order


def check_reuse(doc, names, kind):
    g = e2e.generate(json.dumps(doc), kind=kind, reuse_model=True)
    if g.timeout:
        return "generate() does not terminate"
    if not g.ok:
        return f"generation fails: {g.error}" if "IndexError" in str(g.error) or "KeyError" in str(g.error) else None
    if e2e.parses(g.text):
        return "output does not parse"
    tree = ast.parse(g.text)
    classes = [n.name for n in tree.body if isinstance(n, ast.ClassDef)]
    assigned = [t.id for n in tree.body if isinstance(n, ast.Assign) for t in n.targets if isinstance(t, ast.Name)]
    defined = classes + assigned
    dup = sorted({n for n in defined if defined.count(n) > 1})
    if dup:
        return f"{dup} defined twice in the module"
    used = set()
    for n in ast.walk(tree):
        if isinstance(n, ast.AnnAssign):
            ann = n.annotation
            if isinstance(ann, ast.Constant) and isinstance(ann.value, str):
                try:
                    ann = ast.parse(ann.value, mode="eval").body
                except SyntaxError:
                    continue
            used |= {x.id for x in ast.walk(ann) if isinstance(x, ast.Name)}
    missing = sorted((used & set(names)) - set(defined))
    if missing:
        return f"members are typed with {missing}, which the module does not define (a model was lost)"
    return None


def falsify(ctx):
    rng = ctx.rng("fals")
    cases = []
    for h in ctx.hints[:10]:
        if isinstance(h, list):
            cases.append([(p, [b for b in bs if b != 99 and b != 9], [r for r in rs if r != 9]) for p, bs, rs in h])
    # the shapes named in the property: self loop, mutual recursion, diamond, cycle through inherited classes
    cases += [
        [(1, [], [1])], [(1, [], [2]), (2, [], [1])], [(2, [], [1]), (1, [], [1, 2])],
        [(4, [2, 3], []), (2, [1], []), (3, [1], []), (1, [], [])],
        [(3, [2], []), (2, [1], []), (1, [], [3])], [(1, [], [3]), (2, [1], []), (3, [2], [])],
        [(1, [], [2]), (2, [], [3]), (3, [], [1])], [(2, [1], [2]), (1, [], [2])],
    ]
    for _ in range(ctx.n(120, 2500)):
        cases.append(rand_graph(rng, n=rng.choice([2, 3, 4, 5, 6]), acyclic_bases=True))
    seen = 0
    # inheritance chains whose names sort against (and along) the inheritance, under keep_model_order
    chains = [h["chain"] for h in ctx.hints if isinstance(h, dict) and "chain" in h][:4]
    for k in ctx.n([4, 5, 7], [2, 3, 4, 5, 6, 7, 8, 9]):
        for down in (True, False):
            for extra in (0, 2):
                ids = list(range(1, k + 1))
                ch = [(n, [n + 1] if down and n < k else [n - 1] if not down and n > 1 else []) for n in ids]
                chains.append(ch + [(20 + j, []) for j in range(extra)])
    for ch in chains:
        nodes = [(n, [b for b in bs if b < 40], []) for n, bs in ch]
        for kind in ("pydantic_v2.BaseModel", "dataclasses.dataclass", "typing.TypedDict"):
            opts = {"keep_model_order": True}
            ctx.count("eval_e2e")
            ctx.count("chain_cases")
            ctx.nontrivial(enc_nodes(nodes) + kind + "chain")
            why = check_graph(nodes, kind, opts)
            if why:
                seen += 1
                if seen <= 6:
                    ctx.violation(f"e2e:{enc_nodes(nodes)}:[]:{kind}:{sorted(opts)}", f"graph {enc_nodes(nodes)} ({kind}, {opts}): {why}",
                                  {"nodes": nodes, "twins": [], "kind": kind, "opts": opts, "why": why})
    for i, nodes in enumerate(cases):
        nodes = [(p, [b for b in bs if b in {q for q, _, _ in nodes}], [r for r in rs if r in {q for q, _, _ in nodes}]) for p, bs, rs in nodes]
        if has_base_cycle(nodes):
            continue
        if i >= 8 + len(ctx.hints[:10]):
            # random graphs: single inheritance only (several related bases can have no consistent MRO,
            # which is about Python's class model, not about ordering)
            nodes = [(p, bs[:1], rs) for p, bs, rs in nodes]
        kind = ["pydantic_v2.BaseModel", "pydantic.BaseModel", "dataclasses.dataclass", "typing.TypedDict"][i % 4] if i < 32 else rng.choice(
            ["pydantic_v2.BaseModel", "pydantic.BaseModel", "pydantic.BaseModel", "dataclasses.dataclass", "typing.TypedDict"])
        opts = {}
        if rng.random() < 0.3:
            opts["reuse_model"] = True
        if rng.random() < 0.25 and kind != "pydantic.BaseModel":
            opts["keep_model_order"] = True  # with pydantic v1 output: known finding C11-keep-model-order
        if kind == "typing.TypedDict" and any(rs for _, _, rs in nodes) and any(bs for _, bs, _ in nodes):
            pass
        if kind == "dataclasses.dataclass":
            continue_ = False
        ctx.count("eval_e2e")
        ctx.bucket("kind", kind)
        if any(b or r for _, b, r in nodes):
            ctx.nontrivial(enc_nodes(nodes) + kind + json.dumps(opts, sort_keys=True))
        twins = []
        if opts.get("reuse_model") and rng.random() < 0.7 and nodes:
            # an exact copy of one definition, referenced by some other model: reuse_model makes it a subclass
            orig = rng.choice(nodes)[0]
            new = max(q for q, _, _ in nodes) + 1
            twins = [(new, orig)]
            k = rng.randrange(len(nodes))
            nodes[k] = (nodes[k][0], nodes[k][1], nodes[k][2] + [new])
            ctx.count("twin_cases")
        why = check_graph(nodes, kind, opts, twins)
        if why:
            seen += 1
            if seen <= 6:
                ctx.violation(f"e2e:{enc_nodes(nodes)}:{twins}:{kind}:{sorted(opts)}", f"graph {enc_nodes(nodes)} twins {twins} ({kind}, {opts}): {why}",
                              {"nodes": nodes, "twins": twins, "kind": kind, "opts": opts, "why": why})
    for i, doc in enumerate(same_name_duplicates()):
        for kind in (["pydantic_v2.BaseModel", "pydantic.BaseModel", "dataclasses.dataclass", "typing.TypedDict"] if ctx.thorough
                     else [["pydantic_v2.BaseModel", "pydantic.BaseModel", "dataclasses.dataclass", "typing.TypedDict"][i % 4]]):
            for opts in ({}, {"reuse_model": True}):
                ctx.count("eval_e2e")
                ctx.count("duplicate_cases")
                ctx.nontrivial("dup:" + json.dumps(doc, sort_keys=True) + kind + json.dumps(opts))
                why = check_doc(doc, kind, opts)
                if why:
                    seen += 1
                    if seen <= 8:
                        ctx.violation(f"doc:{kind}:{sorted(opts)}:{json.dumps(doc, sort_keys=True)[:300]}", f"same-named identical schemas ({kind}, {opts}): {why}",
                                      {"doc": doc, "kind": kind, "opts": opts, "why": why})
    for doc, names in reuse_duplicates():
        for kind in ("pydantic_v2.BaseModel", "pydantic.BaseModel", "dataclasses.dataclass"):
            ctx.count("eval_e2e")
            ctx.nontrivial("reuse-dup:" + ",".join(names) + kind)
            why = check_reuse(doc, names, kind)
            if why:
                seen += 1
                if seen <= 8:
                    ctx.violation(f"reuse-dup:{kind}:{','.join(names)}", f"--reuse-model, definitions {names} ({kind}): {why}", {"reuse_doc": doc, "names": names, "kind": kind, "why": why})
    ctx.sample({"graph": enc_nodes(cases[-1])})


def replay_finding(ctx, f):
    r = f["replay"]
    if "reuse_doc" in r:
        return check_reuse(r["reuse_doc"], r["names"], r["kind"]) is not None
    if "doc" in r:
        return check_doc(r["doc"], r["kind"], r["opts"]) is not None
    return check_graph(r["nodes"], r["kind"], r["opts"], [tuple(t) for t in r.get("twins", [])]) is not None


def replay(ctx, payload):
    r = payload.get("replay", payload)
    if "reuse_doc" in r:
        why = check_reuse(r["reuse_doc"], r["names"], r["kind"])
        print("replay:", why or "no violation")
        return 1 if why else 0
    if "doc" in r:
        why = check_doc(r["doc"], r["kind"], r["opts"])
        print("replay:", why or "no violation")
        return 1 if why else 0
    if "nodes" not in r:
        print(json.dumps(payload, indent=1)[:3000])
        return 0
    why = check_graph(r["nodes"], r["kind"], r["opts"], [tuple(t) for t in r.get("twins", [])])
    print("replay:", why or "no violation")
    return 1 if why else 0
