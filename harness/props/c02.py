"""C02 - emitted modules execute: every name is bound before it is needed."""
from __future__ import annotations

import ast
import builtins
import json

from harness import lib, e2e

PID = "C02"
PROPS_V = "props/C02.v"
TABLES = ("HintImportTable",)
RULE = ("correspondence: the extracted Imports state machine vs the real Imports object along random append/remove histories (matched "
        "removes, aliases, dotted names, re-adding after deletion), comparing dict order, sets and aliases; falsifier: schemas from a "
        "grammar of the constructs that bind or use names (unions, containers, optional, $ref cycles, inheritance chains inside cycles, "
        "enums, defaults, constraints, nullable, root models) x 5 model types x typing options -> the module is executed, every name is "
        "resolved by an AST scope analysis (eager uses before definition, deferred uses anywhere), forward references are rebuilt. "
        "non-trivial = history has a remove / schema has a reference")
TRUSTED = ["pydantic-v1-style output is executed against pydantic.v1; msgspec output is only analysed statically (not installed)",
           "additional_imports, custom templates and customTypePath are outside"]
ASSUMPTIONS = ["every remove in a history matches a counted pair (ops_ok): the generator only removes imports it appended"]

FROMS = [None, "typing", ".", "..a", "pydantic", "collections.abc"]
NAMES = ["List", "Optional", "a", "b", "Field", "x.y", "p.q.r", "Mapping"]


def run_real(ops):
    from datamodel_code_generator.imports import Import, Imports
    im = Imports()
    for kind, f, n, al in ops:
        i = Import(from_=f, import_=n, alias=al)
        if kind == "a":
            im.append(i)
        else:
            im.remove(i)
    lines = []
    for k, names in im.items():
        row = []
        for n in names:
            al = im.alias.get(k, {}).get(n)
            row.append((n, None if (al is None or al == n) else al))
        lines.append((k, sorted(row)))
    return lines


def gen_history(rng):
    ops, live = [], []
    for _ in range(rng.choice([1, 3, 6, 10, 16])):
        if live and rng.random() < 0.4:
            j = rng.randrange(len(live))
            f, n, al = live.pop(j)
            ops.append(("r", f, n, al))
        else:
            f, n = rng.choice(FROMS), rng.choice(NAMES)
            al = rng.choice([None, None, n + "_1", n]) if "." not in n else None
            ops.append(("a", f, n, al))
            live.append((f, n, al))
    return ops


def correspond(ctx):
    rng = ctx.rng("corr")
    drv = lib.Driver()
    E = lib.enc_str
    hist = [gen_history(rng) for _ in range(ctx.n(1500, 20000))]
    reqs = []
    for ops in hist:
        reqs.append("imports\t" + "|".join(f"{k}:{E(f) if f is not None else '~'}:{E(n)}:{E(al) if al is not None else '~'}" for k, f, n, al in ops))
    outs = drv.batch(reqs)
    bad = 0
    for ops, out in zip(hist, outs):
        ctx.count("eval_history")
        if any(o[0] == "r" for o in ops):
            ctx.nontrivial(json.dumps(ops))
        ctx.bucket("len", len(ops))
        ok, body = out.split("\t")
        model = []
        if body:
            for line in body.split("|"):
                k, names = line.split(":")
                row = []
                for x in names.split(";"):
                    n, al = x.split("=")
                    row.append((lib.dec_str(n), None if al == "~" else lib.dec_str(al)))
                model.append((None if k == "~" else lib.dec_str(k), sorted(row)))
        try:
            real = run_real(ops)
        except Exception as e:  # noqa: BLE001
            real = f"EXC {type(e).__name__}: {e}"
        if ok != "1" or real != model:
            bad += 1
            if bad <= 4:
                ctx.tie_broken("correspondence", "Imports model != code", json.dumps({"ops": ops, "code": real, "model": model, "ops_ok": ok}), hint=ops)
    # annotations vs imports of one IR tree: the extracted imports_of / needs vs the real DataType.all_imports and type_hint
    from harness.props import c13
    import re as _re
    TYPING = {"List", "Sequence", "Set", "FrozenSet", "Dict", "Mapping", "Union", "Literal"}
    trees = [c13.rand_tree(rng, rng.choice([1, 2, 3])) for _ in range(ctx.n(250, 4000))]
    jobs = [(t, sp) for t in trees for sp in ([(0, 0, 0), (1, 1, 1), (0, 1, 1), (1, 0, 0), (0, 1, 0), (0, 0, 1), (1, 1, 0), (1, 0, 1)] if ctx.thorough else [rng.choice([(0, 0, 0), (1, 1, 1), (0, 1, 1), (1, 0, 0), (0, 1, 0), (0, 0, 1)])])]
    outs = drv.batch([f"himp\t{sp[0]}\t{sp[1]}\t{sp[2]}\t{t.enc()}" for t, sp in jobs])
    for (t, sp), out in zip(jobs, outs):
        ctx.count("eval_hint_imports")
        ctx.nontrivial(("hi", t.enc(), sp))
        if "\t" not in out:
            bad += 1
            ctx.tie_broken("correspondence", "driver answer " + out[:100], t.enc())
            continue
        m_imp, m_need = (set(lib.dec_str(x) for x in part.split(";") if x) if part else set() for part in out.split("\t"))
        dt = t.build(sp, {})
        try:
            hint = dt.type_hint
            real_imp = {i.import_ for i in dt.all_imports} & TYPING
        except Exception as e:  # noqa: BLE001
            continue
        real_need = set(_re.findall(r"[A-Za-z_][A-Za-z_0-9]*", _re.sub(r"'[^']*'", "", hint))) & TYPING
        if m_imp != real_imp or m_need != real_need:
            bad += 1
            if bad <= 6:
                ctx.tie_broken("correspondence", f"imports / needed names of a type tree, spelling {sp}: code {sorted(real_imp)} / {sorted(real_need)} ({hint}), model {sorted(m_imp)} / {sorted(m_need)}",
                               json.dumps(t.to_json()))
    ctx.count("disagreements", bad)
    ctx.sample({"ops": hist[0]})


# ---------------------------------------------------------------------------------------------
# falsifier: schemas -> module -> execute + scope analysis

BUILTINS = set(dir(builtins))


def scope_problems(text):
    """Names used eagerly before they are bound, and names used in annotations that are bound nowhere in the file."""
    tree = ast.parse(text)
    future = any(isinstance(n, ast.ImportFrom) and n.module == "__future__" and any(a.name == "annotations" for a in n.names) for n in tree.body)
    bound_all = set()
    for n in tree.body:
        if isinstance(n, (ast.Import, ast.ImportFrom)):
            for a in n.names:
                bound_all.add((a.asname or a.name).split(".")[0])
        elif isinstance(n, ast.ClassDef):
            bound_all.add(n.name)
        elif isinstance(n, ast.Assign):
            bound_all.update(t.id for t in n.targets if isinstance(t, ast.Name))
        elif isinstance(n, ast.AnnAssign) and isinstance(n.target, ast.Name):
            bound_all.add(n.target.id)
    probs = []
    bound = set()

    def names_in(node):
        out = []
        for x in ast.walk(node):
            if isinstance(x, ast.Name) and isinstance(x.ctx, ast.Load):
                out.append(x.id)
            elif isinstance(x, ast.Constant) and isinstance(x.value, str) and isinstance(node, ast.AST) and getattr(x, "_forward", False):
                pass
        return out

    def eager(node, where, local=()):
        for nm in names_in(node):
            if nm not in bound and nm not in BUILTINS and nm not in local:
                probs.append(f"{where}: name {nm!r} is used before it is bound")

    def deferred(node, where, local=()):
        # string annotations inside (e.g. Union['A', 'B'])
        for x in ast.walk(node):
            if isinstance(x, ast.Name) and isinstance(x.ctx, ast.Load):
                if x.id not in bound_all and x.id not in BUILTINS and x.id not in local:
                    probs.append(f"{where}: annotation name {x.id!r} is bound nowhere in the module")
            if isinstance(x, ast.Constant) and isinstance(x.value, str) and x.value.isidentifier() and x.value[:1].isupper():
                pass

    for n in tree.body:
        if isinstance(n, (ast.Import, ast.ImportFrom)):
            for a in n.names:
                bound.add((a.asname or a.name).split(".")[0])
        elif isinstance(n, ast.ClassDef):
            for b in n.bases:
                eager(b, f"bases of {n.name}")
            for kw in n.keywords:
                eager(kw.value, f"class keyword of {n.name}")
            for d in n.decorator_list:
                eager(d, f"decorator of {n.name}")
            local = set()
            for st in n.body:
                if isinstance(st, ast.AnnAssign):
                    if st.value is not None:
                        eager(st.value, f"default of {n.name}.{ast.unparse(st.target)}", local)
                    (deferred if future else eager)(st.annotation, f"annotation of {n.name}.{ast.unparse(st.target)}", local | {n.name} if not future else local)
                    if isinstance(st.target, ast.Name):
                        local.add(st.target.id)
                elif isinstance(st, ast.Assign):
                    eager(st.value, f"assignment in {n.name}", local)
                    local.update(t.id for t in st.targets if isinstance(t, ast.Name))
                elif isinstance(st, ast.ClassDef):
                    local.add(st.name)
                elif isinstance(st, (ast.FunctionDef,)):
                    local.add(st.name)
            bound.add(n.name)
        elif isinstance(n, ast.Assign):
            eager(n.value, "module-level assignment " + ast.unparse(n.targets[0]))
            bound.update(t.id for t in n.targets if isinstance(t, ast.Name))
        elif isinstance(n, ast.AnnAssign):
            if n.value is not None:
                # X: TypeAlias = <expr>: the expression is evaluated eagerly; string members are deferred
                eager(n.value, "alias " + ast.unparse(n.target))
            if isinstance(n.target, ast.Name):
                bound.add(n.target.id)
        elif isinstance(n, ast.Expr) and isinstance(n.value, ast.Call):
            eager(n.value, "module-level call " + ast.unparse(n.value.func))
    return probs


def field_hides_type(text):
    """A field whose name equals a type name used in a later annotation of the same class (evaluated in class scope)."""
    tree = ast.parse(text)
    for cls in [n for n in tree.body if isinstance(n, ast.ClassDef)]:
        assigned = set()
        for st in cls.body:
            if isinstance(st, ast.AnnAssign) and isinstance(st.target, ast.Name):
                for x in ast.walk(st.annotation):
                    if isinstance(x, ast.Name) and x.id in assigned:
                        return f"{cls.name}: field {x.id!r} hides the type name used in the annotation of {st.target.id!r}"
                if st.value is not None:
                    assigned.add(st.target.id)
    return None


def gen_schema(rng):
    n = rng.choice([1, 2, 3, 4])
    names = [f"D{i}" for i in range(n)]
    defs = {}
    def typ(depth=0):
        r = rng.random()
        if r < 0.25:
            return {"$ref": "#/definitions/" + rng.choice(names)}
        if r < 0.4:
            return {"type": "array", "items": typ(depth + 1)} if depth < 2 else {"type": "string"}
        if r < 0.5:
            return {"type": "object", "additionalProperties": typ(depth + 1)} if depth < 2 else {"type": "integer"}
        if r < 0.62:
            return {"anyOf": [typ(depth + 1), typ(depth + 1)]} if depth < 2 else {"type": "boolean"}
        if r < 0.7:
            return {"type": [rng.choice(["string", "integer", "array"]), "null"], **({"items": {"type": "string"}} if True else {})}
        if r < 0.73:
            return {"type": rng.choice(["string", "integer"]), "nullable": True, **({"default": None} if rng.random() < 0.5 else {})}
        if r < 0.76:
            return {"enum": ["a", "b"], "type": "string"}
        if r < 0.82:
            return {"type": "string", "format": rng.choice(["date-time", "uuid", "date", "uri", "ipv4", "binary", "time"])}
        if r < 0.88:
            return {"type": "integer", "minimum": 1, "maximum": 9}
        if r < 0.92:
            return {"type": "string", "pattern": "^a+$", "minLength": 1}
        if r < 0.95:
            return {"type": "number", "default": 1.5}
        if r < 0.97:
            return {"const": "k"}
        # bare array/object (no items): pydantic v1 has no validator for an unparametrised Sequence/Mapping (library limitation)
        return {"type": rng.choice(["string", "integer", "number", "boolean", "null"])}
    later_bases = rng.random() < 0.5   # most-derived first: bases are taken from definitions that come later
    for i, nm in enumerate(names):
        if rng.random() < 0.2:
            t = typ()          # root model / alias
            if "$ref" not in json.dumps(t):   # a root model on a reference cycle: known finding C02-root-model-cycle
                defs[nm] = t
                continue
        d = {"type": "object", "properties": {}}
        for j in range(rng.choice([1, 2, 3])):
            # names of typing constructs / types as member names: known finding C02-field-shadows-typing-name
            pname = rng.choice(["a", "b", "c", "value", "d1", "field", "str_", "copy", "class", "x-y"]) if rng.random() < 0.8 else f"p{j}"
            d["properties"][pname] = typ()
        if rng.random() < 0.5:
            d["required"] = [rng.choice(list(d["properties"]))]
        if later_bases:
            if i + 1 < len(names) and rng.random() < 0.45:
                d["allOf"] = [{"$ref": "#/definitions/" + names[i + 1]}]   # chain D0 <- D1 <- D2 ...; fixed up below
        else:
            objs = [x for x in names[:i] if isinstance(defs.get(x), dict) and defs[x].get("type") == "object"]
            if objs and rng.random() < 0.3:   # base classes: object definitions only
                d["allOf"] = [{"$ref": "#/definitions/" + rng.choice(objs)}]
        defs[nm] = d
    for nm, d in defs.items():   # a base must be an object definition
        if isinstance(d, dict) and "allOf" in d:
            b = d["allOf"][0]["$ref"].split("/")[-1]
            if not (isinstance(defs.get(b), dict) and defs[b].get("type") == "object"):
                del d["allOf"]
    return {"definitions": defs, "title": "Top", "type": "object", "properties": {"top": {"$ref": "#/definitions/" + names[0]}}}


OPTS = ["use_union_operator", "use_standard_collections", "use_generic_container_types", "use_annotated", "field_constraints", "strict_nullable",
        "use_default_kwarg", "reuse_model", "collapse_root_models", "use_schema_description", "enum_field_as_literal", "use_subclass_enum", "set_default_enum_member"]


def has_inf_default(sch):
    return False


def check_schema(sch, kind, opts):
    o = {k: True for k in opts}
    if o.get("enum_field_as_literal"):
        from datamodel_code_generator.parser import LiteralType
        o["enum_field_as_literal"] = LiteralType.All
    if o.get("use_annotated"):
        o["field_constraints"] = True
    if "strict_types" in o:
        o.pop("strict_types")
    g = e2e.generate(json.dumps(sch), kind=kind, **o)
    if g.timeout:
        return "generate() does not terminate"
    if not g.ok:
        return None
    err = e2e.parses(g.text)
    if err:
        return f"output does not parse: {err}"
    probs = scope_problems(g.text)
    if probs:
        return probs[0]
    if kind == "msgspec.Struct":
        return None
    mod, err = e2e.load_module(g.text, kind)
    try:
        if err:
            if any(t in err for t in ("NameError", "ImportError", "is not defined", "non-default argument")):
                return f"module does not execute: {err}"
            hidden = field_hides_type(g.text)
            if hidden:
                return f"module does not execute ({err[:80]}): {hidden}"
            return None  # other failures of the class model (MRO, unenforced v1 constraints, ...) are not about name binding
        for cname, cls in list(vars(mod).items()):
            if not isinstance(cls, type) or getattr(cls, "__module__", None) != mod.__name__:
                continue
            try:
                if kind == "pydantic_v2.BaseModel" and hasattr(cls, "model_rebuild"):
                    cls.model_rebuild(force=True)
                elif kind == "pydantic.BaseModel" and hasattr(cls, "update_forward_refs"):
                    cls.update_forward_refs()
                elif kind in ("dataclasses.dataclass", "typing.TypedDict"):
                    import typing
                    typing.get_type_hints(cls, vars(mod))
            except NameError as e:
                return f"forward references of {cname} do not resolve: {e}"
            except Exception as e:  # noqa: BLE001
                if "not defined" in str(e) or "NameError" in str(e) or "not fully defined" in str(e):
                    return f"forward references of {cname} do not resolve: {str(e)[:150]}"
        return None
    finally:
        e2e.unload(mod)


SHADOWS = [("date", {"type": "string", "format": "date"}), ("datetime", {"type": "string", "format": "date-time"}), ("time", {"type": "string", "format": "time"}),
           ("UUID", {"type": "string", "format": "uuid"}), ("Decimal", {"type": "number", "format": "decimal"}), ("timedelta", {"type": "string", "format": "duration"}),
           ("Any", {}), ("IPv4Address", {"type": "string", "format": "ipv4"}), ("AnyUrl", {"type": "string", "format": "uri"}), ("Path", {"type": "string", "format": "path"})]


def shadow_family():
    """a member named like the imported type it has, next to uses of the same type nested in list / map / union members, in the same
    class and in another class of the module; the shadowing member required or not"""
    for name, t in SHADOWS:
        nested = {"items": {"type": "array", "items": t}, "by_key": {"type": "object", "additionalProperties": t}, "either": {"anyOf": [t, {"type": "integer"}]},
                  "plain": t}
        for req in (True, False):
            for where in ("same", "other", "both"):
                for pick in (["items"], ["by_key"], ["either"], ["plain"], ["items", "by_key", "either", "plain"]):
                    props = {name: t}
                    other = {}
                    for k in pick:
                        if where in ("same", "both"):
                            props[k] = nested[k]
                        if where in ("other", "both"):
                            other[k] = nested[k]
                    defs = {"Holder": {"type": "object", "properties": props, "required": [name] if req else []}}
                    if other:
                        defs["Other"] = {"type": "object", "properties": other}
                    yield {"title": "M", "type": "object", "properties": {"h": {"$ref": "#/definitions/Holder"}}, "definitions": defs}


def self_named_family():
    """a member named exactly like the class its own annotation mentions (directly, inside an array / map, through a root
    model that --collapse-root-models writes inline): the annotation must still reach the class, not the member's default"""
    toy = {"type": "object", "properties": {"id": {"type": "integer"}}, "required": ["id"]}
    forms = {
        "direct": ({"$ref": "#/definitions/Toy"}, {"id": 1}),
        "array": ({"type": "array", "items": {"$ref": "#/definitions/Toy"}}, [{"id": 1}]),
        "map": ({"type": "object", "additionalProperties": {"$ref": "#/definitions/Toy"}}, {"k": {"id": 1}}),
        "map-of-arrays": ({"type": "object", "additionalProperties": {"type": "array", "items": {"$ref": "#/definitions/Toy"}}}, {"k": [{"id": 1}]}),
        "root-array": ({"$ref": "#/definitions/Toys"}, [{"id": 1}]),
        "root-nullable": ({"$ref": "#/definitions/MaybeToy"}, {"id": 1}),
        "root-map": ({"$ref": "#/definitions/ToyMap"}, {"k": {"id": 1}}),
        "union": ({"anyOf": [{"$ref": "#/definitions/Toy"}, {"type": "string"}]}, {"id": 1}),
    }
    for fname, (member, value) in forms.items():
        for required in (False, True):
            defs = {"Toy": toy, "Toys": {"type": "array", "items": {"$ref": "#/definitions/Toy"}},
                    "MaybeToy": {"oneOf": [{"$ref": "#/definitions/Toy"}, {"type": "null"}]},
                    "ToyMap": {"type": "object", "additionalProperties": {"$ref": "#/definitions/Toy"}},
                    "Holder": {"type": "object", "properties": {"n": {"type": "integer"}, "Toy": member}, "required": ["Toy"] if required else []}}
            sch = {"title": "Top", "type": "object", "properties": {"h": {"$ref": "#/definitions/Holder"}}, "definitions": defs}
            yield fname, sch, {"Toy": value}


def check_self_named(sch, kind, opts, inst):
    why = check_schema(sch, kind, opts)
    if why:
        return why
    if not kind.startswith("pydantic"):
        return None
    g = e2e.generate(json.dumps(sch), kind=kind, **{k: True for k in opts})
    if not g.ok:
        return None
    mod, err = e2e.load_module(g.text, kind)
    try:
        if err:
            return None
        H = getattr(mod, "Holder", None)
        if H is None:
            return None
        try:
            H.model_validate(inst) if kind.startswith("pydantic_v2") else H.parse_obj(inst)
        except Exception as e:  # noqa: BLE001
            line = next((l.strip() for l in g.text.splitlines() if l.strip().startswith(("Toy", "Toy_"))), "")
            return f"the member written `{line}` does not accept a valid value: the name in its annotation is not bound to the class ({str(e)[:100]})"
        return None
    finally:
        e2e.unload(mod)


SDLS = [
    "type Book { title: String }\nunion Printed = Book\ntype Query { p: Printed }\n",
    "union Printed = Book\ntype Book { title: String }\ntype Query { p: Printed }\n",
    "type Book { title: String }\ntype Film { name: String }\nunion Media = Book | Film\ntype Query { m: Media }\n",
    "union Media = Film | Book\ntype Film { name: String }\ntype Book { title: String }\ntype Query { m: [Media!] }\n",
    "interface Node { id: ID! }\ntype Zed implements Node { id: ID! z: Int }\ntype Abe implements Node { id: ID! a: Zed }\ntype Query { n: Node }\n",
    "scalar Date\nenum Kind { A B }\ninput Filter { k: Kind = A, since: Date }\ntype Query { f(x: Filter): Kind }\n",
    "type A { b: B }\ntype B { a: A, l: [A!]! }\ntype Query { a: A }\n",
]


def check_sdl(sdl, kind):
    g = e2e.generate(sdl, kind=kind, file_type="graphql")
    if g.timeout:
        return "generate() does not terminate"
    if not g.ok:
        return None
    err = e2e.parses(g.text)
    if err:
        return f"output does not parse: {err}"
    probs = scope_problems(g.text)
    if probs:
        return probs[0]
    if kind == "msgspec.Struct":
        return None
    mod, err = e2e.load_module(g.text, kind)
    try:
        if err and any(t in err for t in ("NameError", "ImportError", "is not defined")):
            return f"module does not execute: {err}"
        return None
    finally:
        e2e.unload(mod)


def falsify(ctx):
    rng = ctx.rng("fals")
    cases = []
    fam = list(shadow_family())
    for i, sch in enumerate(fam):
        for kind in (e2e.KINDS if ctx.thorough else [e2e.KINDS[i % 4]]):
            cases.append((sch, kind, []))
    for _ in range(ctx.n(260, 5000)):
        kind = rng.choice(e2e.KINDS[:4] * 3 + e2e.KINDS[4:])
        opts = [o for o in OPTS if rng.random() < 0.2]
        cases.append((gen_schema(rng), kind, opts))
    seen = 0
    # --reuse-model: a model that inherits from the second of two identical definitions (the stand-in must be bound before it)
    same = {"type": "object", "properties": {"street": {"type": "string"}}}
    for user in ({"allOf": [{"$ref": "#/definitions/Location"}], "type": "object", "properties": {"floor": {"type": "integer"}}},
                 {"type": "object", "properties": {"at": {"$ref": "#/definitions/Location"}, "also": {"type": "array", "items": {"$ref": "#/definitions/Address"}}}}):
        for order in (["Address", "Location", "Office"], ["Office", "Location", "Address"], ["Location", "Office", "Address"]):
            parts = {"Address": same, "Location": json.loads(json.dumps(same)), "Office": user}
            sch = {"title": "M", "type": "object", "properties": {"o": {"$ref": "#/definitions/Office"}, "a": {"$ref": "#/definitions/Address"}},
                   "definitions": {k: parts[k] for k in order}}
            for kind in ("pydantic_v2.BaseModel", "pydantic.BaseModel", "dataclasses.dataclass"):
                cases.append((sch, kind, ["reuse_model"]))
    # a map with a constrained key type (patternProperties) in every container spelling
    ppsch = {"title": "M", "type": "object", "definitions": {}, "properties": {"pp": {"type": "object", "patternProperties": {"^x-": {"type": "integer"}}}, "n": {"type": "integer"}}}
    for o in ([], ["use_standard_collections"], ["use_standard_collections", "use_union_operator"], ["use_generic_container_types"], ["use_standard_collections", "use_generic_container_types"]):
        cases.append((ppsch, "pydantic_v2.BaseModel", o))
    for sdl in SDLS:
        for kind in e2e.KINDS:
            ctx.count("eval_e2e")
            ctx.nontrivial(("sdl", sdl, kind))
            why = check_sdl(sdl, kind)
            if why:
                seen += 1
                if seen <= 6:
                    ctx.violation(f"sdl:{kind}:{sdl}", f"{kind} GraphQL {sdl!r}: {why}", {"sdl": sdl, "kind": kind, "why": why})
    for fname, sch, inst in self_named_family():
        for kind in ("pydantic_v2.BaseModel", "pydantic.BaseModel", "dataclasses.dataclass"):
            for opts in ([], ["collapse_root_models"], ["collapse_root_models", "reuse_model"]):
                ctx.count("eval_e2e")
                ctx.nontrivial(("self-named", fname, kind, tuple(opts), json.dumps(sch["definitions"]["Holder"].get("required"))))
                why = check_self_named(sch, kind, opts, inst)
                if why:
                    seen += 1
                    if seen <= 6:
                        ctx.violation(f"self-named:{fname}:{kind}:{opts}:{sch['definitions']['Holder'].get('required')}", f"{kind} {opts} member Toy ({fname}): {why}",
                                      {"schema": sch, "kind": kind, "opts": opts, "instance": inst, "why": why})
    for sch, kind, opts in cases:
        if in_known_class(sch, kind, opts):
            ctx.count("outside_guard")
            continue
        ctx.count("eval_e2e")
        ctx.bucket("kind", kind)
        if "$ref" in json.dumps(sch["definitions"]):
            ctx.nontrivial(json.dumps(sch, sort_keys=True) + kind + ",".join(opts))
        why = check_schema(sch, kind, opts)
        if why:
            seen += 1
            if seen <= 6:
                ctx.violation(f"e2e:{kind}:{sorted(opts)}:{json.dumps(sch, sort_keys=True)}", f"{kind} {opts}: {why} -- schema {json.dumps(sch)[:300]}",
                              {"schema": sch, "kind": kind, "opts": opts, "why": why})
    # every member state of a one-member object (the C05 domain) x model type x typing options: names of the hint must be bound
    from harness.props import c05
    members = list(c05.all_members())
    sweep = []
    for kind in e2e.KINDS:
        for m in members:
            for o in (["strict_nullable"], [], ["use_union_operator"], ["strict_nullable", "use_annotated"], ["use_standard_collections", "field_constraints"]):
                sweep.append((kind, m, o))
    if not ctx.thorough:
        rng.shuffle(sweep)
        sweep = sweep[:350]
    for kind, m, o in sweep:
        for base_type in ("integer", "array"):
            if kind == "msgspec.Struct" and "strict_nullable" in o and m["dflt"] in ("none", "val") and not m["required"]:
                continue   # known finding C02-optional-import-msgspec
            ms = c05.member_schema(m)
            if base_type == "array":
                ms["type"] = ["array", "null"] if m["type_null"] else "array"
                ms["items"] = {"type": "string"}
                ms.pop("minimum", None)
                if m["dflt"] == "val":
                    ms["default"] = ["x"]
                if m["required"] and m["type_null"]:
                    continue   # known finding C02-optional-import
            sch = {"title": "M", "type": "object", "properties": {"a": ms}, "required": ["a"] if m["required"] else [], "definitions": {}}
            ctx.count("eval_e2e")
            why = check_schema(sch, kind, o)
            if why:
                seen += 1
                if seen <= 8:
                    ctx.violation(f"member:{kind}:{sorted(o)}:{json.dumps(sch, sort_keys=True)}", f"{kind} {o}: {why} -- schema {json.dumps(sch)[:300]}",
                                  {"schema": sch, "kind": kind, "opts": o, "why": why})
    # containers x spellings: every typing / collections name of an annotation must be bound (lists, unique-item sets, maps, unions, literals)
    csch = {"title": "M", "type": "object", "definitions": {}, "properties": {
        "l": {"type": "array", "items": {"type": "string"}}, "s": {"type": "array", "uniqueItems": True, "items": {"type": "integer"}},
        "d": {"type": "object", "additionalProperties": {"type": "array", "uniqueItems": True, "items": {"type": "string"}}},
        "u": {"anyOf": [{"type": "array", "items": {"type": "integer"}}, {"type": "string", "enum": ["a", "b"]}]}}}
    import itertools
    for kind in e2e.KINDS:
        for uo, sc, gc, us in itertools.product((0, 1), repeat=4):
            o = [n for n, f in (("use_union_operator", uo), ("use_standard_collections", sc), ("use_generic_container_types", gc)) if f]
            ctx.count("eval_e2e")
            why = check_schema(csch, kind, o + (["use_unique_items_as_set"] if us else []))
            if why:
                seen += 1
                if seen <= 8:
                    ctx.violation(f"containers:{kind}:{o}:{us}", f"{kind} {o} unique_items_as_set={us}: {why}", {"schema": csch, "kind": kind, "opts": o + (["use_unique_items_as_set"] if us else []), "why": why})
    ctx.sample({"schema": cases[0][0], "kind": cases[0][1], "opts": cases[0][2]})


def ref_cycle(defs):
    graph = {k: set(x.split("/")[-1] for x in __import__("re").findall(r'"\$ref": "([^"]+)"', json.dumps(d))) for k, d in defs.items()}
    for start in graph:
        seen, todo = set(), list(graph[start])
        while todo:
            x = todo.pop()
            if x == start:
                return True
            if x in seen or x not in graph:
                continue
            seen.add(x)
            todo += graph[x]
    return False


def in_known_class(sch, kind, opts):
    """Guards for the known findings of C02 (DESIGN 2.8)."""
    text = json.dumps(sch)
    defs = sch["definitions"]
    # required member of type [array, null]: Optional rendered but not imported (C02-optional-import)
    for d in defs.values():
        req = set(d.get("required", []))
        for pn, p in d.get("properties", {}).items() if isinstance(d, dict) else []:
            if pn in req and isinstance(p.get("type"), list) and "null" in p["type"]:
                return True
    # functional / class TypedDict in a reference cycle evaluates later classes eagerly (C02-typeddict-cycle)
    if kind == "typing.TypedDict" and ref_cycle(defs):
        return True
    # dataclass: inherited defaulted field followed by a required one (C02-dataclass-default-order)
    if kind == "dataclasses.dataclass" and "allOf" in text:
        return True
    # reuse_model turns the second of two identical enums into a subclass of the first, which Enum forbids (C02-reuse-enum-subclass)
    if "reuse_model" in opts:
        bodies = [json.dumps(d, sort_keys=True) for d in defs.values() if not (isinstance(d, dict) and d.get("type") == "object")]
        if len(set(bodies)) != len(bodies):
            return True
    return False


def replay_finding(ctx, f):
    r = f["replay"]
    if "sdl" in r:
        return check_sdl(r["sdl"], r["kind"]) is not None
    if "instance" in r:
        return check_self_named(r["schema"], r["kind"], r["opts"], r["instance"]) is not None
    return check_schema(r["schema"], r["kind"], r["opts"]) is not None


def replay(ctx, payload):
    r = payload.get("replay", payload)
    if "sdl" in r:
        why = check_sdl(r["sdl"], r["kind"])
        print("replay:", why or "no violation")
        return 1 if why else 0
    if "schema" not in r:
        print(json.dumps(payload, indent=1)[:3000])
        return 0
    why = check_self_named(r["schema"], r["kind"], r["opts"], r["instance"]) if "instance" in r else check_schema(r["schema"], r["kind"], r["opts"])
    print("replay:", why or "no violation")
    return 1 if why else 0
