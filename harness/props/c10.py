"""C10 - text taken from the input ends up as data, never as code."""
from __future__ import annotations

import ast
import io
import json
import re
import tokenize

from harness import lib, e2e

PID = "C10"
PROPS_V = "props/C10.v"
TABLES = ("EscapeTables",)
RULE = ("correspondence: (1) model translate vs str.translate with the three real tables, (2) the PyLex literal "
        "lexers vs CPython's tokenizer + ast.literal_eval on literals built from an adversarial alphabet, (3) doc_enc vs "
        "escape_docstring, (4) slot rendering (constr regex kwarg, TypedDict key) vs the model; falsifier: adversarial "
        "strings in every textual slot of a JSON Schema through generate() for the 5 model kinds x text options, AST shape "
        "compared with a neutral-placeholder run and every literal evaluated. non-trivial = string contains a quote, "
        "backslash, control character or Jinja delimiter")
TRUSTED = [
    "PyLex.v is a model of CPython's literal tokenizer (conservative: unsupported escapes fail), validated against tokenize/literal_eval on every run",
    "repr() of a str is a literal that evaluates to an equal str (slots rendered through repr: defaults, Field(description=...), aliases)",
    "Jinja2 renders templates as written; the indent(4) filter only inserts spaces after newlines",
]
ASSUMPTIONS = ["regex slot proved only under raw_safe (see known findings for the complement)"]

ALPHA = ["'", '"', "\\", "\n", "\r", "\t", "\0", "\b", "\f", "a", "n", "x", "0", "{{", "}}", "{%", "#", " ", "é", " ", '"""', "'''", "\\'", "|", "None", ")", "(", ":", "\x85", "\x1b"]


def rand_text(rng, n=None, alpha=ALPHA):
    n = rng.choice([0, 1, 2, 3, 5, 8, 13]) if n is None else n
    return "".join(rng.choice(alpha) for _ in range(n))


def nontrivial(s):
    return any(c in s for c in "'\"\\\n\r\0{}")


def py_lex_first_string(src: str):
    """CPython: the first STRING token of src and the text after it, or None when tokenisation fails."""
    try:
        toks = tokenize.generate_tokens(io.StringIO(src).readline)
        t = next(toks)
        if t.type != tokenize.STRING or t.start != (1, 0):
            return None
        with_warnings = __import__("warnings")
        with with_warnings.catch_warnings():
            with_warnings.simplefilter("error")
            val = ast.literal_eval(t.string)
        return val, src[len(t.string):]
    except BaseException as e:  # noqa: BLE001
        if isinstance(e, KeyboardInterrupt):
            raise
        return None


def correspond(ctx):
    from harness import reflect
    from datamodel_code_generator.model.base import escape_docstring
    tables = reflect.escape_tables()
    real_tables = {"enum": dict(tables["enum_table"]), "regex": dict(tables["regex_table"]), "tdkey": dict(tables["tdkey_table"])}
    rng = ctx.rng("corr")
    drv = lib.Driver()
    reqs, exps, metas = [], [], []
    # (1) translate, every single special + random
    singles = [chr(c) for c in list(range(0, 0x100)) + [0x2028, 0x2029, 0x10000]]
    texts = singles + [rand_text(rng) for _ in range(ctx.n(1500, 20000))]
    for s in texts:
        for name in ("enum", "regex", "tdkey"):
            reqs.append(f"tr\t{name}\t{lib.enc_str(s)}")
            exps.append(lib.enc_str(s.translate(real_tables[name])))
            metas.append(("translate", name, s))
    # (3) doc_enc vs escape_docstring
    for s in texts:
        reqs.append(f"docenc\t{lib.enc_str(s)}")
        exps.append(lib.enc_str(escape_docstring(s) or ""))
        metas.append(("escape_docstring", "", s))
    outs = drv.batch(reqs)
    bad = 0
    for out, exp, meta in zip(outs, exps, metas):
        ctx.count("eval_translate")
        if nontrivial(meta[2]):
            ctx.nontrivial(meta)
        if out != exp:
            bad += 1
            if bad <= 4:
                ctx.tie_broken("correspondence", f"{meta[0]} {meta[1]} model != code", json.dumps({"s": meta[2], "code": exp, "model": out}), hint=meta[2])
    # (2) lexers vs CPython
    reqs, exps, metas = [], [], []
    for _ in range(ctx.n(4000, 40000)):
        body = rand_text(rng)
        rest = rng.choice(["", " x", ": int", "\n"])
        kind = rng.choice(["sq", "raw", "tq"])
        if kind == "sq":
            src = "'" + body + "'" + rest
            reqs.append("lexsq\t" + lib.enc_str(body + "'" + rest))
        elif kind == "raw":
            src = "r'" + body + "'" + rest
            reqs.append("lexraw\t" + lib.enc_str(body + "'" + rest))
        else:
            body = body.replace("\r", "")  # the tokenizer normalises line endings inside multi-line tokens
            src = '"""' + body + '"""' + rest
            reqs.append("lextq\t" + lib.enc_str(body + '"""' + rest))
        exps.append(py_lex_first_string(src))
        metas.append((kind, src))
    outs = drv.batch(reqs)
    bad = 0
    for out, exp, (kind, src) in zip(outs, exps, metas):
        ctx.count("eval_lexer")
        ctx.bucket("lexer", f"{kind}:{'model-none' if out == 'NONE' else 'model-some'}:{'py-none' if exp is None else 'py-some'}")
        if out == "NONE":
            continue  # conservative model: no claim
        parts = out.split("\t")
        m_rest0 = lib.dec_str(parts[-1])
        if "\0" in m_rest0:
            continue  # CPython refuses a source with a NUL anywhere; not a statement about this literal
        q = '"' if kind == "tq" else "'"
        if m_rest0.startswith(q) and (kind == "tq" or parts[1] == "-"):
            ctx.count("skipped_quote_adjacent")
            continue  # an empty literal directly followed by a quote is a triple-quote opener; templates never do that
        if kind == "tq":
            m_rest = lib.dec_str(parts[1])
            ok = exp is not None and exp[1] == m_rest
        else:
            m_val, m_rest = lib.dec_str(parts[1]), lib.dec_str(parts[2])
            ok = exp is not None and exp[0] == m_val and exp[1] == m_rest
        if not ok:
            bad += 1
            if bad <= 4:
                ctx.tie_broken("correspondence", f"PyLex {kind} accepts what CPython reads differently", json.dumps({"src": src, "cpython": exp, "model": out}))
    # (4) slot rendering: constr regex kwarg and TypedDict key
    from datamodel_code_generator.model.pydantic.types import DataTypeManager
    from datamodel_code_generator.types import Types
    from datamodel_code_generator.model.typed_dict import DataModelField as TDField
    from datamodel_code_generator.types import DataType
    dtm = DataTypeManager()
    reqs, exps, metas = [], [], []
    for _ in range(ctx.n(300, 3000)):
        s = rand_text(rng)
        if s:
            dt = dtm.get_data_str_type(Types.string, pattern=s)
            real = (dt.kwargs or {}).get("regex")
            reqs.append(f"tr\tregex\t{lib.enc_str(s)}")
            exps.append(real)
            metas.append(("regex-slot", s))
        f = TDField(name="x", original_name=s or None, data_type=DataType(type="int"))
        reqs.append(f"tr\ttdkey\t{lib.enc_str(s or 'x')}")
        exps.append("'" + f.key + "'")
        metas.append(("tdkey-slot", s))
    outs = drv.batch(reqs)
    for out, exp, meta in zip(outs, exps, metas):
        ctx.count("eval_slot")
        model = ("r'" if meta[0] == "regex-slot" else "'") + lib.dec_str(out) + "'"
        if exp != model:
            bad += 1
            if bad <= 6:
                ctx.tie_broken("correspondence", f"{meta[0]} rendering differs from the model", json.dumps({"s": meta[1], "code": exp, "model": model}), hint=meta[1])
    ctx.count("disagreements", bad)
    ctx.sample({"translate": texts[300:303], "lexer": [m[1] for m in metas[:2]]})


# ---------------------------------------------------------------------------------------------
# falsifier

TEXT_OPTS = ["use_schema_description", "use_field_description", "use_double_quotes", "field_include_all_keys", "use_default_kwarg", "use_annotated", "field_constraints"]


def shape(node):
    """AST structure without identifiers and without the content of constants."""
    if isinstance(node, ast.Constant):
        return ("Const", type(node.value).__name__)
    return (type(node).__name__, tuple(shape(c) for c in ast.iter_child_nodes(node)))


def str_constants(tree):
    return [n.value for n in ast.walk(tree) if isinstance(n, ast.Constant) and isinstance(n.value, str)]


def norm_ws(s):
    # Jinja's indent filter re-joins str.splitlines(): every kind of line separator becomes a newline plus indentation
    return re.sub(r"[\s\x1c-\x1f\x85\u2028\u2029]+", "", s)


def build_schema(texts, pattern=None):
    """A schema that puts texts[...] in every textual slot. Property names are slot texts too."""
    d, fd, t, ev1, ev2, const, dflt, ex, pname = (texts[k] for k in ("desc", "fdesc", "title", "enum1", "enum2", "const", "default", "example", "pname"))
    props = {
        "a": {"type": "string", "description": fd, "default": dflt, "examples": [ex], "title": t},
        "e": {"type": "string", "enum": [ev1, ev2, "plain"]},
        "c": {"type": "string", "const": const},
        pname: {"type": "integer"},
        # members whose type is not str although their default is written as text
        "bin": {"type": "string", "format": "binary", "default": dflt},
        "b64": {"type": "string", "format": "byte", "default": dflt},
    }
    if pattern is not None:
        props["p"] = {"type": "string", "pattern": pattern}
    return {"title": "Model", "type": "object", "description": d, "properties": props, "required": ["e"]}


NEUTRAL = {"desc": "neutral description", "fdesc": "neutral field", "title": "Neutral title", "enum1": "v-1", "enum2": "v-2",
           "const": "k-1", "default": "d-1", "example": "e-1", "pname": "x-1"}


def guard_text(s, opts, slot):
    """Stay out of the classes recorded as known findings (DESIGN 2.8)."""
    if opts.get("use_default_kwarg") and "Field(" in s:
        return s.replace("Field(", "Field_(")  # C10-default-kwarg
    return s


def check_case(kind, opts, texts, pattern=None):
    """Returns a violation description or None."""
    sch = build_schema(texts, pattern)
    g = e2e.generate(json.dumps(sch), kind=kind, **opts)
    if g.timeout:
        return "generate() does not terminate"
    if not g.ok:
        return None
    err = e2e.parses(g.text)
    if err:
        return f"output does not parse: {err}"
    neutral = {k: (v if texts[k] else "") for k, v in NEUTRAL.items()}
    if not texts["pname"].isidentifier() or __import__("keyword").iskeyword(texts["pname"]) or texts["pname"].startswith("_"):
        neutral["pname"] = "x-1"
    else:
        neutral["pname"] = "x1"
    g0 = e2e.generate(json.dumps(build_schema(neutral, None if pattern is None else "^a+$")), kind=kind, **opts)
    if not g0.ok or e2e.parses(g0.text):
        return None
    t1, t0 = ast.parse(g.text), ast.parse(g0.text)
    if shape(t1) != shape(t0):
        # legitimate differences: member-name collisions change nothing structurally; report
        return "module structure differs from the neutral-placeholder run"
    consts = str_constants(t1)
    cset = set(consts)
    def present(s):
        return s in cset
    # literal slots: exact value
    for slot in ("enum1", "enum2", "const", "default"):
        if slot == "default" and kind == "typing.TypedDict":
            continue
        if texts[slot] and not present(texts[slot]):
            if slot == "const" and kind in ("typing.TypedDict",):
                continue
            return f"{slot} value {texts[slot]!r} is not a string constant of the output"
    if kind in ("pydantic.BaseModel", "pydantic_v2.BaseModel", "msgspec.Struct") and texts["pname"] and not texts["pname"].isidentifier():
        if not opts.get("no_alias") and not present(texts["pname"]):
            return f"wire name {texts['pname']!r} is not kept as a string constant (alias)"
    if kind == "typing.TypedDict" and not texts["pname"].isidentifier() and not present(texts["pname"]):
        return f"TypedDict key {texts['pname']!r} is not a string constant of the output"
    if opts.get("use_schema_description") and texts["desc"].strip():
        want = norm_ws(texts["desc"])
        if not any(want == norm_ws(c) or want in norm_ws(c) for c in consts):
            return f"description {texts['desc']!r} is not the content of a docstring"
    if opts.get("field_include_all_keys") and kind.startswith("pydantic") and texts["example"] and not present(texts["example"]):
        return f"example {texts['example']!r} is not a string constant of the output"
    if pattern is not None and kind.startswith("pydantic") and not opts.get("field_constraints"):
        pats = []
        for n in ast.walk(t1):
            if isinstance(n, ast.keyword) and n.arg in ("regex", "pattern") and isinstance(n.value, ast.Constant):
                pats.append(n.value.value)
        if not pats:
            return "pattern not found as a keyword constant"
        try:
            a, b = re.compile(pattern), re.compile(pats[0])
        except re.error:
            return None
        probes = {pattern, pats[0], "", "a", "aa", "'", "\\", "\n", "a'b", "1", "\\d", "d"} | set(pattern)
        for pr in probes:
            if bool(a.fullmatch(pr)) != bool(b.fullmatch(pr)):
                return f"pattern literal {pats[0]!r} is not equivalent to {pattern!r} (differs on {pr!r})"
    return None


def disc_schema(pn, k1, k2):
    """a discriminated union: the discriminator property name and the two tag values are input text"""
    ref = lambda n: {"$ref": "#/definitions/" + n}
    member = lambda k, extra: {"type": "object", "properties": {pn: {"const": k}, extra: {"type": "integer"}}, "required": [pn]}
    return {"title": "Owner", "type": "object",
            "properties": {"pet": {"oneOf": [ref("Cat"), ref("Dog")], "discriminator": {"propertyName": pn, "mapping": {k1: "#/definitions/Cat", k2: "#/definitions/Dog"}}}},
            "definitions": {"Cat": member(k1, "lives"), "Dog": member(k2, "bark")}}


def check_disc(kind, opts, pn, k1, k2):
    g = e2e.generate(json.dumps(disc_schema(pn, k1, k2)), kind=kind, **opts)
    if g.timeout:
        return "generate() does not terminate"
    if not g.ok:
        return None
    err = e2e.parses(g.text)
    if err:
        return f"output does not parse: {err}"
    plain = pn.isidentifier() and not __import__("keyword").iskeyword(pn) and not pn.startswith("_")
    g0 = e2e.generate(json.dumps(disc_schema("petkind" if plain else "pet-kind", "k-1", "k-2")), kind=kind, **opts)
    if not g0.ok or e2e.parses(g0.text):
        return None
    t1, t0 = ast.parse(g.text), ast.parse(g0.text)
    if shape(t1) != shape(t0):
        return "module structure differs from the neutral-placeholder run"
    cset = set(str_constants(t1))
    for what, v in (("tag value", k1), ("tag value", k2)):
        if kind == "typing.TypedDict":
            continue  # a const member is written as plain str there (no value slot)
        if v not in cset:
            return f"{what} {v!r} is not a string constant of the output"
    if not plain and kind in ("pydantic.BaseModel", "pydantic_v2.BaseModel", "msgspec.Struct", "typing.TypedDict") and pn not in cset:
        return f"discriminator property name {pn!r} is not kept as a string constant"
    return None


def raw_safe_py(p, keys):
    esc = False
    for c in p:
        if esc:
            if ord(c) in keys or c in "\0\n\r'\\":
                return False
            esc = False
        elif c == "\\":
            esc = True
        elif c == "\0":
            return False
    return not esc


def rand_pattern(rng, keys):
    atoms = ["a", "b+", "\\d", "\\w*", "[a-z]", "'", "(x|y)", "\\.", "^", "$", "\\-", "\n", "\t", '"', "\\\\", "{2}", " "]
    for _ in range(20):
        p = "".join(rng.choice(atoms) for _ in range(rng.choice([1, 2, 4, 6])))
        try:
            re.compile(p)
        except re.error:
            continue
        if raw_safe_py(p, keys) and "\b" not in p:
            return p
    return "^a$"


def falsify(ctx):
    from harness import reflect
    rng = ctx.rng("fals")
    keys = {k for k, _ in reflect.escape_tables()["regex_table"]}
    cases = []
    for h in ctx.hints[:20]:
        if isinstance(h, str):
            cases.append({k: h for k in NEUTRAL})
    # every special character alone in every slot, then random mixtures
    for ch in ["'", '"', "\\", "\n", "\r", "\0", '"""', "\\'", "{{", "\\\n", "a\\", "'''", "\\x", "\t", "\b", "\x85", " ", "\f"]:
        cases.append({k: f"p{ch}q" for k in NEUTRAL})
        cases.append({k: ch for k in NEUTRAL})
    for _ in range(ctx.n(300, 4000)):
        cases.append({k: rand_text(rng) if rng.random() < 0.8 else NEUTRAL[k] for k in NEUTRAL})
    seen = 0
    for i, texts in enumerate(cases):
        kind = e2e.KINDS[i % 5] if i < 40 else rng.choice(e2e.KINDS)
        opts = {o: True for o in TEXT_OPTS if rng.random() < 0.45}
        if kind == "msgspec.Struct":
            opts.pop("field_constraints", None)
        if rng.random() < 0.25:
            from datamodel_code_generator.parser import LiteralType
            opts["enum_field_as_literal"] = LiteralType.All
        # property names: NUL is a finding of C01/C07 territory only for non-TypedDict? keep; avoid empty dup keys
        texts = dict(texts)
        if not texts["pname"] or texts["pname"] in ("a", "e", "c", "p"):
            texts["pname"] = "x-1"
        if texts["enum1"] == texts["enum2"] or "plain" in (texts["enum1"], texts["enum2"]):
            texts["enum2"] = texts["enum1"] + "2"
        for k in texts:
            texts[k] = guard_text(texts[k], opts, k)
        if opts.get("enum_field_as_literal") and any(" | " in texts[k] or "[" in texts[k] or "None" in texts[k] for k in ("enum1", "enum2", "const")):
            opts.pop("enum_field_as_literal")  # C13-literal-text finding
        pattern = rand_pattern(rng, keys) if rng.random() < 0.5 else None
        ctx.count("eval_e2e")
        ctx.bucket("kind", kind)
        if any(nontrivial(v) for v in texts.values()):
            ctx.nontrivial(json.dumps(texts, sort_keys=True))
        why = check_case(kind, opts, texts, pattern)
        if why:
            seen += 1
            if seen <= 8:
                ctx.violation(f"e2e:{kind}:{json.dumps(texts, sort_keys=True)}:{sorted(opts)}:{pattern!r}",
                              f"{kind} {sorted(opts)} texts={texts!r} pattern={pattern!r}: {why}",
                              {"kind": kind, "opts": {k: (v if isinstance(v, bool) else str(v)) for k, v in opts.items()}, "texts": texts, "pattern": pattern, "why": why})
    # extra schema keys forwarded as Field(...) keyword arguments: the key is input text too (reserved words, hostile values)
    from harness.props import c01
    for doc, kind, o in c01.extras_sweep():
        if not ctx.thorough and kind not in ("pydantic.BaseModel", "pydantic_v2.BaseModel"):
            continue
        ctx.count("eval_e2e")
        ctx.bucket("family", "extra-keys")
        ctx.nontrivial("extras:" + json.dumps(doc, sort_keys=True)[:200] + kind + json.dumps({k: sorted(v) if isinstance(v, (list, set)) else v for k, v in o.items()}, sort_keys=True))
        oo = {k: (set(v) if isinstance(v, list) else v) for k, v in o.items()}
        g = e2e.generate(json.dumps(doc), kind=kind, **oo)
        if g.ok and e2e.parses(g.text):
            seen += 1
            if seen <= 8:
                ctx.violation(f"extras:{kind}:{sorted(o)}:{json.dumps(doc, sort_keys=True)[:160]}", f"{kind} {sorted(o)}: a forwarded schema key makes the output unparsable ({e2e.parses(g.text)})",
                              {"extras": [doc, kind, {k: sorted(v) if isinstance(v, (list, set)) else v for k, v in o.items()}]})
    # discriminated unions: property name and tag values as text slots (class keywords of msgspec, Literal values, aliases)
    specials = ["'", '"', "\\", "\n", "pet's kind", "kind\\", "k', tag='x', frozen=True, rename='", 'say "hi"', "a\nb", "{{ 7*7 }}", "\0", '"""', "\\'", "x\ty", "\x85", "#"]
    dcases = [(sp, "k-1", "k-2") for sp in specials] + [("pet-kind", sp, sp + "2") for sp in specials]
    for _ in range(ctx.n(40, 600)):
        a, b, c = rand_text(rng), rand_text(rng), rand_text(rng)
        dcases.append((a or "x-1", b, c if c != b else c + "2"))
    for i, (pn, k1, k2) in enumerate(dcases):
        for kind in (e2e.KINDS if ctx.thorough or i < 2 * len(specials) else [rng.choice(e2e.KINDS)]):
            opts = {"use_one_literal_as_default": True} if (i + len(kind)) % 2 else {}
            ctx.count("eval_e2e")
            ctx.bucket("kind", kind)
            ctx.bucket("family", "discriminator")
            ctx.nontrivial("disc:" + json.dumps([pn, k1, k2]))
            why = check_disc(kind, opts, pn, k1, k2)
            if why:
                seen += 1
                if seen <= 8:
                    ctx.violation(f"disc:{kind}:{json.dumps([pn, k1, k2])}:{sorted(opts)}", f"{kind} {sorted(opts)} discriminator {pn!r} tags {k1!r} {k2!r}: {why}",
                                  {"kind": kind, "opts": opts, "disc": [pn, k1, k2], "why": why})
    ctx.sample({"texts": cases[-1]})


def _opts(o):
    o = dict(o)
    if "enum_field_as_literal" in o:
        from datamodel_code_generator.parser import LiteralType
        o["enum_field_as_literal"] = LiteralType.All
    return o


def replay_finding(ctx, f):
    r = f["replay"]
    if "extras" in r:
        doc, kind, o = r["extras"]
        g = e2e.generate(json.dumps(doc), kind=kind, **{k: (set(v) if isinstance(v, list) else v) for k, v in o.items()})
        return bool(g.ok and e2e.parses(g.text))
    if "disc" in r:
        return check_disc(r["kind"], r["opts"], *r["disc"]) is not None
    return check_case(r["kind"], _opts(r["opts"]), r["texts"], r.get("pattern")) is not None


def replay(ctx, payload):
    r = payload.get("replay", payload)
    if "disc" in r:
        why = check_disc(r["kind"], r["opts"], *r["disc"])
        print("replay:", why or "no violation")
        return 1 if why else 0
    if "texts" not in r:
        print(json.dumps(payload, indent=1)[:3000])
        return 0
    why = check_case(r["kind"], _opts(r["opts"]), r["texts"], r.get("pattern"))
    print("replay:", why or "no violation")
    return 1 if why else 0
