"""C14 - representation-only options do not change what the models accept."""
from __future__ import annotations

import json

from harness import lib, e2e, schemasem as ss, schemamodel as sm
from harness.props import c03, c04

PID = "C14"
PROPS_V = "props/C14.v"
TABLES = ("UnicodeTables", "BaseModelAttrs")
RULE = ("correspondence: (a) the extracted keep_order vs the real Parser.__sort_models on random class lists with base classes and imported "
        "names (incl. non-terminating ones: model out of fuel <-> call does not return); (b) the class tree the extracted gen prints vs the "
        "real output read back from its AST under every subset of the spelling/ordering options and both constraint styles; falsifier: "
        "documents from the wider grammar x {v1, v2}: baseline vs a random subset of the listed options (plus reuse-model, "
        "collapse-root-models, formatters) - the JSON Schema the models report (keyword by keyword) and the accept/reject vector over "
        "valid and one-step-invalid instances must be the same. non-trivial = distinct (document, kind, option subset)")
TRUSTED = ["the AST reader harness/schemamodel.canon_module", "pydantic reports a JSON Schema that reflects what it enforces (sampled by the accept/reject vectors)",
           "black and isort (formatters variant) are third-party"]
ASSUMPTIONS = ["constraint-style theorem on the place_free sub-language; reuse-model and collapse-root-models are decided by the falsifier only"]

V2, V1 = "pydantic_v2.BaseModel", "pydantic.BaseModel"
SPELLING = [{"use_standard_collections": True}, {"use_generic_container_types": True}, {"use_union_operator": True}, {"use_double_quotes": True},
            {"keep_model_order": True}, {"target_python_version": "3.9"}, {"target_python_version": "3.12"}]


def real_sort(models, imported, timeout=2.0):
    """run the real Parser.__sort_models on stand-in models: [(rank, [base ranks])] -> ranks in order | None (does not return)"""
    from datamodel_code_generator.parser.base import Parser

    class Ref:
        def __init__(self, n):
            self.reference, self.type_hint = True, f"C{n:03d}"

    class M:
        def __init__(self, n, bases):
            self.n, self.class_name, self.base_classes = n, f"C{n:03d}", [Ref(b) for b in bases]

    class Self:
        keep_model_order = True
    ms = [M(n, b) for n, b in models]
    imports = {None: {f"C{n:03d}" for n in imported}}
    try:
        lib.call_with_timeout(Parser._Parser__sort_models, timeout, Self(), ms, imports)
    except lib.Timeout:
        return None
    return [m.n for m in ms]


def correspond(ctx):
    drv = lib.Driver()
    rng = ctx.rng("corr")
    bad = 0
    # (a) keep_model_order
    cases = []
    for _ in range(ctx.n(120, 1500)):
        k = rng.choice([1, 2, 3, 4, 5, 6])
        names = rng.sample(range(1, 12), k)
        imported = rng.sample(range(12, 16), rng.choice([0, 1]))
        ms = []
        for n in names:
            pool = [x for x in names if x != n] + imported + ([n] if rng.random() < 0.1 else []) + ([17] if rng.random() < 0.04 else [])
            bases = rng.sample(pool, min(len(pool), rng.choice([0, 0, 1, 1, 2])))
            ms.append((n, bases))
        cases.append((ms, imported))
    reqs = ["korder\t" + (",".join(map(str, imp)) or "-") + "\t" + ";".join(f"{n}:{','.join(map(str, b))}" for n, b in ms) for ms, imp in cases]
    outs = drv.batch(reqs)
    nonterm = 0
    for (ms, imp), out in zip(cases, outs):
        ctx.count("eval_keep_order")
        ctx.nontrivial(("ko", json.dumps(ms), json.dumps(imp)))
        real = real_sort(ms, imp, timeout=1.0 if out == "FUEL" else 5.0)
        model = None if out == "FUEL" else [int(x) for x in out.split(",")] if out else []
        nonterm += real is None
        if real != model:
            bad += 1
            if bad <= 5:
                ctx.tie_broken("correspondence", f"keep_model_order: code {real}, model {model}", json.dumps({"models": ms, "imported": imp}))
    ctx.count("keep_order_nonterminating", nonterm)
    # (b) class tree under spelling options
    terms = [sm.gen_obj(rng) for _ in range(ctx.n(40, 400))]
    reqs = []
    for t in terms:
        reqs += ["schema\t0\t" + sm.tokens(t), "schema\t1\t" + sm.tokens(t)]
    outs = drv.batch(reqs)
    for i, t in enumerate(terms):
        doc = sm.to_jsonschema(t)
        doc["title"] = "Root"
        text = json.dumps(doc)
        for kind in (V2, V1):
            opts = {}
            for o in rng.sample(SPELLING, rng.choice([1, 2, 3])):
                opts.update(o)
            fc = rng.random() < 0.4
            if fc:
                opts["field_constraints"] = True
                if rng.random() < 0.5:
                    opts["use_annotated"] = True
            if opts.get("use_union_operator") and kind == V1 and opts.get("target_python_version") == "3.9":
                opts.pop("target_python_version")
            ctx.count("eval_structure")
            ctx.nontrivial(("st", text, kind, json.dumps(opts, sort_keys=True)))
            g = e2e.generate(text, kind=kind, **_conv(opts))
            model = outs[2 * i + (1 if fc else 0)]
            if not g.ok:
                bad += 1
                if bad <= 5:
                    ctx.tie_broken("correspondence", f"real generator fails ({g.error}) under {opts}", text[:1200], hint=(doc, kind, opts))
                continue
            try:
                real = sm.canon_module(g.text)
            except sm.Unmodelled as e:
                real = f"unmodelled: {e}"
            if real != model:
                bad += 1
                if bad <= 5:
                    ctx.tie_broken("correspondence", f"generated class tree differs from the model ({kind}, {opts})",
                                   f"schema: {text[:1200]}\nmodel: {model[:1000]}\nreal:  {real[:1000]}", hint=(doc, kind, opts))
    ctx.count("disagreements", bad)


def _conv(opts):
    o = dict(opts)
    if "target_python_version" in o:
        from datamodel_code_generator.format import PythonVersion
        o["target_python_version"] = PythonVersion(o["target_python_version"])
    return o


# ---------------------------------------------------------------------------------------------------


def corpus(rng, doc):
    out = []
    for _ in range(3):
        try:
            inst = ss.valid_instance(rng, doc, doc)
        except ss.NoInstance:
            break
        out.append(inst)
        for _, bad in ss.mutations(rng, doc, doc, inst):
            out.append(bad)
    return out[:40]


def compare(doc, kind, opts, rng, formatters=()):
    base, err = ss.build(doc, kind)
    if base is None:
        return None
    try:
        var, err = ss.build(doc, kind, formatters=formatters, **_conv(opts))
        if var is None:
            if err and "does not" in err:
                return err
            g = e2e.generate(json.dumps(doc), kind=kind, formatters=formatters, **_conv(opts))
            if not g.ok and "has to be used with" not in str(g.error):
                return f"generation fails only with the options: {g.error}"
            return None
        try:
            try:
                a, b = ss.norm_reported(base.json_schema()), ss.norm_reported(var.json_schema())
            except Exception:  # noqa: BLE001 - schema generation of pydantic itself fails for some annotations (v1 + generic containers, unresolved names)
                a = b = {}
            for ptr in sorted(set(a) | set(b)):
                if a.get(ptr) != b.get(ptr):
                    return f"reported JSON Schema differs at {ptr or '/'}: baseline {a.get(ptr)}, with options {b.get(ptr)}"
            for inst in corpus(rng, doc):
                (x, wx), (y, wy) = base.accepts(inst), var.accepts(inst)
                if any(w and w.split(":")[0] in ("PydanticUserError", "ConfigError", "NameError", "PydanticUndefinedAnnotation") for w in (wx, wy)):
                    return None  # a name the module does not bind: C02's subject
                if x != y:
                    return f"instance {json.dumps(inst)[:200]}: baseline {'accepts' if x else 'rejects'}, with options {'accepts' if y else 'rejects'}"
            return None
        finally:
            var.close()
    finally:
        base.close()


def map_scalar_constraints(doc):
    CON = ("minimum", "maximum", "exclusiveMinimum", "exclusiveMaximum", "multipleOf", "minLength", "maxLength", "pattern", "minItems", "maxItems")

    def walk(s):
        if isinstance(s, dict):
            ap = s.get("additionalProperties")
            if isinstance(ap, dict) and any(k in ap for k in CON):
                return True
            return any(walk(v) for v in s.values())
        if isinstance(s, list):
            return any(walk(v) for v in s)
        return False
    return walk(doc)


admits_null_alt = ss.admits_null_alt


def required_union_with_null(doc):
    flat = ss.flatten(doc)

    def walk(s):
        if isinstance(s, dict):
            req = set(s.get("required", []) if isinstance(s.get("required"), list) else [])
            for p, ps in (s.get("properties") or {}).items():
                if p in req and admits_null_alt(ps):
                    return True
            return any(walk(v) for v in s.values())
        if isinstance(s, list):
            return any(walk(v) for v in s)
        return False
    return walk(flat)


def in_known_class(doc, kind, opts):
    if opts.get("use_union_operator") and required_union_with_null(doc):
        return True  # C14-union-operator-drops-required
    if (opts.get("field_constraints") or opts.get("use_annotated")) and c04.required_nullable(ss.flatten(doc)):
        return True  # C14-required-nullable-by-style (= C05-required-nullable-*): how a required [T, null] member is written depends on the constraint style
    if opts.get("field_constraints"):
        if map_scalar_constraints(doc):
            return True  # C14-fc-map-value-constraints (= C04-dict-value-constraints)
        if c04.nested_constraints(doc, {}):
            return True  # C14-fc-keeps-nested-counts: the field-constraints style keeps item counts the constrained-type style drops
    if kind == V1 and opts.get("use_annotated") and c04.renamed_members(doc):
        return True  # C04-v1-annotated-alias-lost
    if kind == V1 and opts.get("keep_model_order"):
        return True  # C14-v1-keep-order-forward-ref (= C11-keep-model-order): a class sorted behind its user, no update_forward_refs() call
    if kind == V1 and opts.get("collapse_root_models") and c03.has(doc, c03.v1_counts_over_nested_list):
        return True  # C14-v1-collapse-nested-list (= C03-v1-counts-reach-nested-list once the inner list is written inline)
    return False


def shape_sweep():
    """one member per document: every position x every inner shape the option passes treat specially"""
    defs = {"Tag": {"type": "string", "minLength": 3}, "Lim": {"type": "integer", "minimum": 1, "maximum": 5},
            "Zero": {"type": "integer", "minimum": 0}, "Ratio": {"type": "number", "exclusiveMinimum": 0, "maximum": 1},
            "Debt": {"type": "integer", "maximum": 0}, "Blank": {"type": "string", "minLength": 0, "maxLength": 0},
            "Obj": {"type": "object", "properties": {"v": {"type": "integer"}}, "required": ["v"]},
            "Frac": {"type": ["number", "null"], "minimum": 0.25, "exclusiveMaximum": 0.5}}
    inner = {
        "ref-scalar": {"$ref": "#/definitions/Tag"}, "ref-int": {"$ref": "#/definitions/Lim"}, "ref-object": {"$ref": "#/definitions/Obj"},
        "ref-zero": {"$ref": "#/definitions/Zero"}, "ref-ratio": {"$ref": "#/definitions/Ratio"}, "ref-debt": {"$ref": "#/definitions/Debt"},
        "ref-blank": {"$ref": "#/definitions/Blank"},
        "inline": {"type": "string", "maxLength": 2},
        "same-type-nullable": {"anyOf": [{"type": "string"}, {"type": ["string", "null"]}]},
        "int-nullable-int": {"anyOf": [{"type": "integer"}, {"type": ["integer", "null"], "format": "int64"}]},
        "nullable-enum": {"type": ["string", "null"], "enum": ["a", "b", None]},
        # non-integral bounds on numbers written as type lists, strings with a format that stays a plain str
        "fraction": {"type": "number", "minimum": 0.5, "maximum": 0.75},
        # integers with non-integral bounds: both styles truncate them (C04-int-truncation) - they must at least do the same thing
        "int-fraction": {"type": "integer", "minimum": 0.5, "maximum": 9.5},
        "int-fraction-negative": {"type": "integer", "exclusiveMinimum": -7.5, "maximum": -1.5},
        "int-fraction-exclusive": {"type": "integer", "exclusiveMaximum": 6.5, "minimum": 2.0},
        "nullable-fraction": {"type": ["number", "null"], "minimum": 0.5, "maximum": 0.75},
        # (a member of type [number, integer] is left out: with --field-constraints pydantic reports Field bounds on a Union in a
        #  different schema shape although the same values are accepted - comparing reported schemas there would be a false alarm)
        "ref-nullable-fraction": {"$ref": "#/definitions/Frac"},
        "formatted-string": {"type": "string", "format": "uri-reference", "minLength": 3, "pattern": "^[a-z/]+$"},
        "custom-format": {"type": "string", "format": "slug", "minLength": 2, "maxLength": 9},
    }
    for iname, sch in inner.items():
        for pos, wrap in (("direct", lambda x: x), ("items", lambda x: {"type": "array", "items": x}),
                          ("values", lambda x: {"type": "object", "additionalProperties": x}),
                          ("alt", lambda x: {"anyOf": [x, {"type": "boolean"}]})):
            for req in (True, False):
                if req and iname == "ref-nullable-fraction":
                    continue  # a required member whose referenced definition admits null: known findings C14-required-nullable-by-style / -union-operator-drops-required
                d = {"title": "Root", "type": "object", "properties": {"m": wrap(sch)}, "definitions": defs}
                if req:
                    d["required"] = ["m"]
                yield f"{iname}/{pos}/{'req' if req else 'opt'}", d


def twin_sweep():
    """two definitions that are the same except for one aspect, both used by the root: what --reuse-model may and may not merge"""
    base = {"type": "object", "properties": {"x": {"type": "integer"}, "y": {"type": "string"}}, "required": ["x"]}
    variants = {
        "closed": dict(base, additionalProperties=False), "open": dict(base, additionalProperties=True),
        "bound": {"type": "object", "properties": {"x": {"type": "integer", "minimum": 0}, "y": {"type": "string"}}, "required": ["x"]},
        "req": dict(base, required=["x", "y"]), "dflt": {"type": "object", "properties": {"x": {"type": "integer"}, "y": {"type": "string", "default": "d"}}, "required": ["x"]},
        "enum": {"type": "object", "properties": {"x": {"type": "integer"}, "y": {"type": "string", "enum": ["a", "b"]}}, "required": ["x"]},
        "nullable": {"type": "object", "properties": {"x": {"type": ["integer", "null"]}, "y": {"type": "string"}}, "required": ["x"]},
        "same": dict(base),
    }
    names = list(variants)
    for i, a in enumerate(names):
        for b in names[i + 1:] + ["plain"]:
            vb = base if b == "plain" else variants[b]
            for first, second in (((a, variants[a]), (b, vb)), ((b, vb), (a, variants[a]))):
                doc = {"title": "Root", "type": "object", "definitions": {"P" + first[0].title(): first[1], "Q" + second[0].title(): second[1]},
                       "properties": {"p": {"$ref": "#/definitions/P" + first[0].title()}, "q": {"$ref": "#/definitions/Q" + second[0].title()}}}
                yield f"{first[0]}/{second[0]}", doc


INTERACTING = [{"field_constraints": True, "collapse_root_models": True}, {"use_union_operator": True, "use_standard_collections": True},
               {"reuse_model": True, "collapse_root_models": True}, {"use_union_operator": True}, {"collapse_root_models": True},
               {"use_annotated": True, "field_constraints": True, "collapse_root_models": True}]

OPTION_POOL = SPELLING + [{"field_constraints": True}, {"field_constraints": True, "use_annotated": True}, {"reuse_model": True}, {"collapse_root_models": True}]


def falsify(ctx):
    rng = ctx.rng("fals")
    seen = 0

    def run(doc, kind, opts, formatters=()):
        nonlocal seen
        if in_known_class(doc, kind, opts):
            ctx.count("outside_guard")
            return
        ctx.count("eval_e2e")
        ctx.bucket("options", "+".join(sorted(opts)) or "formatters")
        ctx.nontrivial(json.dumps(doc, sort_keys=True) + kind + json.dumps(opts, sort_keys=True) + str(formatters))
        why = compare(doc, kind, opts, rng, formatters)
        if why:
            seen += 1
            if seen <= 6:
                ctx.violation(f"doc:{kind}:{json.dumps(opts, sort_keys=True)}:{json.dumps(doc, sort_keys=True)}", f"{kind} {opts} {list(formatters)}: {why}",
                              {"doc": doc, "kind": kind, "opts": opts, "formatters": list(formatters)})

    for h in ctx.hints:
        run(*h)
    twins = list(twin_sweep())
    if not ctx.thorough:
        key = [t for t in twins if any(k in t[0].split("/") for k in ("closed", "open", "same"))]
        rest = [t for t in twins if t not in key]
        twins = key + rng.sample(rest, 10)
    for name, doc in twins:
        for opts in (({"reuse_model": True}, {"reuse_model": True, "collapse_root_models": True}) if ctx.thorough else ({"reuse_model": True},)):
            run(doc, V2, dict(opts))
    shapes = list(shape_sweep())
    for name, doc in shapes:
        for opts in INTERACTING if ctx.thorough else rng.sample(INTERACTING, 3):
            run(doc, rng.choice([V2, V2, V1]) if not ctx.thorough else V2, dict(opts))
            if ctx.thorough:
                run(doc, V1, dict(opts))
    for i in range(ctx.n(70, 1200)):
        doc = ss.gen_document(rng)
        kind = rng.choice([V2, V2, V1])
        opts = {}
        for o in rng.sample(OPTION_POOL, rng.choice([1, 1, 2, 3])):
            opts.update(o)
        if opts.get("use_union_operator") and opts.get("target_python_version") == "3.9":
            opts.pop("target_python_version")
        fm = ("black", "isort") if rng.random() < 0.15 else ()
        run(doc, kind, opts, fm)
    ctx.sample({"options": OPTION_POOL})


def _replay(r):
    return compare(r["doc"], r["kind"], r["opts"], lib.rng_for(0, "replay"), tuple(r.get("formatters", ())))


def replay_finding(ctx, f):
    return _replay(f["replay"]) is not None


def replay(ctx, payload):
    r = payload.get("replay", payload)
    if "doc" not in r:
        print(json.dumps(payload, indent=1)[:3000])
        return 0
    why = _replay(r)
    print("replay:", why or "no violation")
    return 1 if why else 0
