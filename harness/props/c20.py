"""C20 - a failed run leaves existing output untouched and the process where it was."""
from __future__ import annotations

import contextlib
import hashlib
import io
import json
import os
import shutil
import tempfile
from pathlib import Path

from harness import lib

PID = "C20"
PROPS_V = "props/C20.v"
TABLES = ("AtomicTables",)
RULE = ("correspondence (fault injection): generate() is run with an exception injected at each phase boundary "
        "(input loading, parser construction, parse(), the modular checks, header file reading, formatting) x three output "
        "states (missing / existing file / populated directory) x {cwd == $PWD, stale $PWD}; the recorded effect "
        "(file-system snapshot, cwd) is compared with the model's prediction (untouched, restored); falsifier: failing inputs "
        "of every kind x output states, and successful runs must write only under the output path. non-trivial = run fails")
TRUSTED = ["the classification of AST statements into writing / non-writing (harness/reflect.py atomic_tables) and the frame "
           "condition for non-writing statements, which the fault-injection runs observe but do not prove",
           "failures of the write primitives themselves (I/O errors, encoding errors while printing) are outside the theorem"]
ASSUMPTIONS = ["parser.parse() and the formatters do not write files (observed by snapshots)"]

GOOD = json.dumps({"title": "M", "type": "object", "properties": {"a": {"type": "string"}}})
MODULAR = json.dumps({"definitions": {"a.X": {"type": "object", "properties": {"v": {"type": "integer"}}},
                                      "b.Y": {"type": "object", "properties": {"x": {"$ref": "#/definitions/a.X"}}}}})


def snapshot(root: Path):
    out = {}
    for p in sorted(root.rglob("*")):
        rel = str(p.relative_to(root))
        if p.is_dir():
            out[rel] = "<dir>"
        else:
            out[rel] = hashlib.sha256(p.read_bytes()).hexdigest()[:16]
    return out


@contextlib.contextmanager
def world(output_state: str, stale_pwd: bool):
    """A scratch directory with an output location in the given state; yields (root, output path)."""
    lib.WORK.mkdir(exist_ok=True)
    root = Path(tempfile.mkdtemp(prefix="c20", dir=lib.WORK))
    (root / "elsewhere").mkdir()
    (root / "start").mkdir()
    (root / "other.txt").write_text("untouched\n")
    if output_state == "missing-file":
        out = root / "out.py"
    elif output_state == "existing-file":
        out = root / "out.py"
        out.write_text("# earlier result\nx = 1\n")
    elif output_state == "missing-dir":
        out = root / "pkg"
    else:  # populated-dir
        out = root / "pkg"
        out.mkdir()
        (out / "__init__.py").write_text("# earlier init\n")
        (out / "a.py").write_text("# earlier a\n")
        (out / "b.py").write_bytes(b"# earlier b, written in another encoding: caf\xe9\n")
    cwd, old_pwd = os.getcwd(), os.environ.get("PWD")
    os.chdir(root / "start")
    os.environ["PWD"] = str(root / "elsewhere") if stale_pwd else str(root / "start")
    try:
        yield root, out
    finally:
        os.chdir(cwd)
        if old_pwd is None:
            os.environ.pop("PWD", None)
        else:
            os.environ["PWD"] = old_pwd
        shutil.rmtree(root, ignore_errors=True)


def run_generate(input_, out, **kw):
    import datamodel_code_generator as d
    try:
        with contextlib.redirect_stderr(io.StringIO()), contextlib.redirect_stdout(io.StringIO()):
            lib.call_with_timeout(d.generate, 20.0, input_, output=out, disable_timestamp=True, **kw)
        return None
    except lib.Timeout:
        return "TIMEOUT"
    except BaseException as e:  # noqa: BLE001
        if isinstance(e, KeyboardInterrupt):
            raise
        return f"{type(e).__name__}: {str(e)[:80]}"


class Boom(Exception):
    pass


@contextlib.contextmanager
def inject(point: str):
    """Make one phase of generate() raise."""
    import datamodel_code_generator as d
    from datamodel_code_generator.parser import base as pbase
    from datamodel_code_generator.parser import jsonschema as pj
    from datamodel_code_generator import format as fmt
    saved = []

    def patch(obj, name, val):
        saved.append((obj, name, getattr(obj, name)))
        setattr(obj, name, val)

    def boom(*a, **k):
        raise Boom(point)

    if point == "load":
        patch(d, "infer_input_type", boom)
    elif point == "construct-parser":
        patch(pj.JsonSchemaParser, "__init__", boom)
    elif point == "parse-raw":
        patch(pj.JsonSchemaParser, "parse_raw", boom)
    elif point == "sort":
        patch(pbase, "sort_data_models", boom)
    elif point == "format":
        patch(fmt.CodeFormatter, "format_code", boom)
    elif point == "get-version":
        patch(d, "get_version", boom)
    try:
        yield
    finally:
        for obj, name, val in reversed(saved):
            setattr(obj, name, val)


POINTS = ["load", "construct-parser", "parse-raw", "sort", "format", "get-version"]
STATES = ["missing-file", "existing-file", "missing-dir", "populated-dir"]


def one_run(point, state, stale, kwargs_extra=None, input_text=None):
    """Returns (error or None, fs changed?, cwd changed?, detail)."""
    import datamodel_code_generator as d
    from datamodel_code_generator.format import Formatter
    with world(state, stale) as (root, out):
        before = snapshot(root)
        cwd0 = os.getcwd()
        text = input_text if input_text is not None else (MODULAR if "dir" in state else GOOD)
        kw = dict(input_file_type=d.InputFileType.Auto if point == "load" else d.InputFileType.JsonSchema,
                  formatters=[Formatter.BLACK, Formatter.ISORT] if point == "format" else [],
                  enable_version_header=(point == "get-version"))
        kw.update(kwargs_extra or {})
        with inject(point) if point in POINTS else contextlib.nullcontext():
            err = run_generate(text, out, **kw)
        after = snapshot(root)
        cwd1 = os.getcwd()
        changed = {k: (before.get(k), after.get(k)) for k in set(before) | set(after) if before.get(k) != after.get(k)}
        return err, changed, (cwd0 != cwd1), (cwd0, cwd1)


def correspond(ctx):
    """Fault injection at every phase boundary: the model says 'file system untouched, cwd restored'."""
    bad = 0
    for point in POINTS:
        for state in STATES:
            for stale in (False, True):
                ctx.count("eval_inject")
                err, changed, cwd_changed, cw = one_run(point, state, stale)
                ctx.bucket("point", point)
                if err is None or "Boom" not in err:
                    # the injected phase was not reached (e.g. get-version is only called in the header) - not a tie failure
                    ctx.bucket("not_reached", point)
                    if err is None:
                        continue
                ctx.nontrivial((point, state, stale))
                if changed or cwd_changed:
                    bad += 1
                    if bad <= 5:
                        ctx.tie_broken("correspondence", f"failure injected at {point} (output {state}, stale PWD {stale}): model predicts an untouched file system and restored cwd",
                                       json.dumps({"error": err, "changed": changed, "cwd": cw}, default=str), hint=(point, state, stale))
    ctx.extra["exhaustive"] = True
    ctx.count("disagreements", bad)
    ctx.sample({"points": POINTS, "states": STATES})


# ---------------------------------------------------------------------------------------------

FAILING = [
    ("unparsable", "a: [1, 2\n", {}),
    ("not-a-schema", "just a string", {}),
    ("unresolvable-ref", json.dumps({"type": "object", "properties": {"a": {"$ref": "#/definitions/Missing"}}}), {}),
    ("unresolvable-file-ref", json.dumps({"type": "object", "properties": {"a": {"$ref": "nowhere.json#/X"}}}), {}),
    ("circular-bases", json.dumps({"definitions": {"A": {"allOf": [{"$ref": "#/definitions/B"}]}, "B": {"allOf": [{"$ref": "#/definitions/A"}]}}}), {}),
    ("empty", json.dumps({}), {}),
    ("missing-header-file", GOOD, {"custom_file_header_path": Path("/nonexistent/header.txt")}),
    ("bad-template-dir", GOOD, {"custom_template_dir": Path("/nonexistent/templates")}),
    ("bad-custom-formatter", GOOD, {"custom_formatters": ["no.such.module"], "formatters_default": True}),
]


def check_failing(name, text, extra, state, stale, modular_into_file=False):
    import datamodel_code_generator as d
    from datamodel_code_generator.format import Formatter
    extra = dict(extra)
    kw = {"formatters": []}
    if extra.pop("formatters_default", False):
        kw = {}
    with world(state, stale) as (root, out):
        if name == "undecodable-header":
            (root / "hdr.bin").write_bytes(b"\xff\xfe\xff")
            extra["custom_file_header_path"] = root / "hdr.bin"
        before = snapshot(root)
        cwd0 = os.getcwd()
        err = run_generate(text, out, input_file_type=d.InputFileType.JsonSchema if name not in ("unparsable", "not-a-schema") else d.InputFileType.Auto,
                           **kw, **extra)
        after = snapshot(root)
        cwd1 = os.getcwd()
        if err == "TIMEOUT":
            return "generate() does not terminate"
        if cwd0 != cwd1:
            return f"working directory changed from {cwd0} to {cwd1} ({'failed' if err else 'successful'} run)"
        changed = sorted(k for k in set(before) | set(after) if before.get(k) != after.get(k))
        if err is not None and changed:
            return f"run failed ({err}) but the file system changed: {changed}"
        if err is None and name == "modular-into-file":
            # one of the failing conditions the property names: several modules requested into a single file path
            return f"a modular result requested into the single file {out.name} was not refused: {changed or 'nothing'} created / changed"
        if err is None:
            rel_out = str(out.relative_to(root))
            outside = [k for k in changed if not (k == rel_out or k.startswith(rel_out + "/"))]
            if outside:
                return f"successful run wrote outside the output path: {outside}"
    return None


def falsify(ctx):
    rng = ctx.rng("fals")
    cases = []
    for h in ctx.hints[:6]:
        pass
    for name, text, extra in FAILING + [("undecodable-header", GOOD, {}), ("success", GOOD, {}), ("success-modular", MODULAR, {})]:
        for state in STATES:
            for stale in (False, True):
                if name == "success-modular" and "file" in state:
                    name2 = "modular-into-file"
                else:
                    name2 = name
                if name == "success" and "dir" in state:
                    continue
                cases.append((name2, text, extra, state, stale))
    if not ctx.thorough:
        rng.shuffle(cases)
        keep = [c for c in cases if c[0] == "modular-into-file"]   # one of the conditions the property names: always run
        cases = keep + [c for c in cases if c[0] != "modular-into-file"][: 70 - len(keep)]
    seen = 0
    for name, text, extra, state, stale in cases:
        ctx.count("eval_e2e")
        ctx.bucket("kind", name)
        ctx.nontrivial((name, state, stale))
        why = check_failing(name, text, extra, state, stale)
        if why:
            seen += 1
            if seen <= 6:
                ctx.violation(f"{name}:{state}:{'stale-pwd' if stale else 'pwd'}", f"{name} with output {state}{' and stale $PWD' if stale else ''}: {why}",
                              {"name": name, "text": text, "extra": {k: str(v) for k, v in extra.items()}, "state": state, "stale": stale, "why": why})
    ctx.sample({"failing_inputs": [n for n, _, _ in FAILING], "states": STATES})


def encode_failure():
    """R17: body that the chosen encoding cannot encode fails after the output was truncated."""
    import datamodel_code_generator as d
    sch = json.dumps({"title": "M", "type": "object", "properties": {"a": {"type": "string", "default": "é"}}})
    with world("existing-file", False) as (root, out):
        before = snapshot(root)
        err = run_generate(sch, out, input_file_type=d.InputFileType.JsonSchema, formatters=[], encoding="ascii")
        after = snapshot(root)
        if err and before != after:
            return f"{err}: output file was truncated before the failure"
    return None


def replay_finding(ctx, f):
    r = f["replay"]
    if r.get("encode"):
        return encode_failure() is not None
    return check_failing(r["name"], r["text"], {k: Path(v) if "path" in k or "dir" in k else v for k, v in r["extra"].items()}, r["state"], r["stale"]) is not None


def replay(ctx, payload):
    r = payload.get("replay", payload)
    if "name" not in r:
        print(json.dumps(payload, indent=1)[:3000])
        return 0
    why = check_failing(r["name"], r["text"], {k: Path(v) if "path" in k or "dir" in k else v for k, v in r["extra"].items()}, r["state"], r["stale"])
    print("replay:", why or "no violation")
    return 1 if why else 0
