"""C06 - each named schema yields exactly one model and every reference lands on it."""
from __future__ import annotations

import ast
import itertools
import json
import shutil
import tempfile
from pathlib import Path, PurePosixPath

from harness import lib, e2e

PID = "C06"
PROPS_V = "props/C06.v"
TABLES = ()
RULE = ("correspondence: the extracted _get_unique_name vs a real ModelResolver with pre-registered names (collision alphabet Pet / pet / "
        "Pet_ / Pets-item / Pet1, both suffix styles), and get_relative_path vs the model on ALL pairs of absolute paths of depth <= 4 over "
        "{a,b,c}; falsifier: documents whose definitions carry a unique marker member each, with colliding names, in every order "
        "(permutations up to 5), forward / mutual / self references, definitions / $defs / components.schemas, and multi-file trees "
        "with relative refs through nested directories: the class set is one per definition, names are pairwise distinct per module and "
        "every $ref member's annotation resolves to the class that carries the referenced definition's marker. non-trivial = names collide or refs cross files")
TRUSTED = ["inflect's singular_noun (item class names) is used as a black box", "$id / anchors / URL references are outside the model and the falsifier"]
ASSUMPTIONS = ["duplicate_name_suffix unset and remove_suffix_number false (the defaults) in the modelled loop"]

NAMES = ["Pet", "pet", "Pet_", "Pets-item", "PET", "Pet1", "pet_1", "Owner"]


def correspond(ctx):
    from datamodel_code_generator.reference import ModelResolver, get_relative_path
    drv = lib.Driver()
    rng = ctx.rng("corr")
    E = lib.enc_str
    reqs, reals, metas = [], [], []
    for _ in range(ctx.n(800, 8000)):
        taken = [rng.choice(["Pet", "Pet1", "Pet2", "Pet_1", "Pet11", "Owner", "Pet3"]) for _ in range(rng.choice([0, 1, 2, 4]))]
        taken = list(dict.fromkeys(taken))
        name = rng.choice(["Pet", "Pet1", "Owner", "Zed"])
        camel = rng.random() < 0.5
        mr = ModelResolver()
        for i, t in enumerate(taken):
            mr.add([f"p{i}"], t, unique=False, class_name=False)
            mr.references[mr.resolve_ref([f"p{i}"])].name = t
        real = mr._get_unique_name(name, camel=camel)
        reqs.append(f"uniq\t{int(camel)}\t{E(name)}\t" + ";".join(E(t) for t in taken))
        reals.append(E(real))
        metas.append(("uniq", name, taken, camel))
    # get_relative_path, exhaustive small domain
    segs = {"a": 1, "b": 2, "c": 3}
    paths = [()]
    for n in range(1, ctx.n(3, 4) + 1):
        paths += list(itertools.product("abc", repeat=n))
    for b in paths:
        for t in paths:
            if b == t:
                continue
            real = get_relative_path(PurePosixPath("/" + "/".join(b)), PurePosixPath("/" + "/".join(t)))
            parts = real.parts
            p = sum(1 for x in parts if x == "..")
            c = [x for x in parts if x != ".."]
            reqs.append("relpath\t" + (",".join(str(segs[x]) for x in b) or "-") + "\t" + (",".join(str(segs[x]) for x in t) or "-"))
            reals.append(f"{p}\t" + (",".join(str(segs[x]) for x in c) or "-"))
            metas.append(("relpath", b, t))
    outs = drv.batch(reqs)
    bad = 0
    for out, real, meta in zip(outs, reals, metas):
        ctx.count("eval_" + meta[0])
        ctx.nontrivial(str(meta))
        if out != real:
            bad += 1
            if bad <= 5:
                ctx.tie_broken("correspondence", f"{meta[0]} model != code", json.dumps({"case": meta, "code": real, "model": out}, default=str))
    ctx.extra["exhaustive"] = True
    ctx.extra["exhaustive_domain"] = "get_relative_path on all pairs of absolute paths up to the stated depth"
    ctx.count("disagreements", bad)
    ctx.sample({"uniq": metas[0][1:], "code": lib.dec_str(reals[0])})


# ---------------------------------------------------------------------------------------------


def class_index(text):
    tree = ast.parse(text)
    out = {}
    for n in tree.body:
        if isinstance(n, ast.ClassDef):
            fields = {}
            for st in n.body:
                if isinstance(st, ast.AnnAssign) and isinstance(st.target, ast.Name):
                    fields[st.target.id] = st.annotation
            out[n.name] = (n, fields)
    return out


def marker_of(fields):
    for f in fields:
        if f.startswith("m") and f[1:].isdigit():
            return int(f[1:])
    return None


def leaf_names(ann):
    if isinstance(ann, ast.Constant) and isinstance(ann.value, str):
        ann = ast.parse(ann.value, mode="eval").body
    skip = {"Optional", "List", "Union", "Dict", "Any", "Annotated", "Set", "Sequence", "Mapping", "None", "str", "int"}
    return [x.id for x in ast.walk(ann) if isinstance(x, ast.Name) and x.id not in skip]


def check_single(defs_order, refs, container, opts):
    """defs_order: list of (name, idx); refs: list of (src idx, dst idx). One document."""
    defs = {}
    for name, i in defs_order:
        defs[name] = {"type": "object", "properties": {f"m{i}": {"type": "integer"}}}
    prefix = {"definitions": "#/definitions/", "$defs": "#/$defs/", "components": "#/components/schemas/"}[container]
    name_of = {i: n for n, i in defs_order}
    for k, (s, d) in enumerate(refs):
        defs[name_of[s]]["properties"][f"r{k}"] = {"$ref": prefix + name_of[d].replace("~", "~0").replace("/", "~1")}
    if container == "components":
        doc = {"openapi": "3.0.0", "info": {"title": "t", "version": "1"}, "paths": {}, "components": {"schemas": defs}}
        ftype = "openapi"
    else:
        doc = {container: defs}
        ftype = "jsonschema"
    g = e2e.generate(json.dumps(doc), file_type=ftype, **opts)
    if g.timeout:
        return "generate() does not terminate"
    if not g.ok:
        return f"generation fails on a well-formed document: {g.error}"
    err = e2e.parses(g.text)
    if err:
        return f"output does not parse: {err}"
    tree = ast.parse(g.text)
    names = [n.name for n in tree.body if isinstance(n, ast.ClassDef)]
    if len(set(names)) != len(names):
        return f"two classes with the same name in one module: {names}"
    idx = class_index(g.text)
    owner = {}
    for cname, (_, fields) in idx.items():
        m = marker_of(fields)
        if m is not None:
            if m in owner:
                return f"definition {name_of[m]!r} produced two classes: {owner[m]} and {cname}"
            owner[m] = cname
    for n, i in defs_order:
        if i not in owner:
            return f"definition {n!r} produced no class"
    for k, (s, d) in enumerate(refs):
        ann = idx[owner[s]][1].get(f"r{k}")
        if ann is None:
            return f"member r{k} of {name_of[s]!r} is missing"
        leaves = leaf_names(ann)
        if owner[d] not in leaves:
            return f"{owner[s]}.r{k} is a $ref to {name_of[d]!r} but is rendered as {ast.unparse(ann)} (the class of that definition is {owner[d]})"
    return None


def check_shared_content(names, groups, container, opts, use_first):
    """definitions with colliding names some of which have the same content (groups[i] = content class of names[i]); a separate object
    refers to each of them: the annotation of member ri must be a class with the content of definition i (identical definitions may
    share one class, different ones may not)"""
    defs = {}
    for n, g in zip(names, groups):
        defs[n] = {"type": "object", "properties": {f"m{g}": {"type": "integer"}, "name": {"type": "string"}}, "required": ["name"]}
    prefix = {"definitions": "#/definitions/", "$defs": "#/$defs/", "components": "#/components/schemas/"}[container]
    user = {"type": "object", "properties": {f"r{i}": {"$ref": prefix + n} for i, n in enumerate(names)}}
    if use_first:
        defs = {"Shelter": user, **defs}
    else:
        defs["Shelter"] = user
    if container == "components":
        doc, ftype = {"openapi": "3.0.0", "info": {"title": "t", "version": "1"}, "paths": {}, "components": {"schemas": defs}}, "openapi"
    else:
        doc, ftype = {container: defs}, "jsonschema"
    g = e2e.generate(json.dumps(doc), file_type=ftype, **opts)
    if g.timeout:
        return "generate() does not terminate"
    if not g.ok:
        return f"generation fails on a well-formed document: {g.error}"
    if e2e.parses(g.text):
        return f"output does not parse: {e2e.parses(g.text)}"
    idx = class_index(g.text)
    if "Shelter" not in idx:
        return "no class Shelter"
    for i, (n, grp) in enumerate(zip(names, groups)):
        ann = idx["Shelter"][1].get(f"r{i}")
        if ann is None:
            return f"member r{i} of Shelter is missing"
        leaves = [x for x in leaf_names(ann) if x in idx]
        if len(leaves) != 1:
            return f"Shelter.r{i} ($ref to {n!r}) is rendered as {ast.unparse(ann)}"
        m = marker_of(idx[leaves[0]][1])
        if m != grp:
            return f"Shelter.r{i} is a $ref to {n!r} (content m{grp}) but lands on class {leaves[0]} with content m{m}"
    return None


def check_tree(files, entry, refs_expect, opts):
    """files: {relative path: json doc}; refs_expect: list of (class-marker, member, target marker)."""
    lib.WORK.mkdir(exist_ok=True)
    d = Path(tempfile.mkdtemp(prefix="c06", dir=lib.WORK))
    try:
        for rel, doc in files.items():
            p = d / rel
            p.parent.mkdir(parents=True, exist_ok=True)
            p.write_text(json.dumps(doc))
        g = e2e.generate(d / entry if entry else d, modular=(entry is None) or True, **opts)
        if g.timeout:
            return "generate() does not terminate"
        if not g.ok:
            return f"generation fails on a well-formed document set: {g.error}"
        owner, fields_of = {}, {}
        for fname, text in g.files.items():
            if e2e.parses(text):
                return f"{fname} does not parse"
            tree = ast.parse(text)
            names = [n.name for n in tree.body if isinstance(n, ast.ClassDef)]
            if len(set(names)) != len(names):
                return f"two classes with the same name in module {fname}: {names}"
            for cname, (_, fields) in class_index(text).items():
                m = marker_of(fields)
                if m is not None:
                    if m in owner:
                        return f"marker m{m} appears in two classes: {owner[m]} and {(fname, cname)}"
                    owner[m] = (fname, cname)
                    fields_of[m] = fields
        for src, member, dst in refs_expect:
            if src not in owner or dst not in owner:
                return f"definition with marker m{src if src not in owner else dst} produced no class"
            ann = fields_of[src].get(member)
            if ann is None:
                return f"member {member} missing in {owner[src]}"
            leaves = leaf_names(ann)
            attr = [x.attr for x in ast.walk(ann) if isinstance(x, ast.Attribute)]
            # resolve through the importing file: use the static resolver of C12
            from harness.props import c12
            cands = [x for x in ast.walk(ann) if isinstance(x, ast.Attribute) or (isinstance(x, ast.Name) and x.id not in c12.TYPING)]
            attr_values = {id(x.value) for x in cands if isinstance(x, ast.Attribute)}
            cands = [x for x in cands if id(x) not in attr_values]
            ok = False
            for x in cands:
                r = c12.resolve_name(g.files, owner[src][0], x)
                if r and r == owner[dst]:
                    ok = True
            if not ok:
                return f"{owner[src]}.{member} should reach the class of marker m{dst} {owner[dst]} but is rendered as {ast.unparse(ann)}"
        return None
    finally:
        shutil.rmtree(d, ignore_errors=True)


def tree_case(rng):
    """a.json -> sub/b.json -> sub/deep/c.json, with look-alike files at several levels"""
    obj = lambda i, extra=None: {"type": "object", "properties": {f"m{i}": {"type": "integer"}, **(extra or {})}}
    deep = rng.choice(["deep", "x"])
    files = {
        "a.json": {"title": "A", **obj(0, {"b": {"$ref": "sub/b.json"}, "d": {"$ref": "d.json"}})},
        "d.json": {"title": "DRoot", **obj(1)},
        "sub/b.json": {"title": "B", **obj(2, {"c": {"$ref": f"{deep}/c.json"}, "h": {"$ref": "#/definitions/Holder"}}),
                       "definitions": {"Holder": obj(3, {"d": {"$ref": "d.json"}, "up": {"$ref": "../d.json"}})}},
        "sub/d.json": {"title": "DSub", **obj(4)},
        f"sub/{deep}/c.json": {"title": "C", **obj(5, {"d": {"$ref": "../d.json"}, "own": {"$ref": "d.json"}})},
        f"sub/{deep}/d.json": {"title": "DDeep", **obj(6)},
    }
    expect = [(0, "b", 2), (0, "d", 1), (2, "c", 5), (2, "h", 3), (3, "d", 4), (3, "up", 1), (5, "d", 4), (5, "own", 6)]
    return files, "a.json", expect


def multi_file_collision(rng):
    obj = lambda i, extra=None: {"type": "object", "properties": {f"m{i}": {"type": "integer"}, **(extra or {})}}
    n1, n2 = rng.choice([("Pet", "pet"), ("Pet", "Pet_"), ("Pet", "PET")])
    files = {
        "a.json": {"definitions": {"Pet": obj(0)}},
        "b.json": {"definitions": {n1: obj(1), n2: obj(2), "Zoo": obj(3, {"p": {"$ref": f"#/definitions/{n1}"}, "q": {"$ref": f"#/definitions/{n2}"},
                                                                            "o": {"$ref": "a.json#/definitions/Pet"}})}},
    }
    return files, None, [(3, "p", 1), (3, "q", 2), (3, "o", 0)]


def dir_lookalike(rng):
    """directory input: a file with the same name (and a definition with the same name) at the root and in a sub-directory; refs with a
    fragment from files of both levels must land on the sibling file's definition"""
    obj = lambda i, extra=None: {"type": "object", "properties": {f"m{i}": {"type": "integer"}, **(extra or {})}}
    sub = rng.choice(["billing", "sub", "zeta"])
    shared = rng.choice(["common", "base", "types"])
    user_root, user_sub = rng.choice([("account", "invoice"), ("zz_account", "aa_invoice"), ("a", "z")])
    dname = rng.choice(["Meta", "Item"])
    files = {
        f"{shared}.json": {"title": "RootShared", "type": "object", "definitions": {dname: obj(0)}},
        f"{user_root}.json": {"title": "RootUser", **obj(1, {"meta": {"$ref": f"{shared}.json#/definitions/{dname}"}})},
        f"{sub}/{shared}.json": {"title": "SubShared", "type": "object", "definitions": {dname: obj(2)}},
        f"{sub}/{user_sub}.json": {"title": "SubUser", **obj(3, {"meta": {"$ref": f"{shared}.json#/definitions/{dname}"},
                                                                  "up": {"$ref": f"../{shared}.json#/definitions/{dname}"}})},
    }
    return files, None, [(1, "meta", 0), (3, "meta", 2), (3, "up", 0)]


def anchor_case(rng):
    """two documents that declare the same plain-name anchor ($id "#name") on different subschemas; each document refers to its own
    anchor, one of them only after the other document has been loaded"""
    obj = lambda i, extra=None: {"type": "object", "properties": {f"m{i}": {"type": "integer"}, **(extra or {})}}
    anchor = rng.choice(["address", "item", "x"])
    first, second = rng.choice([("a", "b"), ("order", "customer"), ("z", "a")])
    files = {
        f"{first}.json": {"title": "First", **obj(0, {"other": {"$ref": f"{second}.json"}, "lines": {"type": "array", "items": {"$ref": "#/definitions/line"}}}),
                          "definitions": {"target_one": {"$id": f"#{anchor}", **obj(1)}, "line": obj(2, {"w": {"$ref": f"#{anchor}"}})}},
        f"{second}.json": {"title": "Second", **obj(3, {"contact": {"$ref": f"#{anchor}"}}),
                           "definitions": {"target_two": {"$id": f"#{anchor}", **obj(4)}}},
    }
    return files, rng.choice([f"{first}.json", None]), [(0, "other", 3), (2, "w", 1), (3, "contact", 4)]


def check_pointer_tree(files, expect, opts):
    """directory input; expect: (file stem, class name, member, fingerprint) - the member's annotation must reach a definition whose
    source text carries the fingerprint (a constraint value only the referenced subschema has)"""
    lib.WORK.mkdir(exist_ok=True)
    d = Path(tempfile.mkdtemp(prefix="c06", dir=lib.WORK))
    try:
        for rel, doc in files.items():
            p = d / rel
            p.parent.mkdir(parents=True, exist_ok=True)
            p.write_text(json.dumps(doc))
        g = e2e.generate(d, modular=True, **opts)
        if g.timeout:
            return "generate() does not terminate"
        if not g.ok:
            return f"generation fails on a well-formed document set: {g.error}"
        from harness.props import c12
        for stem, cname, member, fingerprint in expect:
            fname = stem + ".py"
            text = g.files.get(fname)
            if text is None or e2e.parses(text):
                return f"{fname} missing or unparsable"
            cls = next((n for n in ast.parse(text).body if isinstance(n, ast.ClassDef) and n.name == cname), None)
            ann = next((st.annotation for st in (cls.body if cls else []) if isinstance(st, ast.AnnAssign) and isinstance(st.target, ast.Name) and st.target.id == member), None)
            if ann is None:
                return f"{fname}: {cname}.{member} not found"
            if isinstance(ann, ast.Constant) and isinstance(ann.value, str):
                ann = ast.parse(ann.value, mode="eval").body
            if fingerprint in ast.unparse(ann):
                continue  # written inline
            cands = [x for x in ast.walk(ann) if isinstance(x, ast.Attribute) or (isinstance(x, ast.Name) and x.id not in c12.TYPING)]
            attr_values = {id(x.value) for x in cands if isinstance(x, ast.Attribute)}
            ok = False
            for x in [x for x in cands if id(x) not in attr_values]:
                r = c12.resolve_name(g.files, fname, x)
                if r:
                    tree = ast.parse(g.files[r[0]])
                    for n in tree.body:
                        name = n.name if isinstance(n, ast.ClassDef) else (n.targets[0].id if isinstance(n, ast.Assign) and isinstance(n.targets[0], ast.Name) else
                                                                              n.target.id if isinstance(n, ast.AnnAssign) and isinstance(n.target, ast.Name) else None)
                        if name == r[1] and fingerprint in ast.unparse(n):
                            ok = True
            if not ok:
                return f"{fname}: {cname}.{member} is written {ast.unparse(ann)}, which does not reach the subschema with {fingerprint}"
        return None
    finally:
        shutil.rmtree(d, ignore_errors=True)


def pointer_case(rng):
    """directory input: a later file points into a part of an earlier file that is no definition (a constrained scalar under
    properties); the last file of the set has something else at the same pointer"""
    user, early, last = rng.choice([("invoice", "account", "product"), ("m", "a", "z"), ("b", "a", "c")])
    files = {
        f"{early}.json": {"title": "Early", "type": "object", "properties": {"code": {"type": "string", "maxLength": 81}, "n": {"type": "integer"}}},
        f"{user}.json": {"title": "User", "type": "object", "properties": {"acc": {"$ref": f"{early}.json#/properties/code"},
                                                                             "own": {"$ref": "#/properties/local"}, "local": {"type": "string", "minLength": 83}}},
        f"{last}.json": {"title": "Last", "type": "object", "properties": {"code": {"type": "integer", "minimum": 82}, "local": {"type": "integer", "maximum": 84}}},
    }
    return files, [(user, "User", "acc", "81"), (user, "User", "own", "83")]


def parallel_trees(rng):
    """two directory trees whose later path components coincide (v1/models/x, v2/models/x): a reference from one tree into the other
    must land on the other tree's file although a file of the same name sits next to the referring one"""
    obj = lambda i, extra=None: {"type": "object", "properties": {f"m{i}": {"type": "integer"}, **(extra or {})}}
    a, b = rng.choice([("v1", "v2"), ("old", "new"), ("x", "a")])
    mid = rng.choice(["models", "m"])
    files = {
        f"{a}/{mid}/pet.json": {"title": "PetOne", "type": "object", "definitions": {"Pet": obj(0)}},
        f"{b}/{mid}/pet.json": {"title": "PetTwo", "type": "object", "definitions": {"Pet": obj(1)}},
        f"{a}/{mid}/migration.json": {"title": "Migration", **obj(2, {"old": {"$ref": "pet.json#/definitions/Pet"},
                                                                   "new": {"$ref": f"../../{b}/{mid}/pet.json#/definitions/Pet"}})},
        f"{b}/{mid}/user.json": {"title": "User", **obj(3, {"own": {"$ref": "pet.json#/definitions/Pet"}, "other": {"$ref": f"../../{a}/{mid}/pet.json#/definitions/Pet"}})},
    }
    return files, None, [(2, "old", 0), (2, "new", 1), (3, "own", 1), (3, "other", 0)]


GQL_ROOTS = [
    "schema { query: Catalog mutation: CatalogAdmin }\ntype Catalog { items: [Item!]! }\ntype CatalogAdmin { rename(id: ID!): Item }\ntype Item { id: ID! owner: Catalog admin: CatalogAdmin }\n",
    "schema { query: Root }\ntype Root { me: User }\ntype User { id: ID! home: Root }\n",
    # (a field typed with the literal Query / Mutation root is known finding C06-graphql-root-type-referenced: replayed, not generated)
]


def check_gql_roots(sdl):
    """every named object type that some field refers to gets a class - also when it is the schema's query / mutation type"""
    g = e2e.generate(sdl, file_type="graphql")
    if g.timeout:
        return "generate() does not terminate"
    if not g.ok:
        return None
    if e2e.parses(g.text):
        return "output does not parse"
    import re
    tree = ast.parse(g.text)
    classes = {n.name for n in tree.body if isinstance(n, ast.ClassDef)}
    declared = set(re.findall(r"^type (\w+)", sdl, flags=re.M))
    used = set()
    for n in ast.walk(tree):
        if isinstance(n, ast.AnnAssign):
            ann = n.annotation
            if isinstance(ann, ast.Constant) and isinstance(ann.value, str):
                try:
                    ann = ast.parse(ann.value, mode="eval").body
                except SyntaxError:
                    continue
            used |= {x.id for x in ast.walk(ann) if isinstance(x, ast.Name)}
    dangling = sorted((used & declared) - classes)
    if dangling:
        return f"members are typed with {dangling}, named types of the document for which no class is generated"
    return None


def falsify(ctx):
    rng = ctx.rng("fals")
    seen = 0
    # single documents: colliding names in every order
    combos = []
    for k in (2, 3, 4, 5):
        for _ in range(ctx.n(8, 60)):
            chosen = rng.sample(NAMES, k)
            combos.append(chosen)
    for chosen in combos:
        perms = list(itertools.permutations(list(enumerate(chosen))))
        rng.shuffle(perms)
        for perm in perms[: ctx.n(3, 24)]:
            defs_order = [(n, i) for i, n in perm]
            refs = []
            ids = [i for _, i in defs_order]
            for _ in range(rng.choice([1, 2, 4])):
                refs.append((rng.choice(ids), rng.choice(ids)))
            container = rng.choice(["definitions", "$defs", "components"])
            opts = rng.choice([{}, {}, {"reuse_model": True}, {"collapse_root_models": True}, {"use_title_as_name": True}])
            ctx.count("eval_e2e")
            ctx.nontrivial(json.dumps([defs_order, refs, container]))
            why = check_single(defs_order, refs, container, opts)
            if why:
                seen += 1
                if seen <= 6:
                    ctx.violation(f"single:{json.dumps([defs_order, refs, container, opts])}", f"{container} {defs_order} refs {refs} {opts}: {why}",
                                  {"single": [defs_order, refs, container, opts], "why": why})
    # colliding names with partly identical content: every content pattern over three and four definitions
    for k in (3, 4):
        pats = [p for p in itertools.product(range(3), repeat=k) if p[0] == 0]
        for pat in pats:
            # names that all want the class name Pet (every pattern), and - in the thorough tier - a random draw from the wider alphabet
            names = ["Pet", "pet", "Pet_", "pet_"][:k] if not (ctx.thorough and rng.random() < 0.5) else rng.sample([n for n in NAMES if n != "Owner"], k)
            container = rng.choice(["definitions", "$defs", "components"])
            for use_first in (True, False):
                ctx.count("eval_e2e")
                ctx.nontrivial(json.dumps([names, pat, container, use_first]))
                why = check_shared_content(names, list(pat), container, {}, use_first)
                if why:
                    seen += 1
                    if seen <= 8:
                        ctx.violation(f"shared:{json.dumps([names, pat, container, use_first])}", f"{names} content {pat} in {container}: {why}",
                                      {"shared": [names, list(pat), container, use_first], "why": why})
    for _ in range(ctx.n(6, 40)):
        for maker in (tree_case, multi_file_collision, dir_lookalike, anchor_case, parallel_trees):
            files, entry, expect = maker(rng)
            ctx.count("eval_e2e")
            ctx.nontrivial(json.dumps(sorted(files)))
            why = check_tree(files, entry, expect, {})
            if why:
                seen += 1
                if seen <= 8:
                    ctx.violation(f"tree:{maker.__name__}:{json.dumps(files, sort_keys=True)[:200]}", f"{maker.__name__}: {why}",
                                  {"tree": [files, entry, expect], "why": why})
    for _ in range(ctx.n(4, 30)):
        files, expect = pointer_case(rng)
        for opts in ({}, {"field_constraints": True}):
            ctx.count("eval_e2e")
            ctx.nontrivial("pointer:" + json.dumps(sorted(files)) + json.dumps(opts))
            why = check_pointer_tree(files, expect, opts)
            if why:
                seen += 1
                if seen <= 8:
                    ctx.violation(f"pointer:{json.dumps(sorted(files))}:{sorted(opts)}", f"pointer_case {sorted(files)} {opts}: {why}", {"pointer": [files, expect, opts], "why": why})
    for sdl in GQL_ROOTS:
        ctx.count("eval_e2e")
        ctx.nontrivial("gql:" + sdl)
        why = check_gql_roots(sdl)
        if why:
            seen += 1
            ctx.violation(f"gql-roots:{sdl[:60]}", f"GraphQL {sdl!r}: {why}", {"gql": sdl, "why": why})
    ctx.sample({"names": combos[0]})


def _shared(r):
    names, pat, container, use_first = r["shared"]
    return check_shared_content(names, pat, container, {}, use_first)


def replay_finding(ctx, f):
    r = f["replay"]
    if "shared" in r:
        return _shared(r) is not None
    if "gql" in r:
        return check_gql_roots(r["gql"]) is not None
    if "pointer" in r:
        a = r["pointer"]
        return check_pointer_tree(a[0], [tuple(x) for x in a[1]], a[2]) is not None
    if "single" in r:
        a = r["single"]
        return check_single([tuple(x) for x in a[0]], [tuple(x) for x in a[1]], a[2], a[3]) is not None
    a = r["tree"]
    return check_tree(a[0], a[1], [tuple(x) for x in a[2]], {}) is not None


def replay(ctx, payload):
    r = payload.get("replay", payload)
    if "shared" in r:
        why = _shared(r)
    elif "gql" in r:
        why = check_gql_roots(r["gql"])
    elif "pointer" in r:
        a = r["pointer"]
        why = check_pointer_tree(a[0], [tuple(x) for x in a[1]], a[2])
    elif "single" in r:
        a = r["single"]
        why = check_single([tuple(x) for x in a[0]], [tuple(x) for x in a[1]], a[2], a[3])
    elif "tree" in r:
        a = r["tree"]
        why = check_tree(a[0], a[1], [tuple(x) for x in a[2]], {})
    else:
        print(json.dumps(payload, indent=1)[:3000])
        return 0
    print("replay:", why or "no violation")
    return 1 if why else 0
