"""C19 - output only uses what the chosen target Python version provides."""
from __future__ import annotations

import ast
import importlib
import json
import sys

from harness import lib, e2e

PID = "C19"
PROPS_V = "props/C19.v"
TABLES = ("VersionTables",)
RULE = ("correspondence: (1) the hand-written stdlib table of the model (provides) vs the running interpreter for every "
        "name/version the table claims <= 3.12; (2) sweep target versions 3.9-3.13 x 5 model types x version-sensitive options on a "
        "schema set exercising every construct: each emitted 'from M import N' must be provided by the target according to the "
        "extracted model and be among the reflected constants; falsifier: ast.parse(feature_version) + runtime-evaluated PEP 604 "
        "unions, NotRequired, TypeAlias, kw_only per target. non-trivial = (version, kind, options) differs")
TRUSTED = ["stdlib_since in model/Version.v is a hand-written specification (checked against the running 3.12 only)",
           "only Python 3.12 can execute anything here: other targets are checked through ast.parse(feature_version) and the table"]
ASSUMPTIONS = ["typing_extensions, pydantic, msgspec, pendulum are installable on every target"]

VERSIONS = ["3.9", "3.10", "3.11", "3.12", "3.13"]
SCHEMAS = {
    "object": {"title": "M", "type": "object", "required": ["a"],
               "properties": {"a": {"type": "string"}, "b": {"type": ["integer", "null"]}, "c": {"type": "array", "items": {"type": "number"}},
                              "d": {"type": "object", "additionalProperties": {"type": "string"}}, "e": {"enum": ["x", "y"]},
                              "f": {"anyOf": [{"type": "string"}, {"type": "integer"}]}, "g": {"type": "string", "format": "date-time"},
                              "h": {"type": "string", "format": "uuid"}, "i": {"const": "k"}, "x-y": {"type": "integer"}}},
    "root-union": {"definitions": {"A": {"type": "object", "properties": {"v": {"type": "integer"}}},
                                   "U": {"anyOf": [{"$ref": "#/definitions/A"}, {"type": "string"}, {"type": "null"}]},
                                   "L": {"type": "array", "items": {"$ref": "#/definitions/U"}}}},
    "inherit": {"definitions": {"Base": {"type": "object", "properties": {"opt": {"type": "string"}, "req": {"type": "integer"}}, "required": ["req"]},
                                "Child": {"allOf": [{"$ref": "#/definitions/Base"}], "type": "object",
                                          "properties": {"content-type": {"type": "string"}, "own": {"type": ["number", "null"]}}},
                                "Grand": {"allOf": [{"$ref": "#/definitions/Child"}], "type": "object", "properties": {"z": {"type": "boolean"}}, "required": ["z"]}}},
    # shapes that make the generator reach for other constructs: an alias-rendered definition on a reference cycle listed
    # before the class it names, two classes referring to each other, a self-reference through a map
    "alias-cycle": {"definitions": {"Tree": {"type": "array", "items": {"$ref": "#/definitions/Node"}},
                                    "Node": {"type": "object", "properties": {"name": {"type": "string"}, "children": {"$ref": "#/definitions/Tree"}}}}},
    "cycle": {"definitions": {"A": {"type": "object", "properties": {"b": {"$ref": "#/definitions/B"}, "m": {"type": "object", "additionalProperties": {"$ref": "#/definitions/A"}}}},
                              "B": {"type": "object", "properties": {"a": {"$ref": "#/definitions/A"}, "u": {"anyOf": [{"$ref": "#/definitions/A"}, {"type": "null"}]}}}}},
}
GQL = """
type A { id: ID!  b: [B!] }
type B { a: A  n: Int }
union U = A | B
scalar Date
enum E { X Y }
"""


def model_provides(drv, minor, pairs):
    outs = drv.batch([f"provides\t{minor}\t{m}\t{n}" for m, n in pairs])
    return {p: o == "1" for p, o in zip(pairs, outs)}


def imports_of(text):
    out = []
    for n in ast.parse(text).body:
        if isinstance(n, ast.ImportFrom) and n.level == 0 and n.module:
            for a in n.names:
                out.append((n.module, a.name))
    return out


def correspond(ctx):
    from harness import reflect
    drv = lib.Driver()
    t = reflect.version_tables()
    # (1) the specification table against the interpreter that runs this check
    here = sys.version_info.minor
    pairs = [p for p in t["consts"]]
    prov = model_provides(drv, here, pairs)
    bad = 0
    for (m, n), ok in prov.items():
        if m.split(".")[0] in ("pydantic", "typing_extensions", "msgspec", "pendulum"):
            continue  # third party: the table only speaks about the standard library
        ctx.count("eval_table")
        try:
            real = hasattr(importlib.import_module(m), n)
        except ImportError:
            real = None  # third party not installed here (msgspec, pendulum): nothing to compare
        if real is not None and real != ok and m != "__future__":
            bad += 1
            ctx.tie_broken("correspondence", f"stdlib table: provides(3.{here}, {m}.{n}) = {ok} but the interpreter says {real}", "")
    # (2) sweep: imports of real outputs are provided by the target according to the model
    cases = sweep_cases(ctx)
    known = set(map(tuple, t["consts"])) | {("pydantic", "BaseModel"), ("pydantic", "RootModel")}
    for case in cases:
        g = run_case(case)
        if not g.ok:
            continue
        ctx.count("eval_sweep")
        ctx.nontrivial(json.dumps(case, sort_keys=True))
        ctx.bucket("version", case["version"])
        ctx.bucket("kind", case["kind"])
        imps = [i for f in g.files.values() for i in imports_of(f)]
        minor = int(case["version"].split(".")[1])
        prov = model_provides(drv, minor, imps)
        for i, ok in prov.items():
            if i not in known and not i[0].startswith("pydantic"):
                bad += 1
                if bad < 6:
                    ctx.tie_broken("correspondence", f"output imports {i}, which is not one of the reflected Import constants", json.dumps(case), hint=case)
            if not ok and not in_known_class(case, i):
                bad += 1
                if bad < 6:
                    ctx.tie_broken("correspondence", f"target {case['version']}: output imports {i[0]}.{i[1]}, which the model says 3.{minor} does not provide",
                                   json.dumps(case), hint=case)
    ctx.count("disagreements", bad)
    ctx.sample(cases[0])


def in_known_class(case, imp):
    # known finding C19-type-alias: GraphQL alias models import typing.TypeAlias on every target
    return imp == ("typing", "TypeAlias") and case["version"] == "3.9" and case["input"] == "graphql"


def sweep_cases(ctx):
    rng = ctx.rng("sweep")
    cases = []
    for v in VERSIONS:
        for kind in e2e.KINDS:
            for inp in ("object", "root-union", "inherit", "graphql"):
                for opts in ({}, {"use_union_operator": True}, {"use_standard_collections": True, "use_generic_container_types": True},
                             {"use_annotated": True, "field_constraints": True}, {"keyword_only": True}):
                    if not ctx.thorough and rng.random() < 0.55:
                        continue
                    if opts.get("keyword_only") and kind != "dataclasses.dataclass":
                        continue
                    cases.append({"version": v, "kind": kind, "input": inp, "opts": opts})
    for v in (VERSIONS if ctx.thorough else VERSIONS[:2]):
        for kind in e2e.KINDS:
            for inp in ("alias-cycle", "cycle"):
                for opts in (({}, {"use_union_operator": True}, {"collapse_root_models": True}) if ctx.thorough else ({},)):
                    cases.append({"version": v, "kind": kind, "input": inp, "opts": opts})
    return cases


def run_case(case):
    from datamodel_code_generator.format import PythonVersion
    if case["input"] == "graphql":
        return e2e.generate(GQL, kind=case["kind"], file_type="graphql", target_python_version=PythonVersion(case["version"]), **case["opts"])
    return e2e.generate(json.dumps(SCHEMAS[case["input"]]), kind=case["kind"], target_python_version=PythonVersion(case["version"]), **case["opts"])


def runtime_unions(tree, kind):
    """PEP 604 unions that are evaluated when the module is imported (not merely deferred annotations)."""
    hits = []
    future = any(isinstance(n, ast.ImportFrom) and n.module == "__future__" for n in tree.body)

    def has_bitor(node):
        return any(isinstance(x, ast.BinOp) and isinstance(x.op, ast.BitOr) for x in ast.walk(node))

    for n in tree.body:
        if isinstance(n, ast.Assign) and has_bitor(n.value):
            hits.append("alias assignment / functional TypedDict")
        if isinstance(n, ast.AnnAssign) and n.value is not None and has_bitor(n.value):
            hits.append("alias assignment")
        if isinstance(n, ast.ClassDef):
            if any(has_bitor(b) for b in n.bases):
                hits.append(f"base class of {n.name}")
            for st in n.body:
                if isinstance(st, ast.AnnAssign) and has_bitor(st.annotation):
                    if not future:
                        hits.append(f"annotation in {n.name} without deferred evaluation")
                    elif kind.startswith("pydantic") or kind == "msgspec.Struct":
                        hits.append(f"annotation in {n.name}, which {kind.split('.')[0]} evaluates at class creation")
    return hits


def check_case(case):
    case = dict(case)
    g = run_case(case)
    if g.timeout:
        return "generate() does not terminate"
    if not g.ok:
        return None
    minor = int(case["version"].split(".")[1])
    for name, text in g.files.items():
        try:
            tree = ast.parse(text, feature_version=(3, minor))
        except SyntaxError as e:
            return f"{name} does not parse with the 3.{minor} grammar: {e}"
        imps = imports_of(text)
        for m, n in imps:
            if m == "typing" and n == "NotRequired" and minor < 11:
                return "typing.NotRequired imported for a target below 3.11"
            if m == "typing" and n == "TypeAlias" and minor < 10:
                return "typing.TypeAlias imported for a target below 3.10"
        if minor < 10:
            hits = runtime_unions(tree, case["kind"])
            if hits:
                return f"PEP 604 union evaluated at run time on 3.{minor}: {hits[0]}"
            for n in ast.walk(tree):
                if isinstance(n, ast.keyword) and n.arg == "kw_only":
                    return f"dataclass(kw_only=...) emitted for target 3.{minor}"
    return None


def falsify(ctx):
    cases = [h for h in ctx.hints if isinstance(h, dict)] + sweep_cases(ctx)
    seen = 0
    for case in cases:
        if case["opts"].get("use_union_operator") and case["version"] == "3.9":
            continue  # known finding C19-union-operator-39
        if case["opts"].get("keyword_only") and case["version"] == "3.9":
            continue  # known finding C19-kw-only-generate
        if case["input"] == "graphql" and case["version"] == "3.9":
            continue  # known finding C19-type-alias
        ctx.count("eval_e2e")
        why = check_case(case)
        if why:
            seen += 1
            if seen <= 6:
                ctx.violation("e2e:" + json.dumps(case, sort_keys=True), f"{case}: {why}", {"case": case, "why": why})
    # the command line refuses keyword-only for 3.9 (the guard the property names), whatever else is given
    from harness.props import c18
    rng = ctx.rng("cli")
    extras = [[], ["--output-datetime-class", "datetime"], ["--use-union-operator"], ["--use-standard-collections"], ["--disable-timestamp"],
              ["--field-constraints"], ["--use-annotated"], ["--snake-case-field"], ["--reuse-model"], ["--strict-nullable"]]
    combos = [[]] + [e for e in extras[1:]] + [sum(rng.sample(extras[1:], 2), []) for _ in range(ctx.n(4, 30))]
    stop = False
    for extra in combos:
        for target in (["--target-python-version", "3.9"], []):   # given, or left to the default (which is 3.9)
            with c18.sandbox(None) as d:
                code, _, err = c18.run_main(["--input", "schema.json", "--output", "o.py", "--output-model-type", "dataclasses.dataclass",
                                             "--keyword-only", *target, *extra], recorder=False)
                ctx.count("eval_e2e")
                if code == 0 and "kw_only" in (d / "o.py").read_text():
                    ctx.violation("cli-kw-only-39:" + " ".join(target + extra),
                                  f"the command line accepts --keyword-only for target 3.9 ({'given' if target else 'the default'}) with {extra} and emits kw_only", {"cli_kw_only": target + extra})
                    stop = True
                    break
        if stop:
            break


def replay_finding(ctx, f):
    return check_case(f["replay"]["case"]) is not None


def replay(ctx, payload):
    r = payload.get("replay", payload)
    if "case" not in r:
        print(json.dumps(payload, indent=1)[:3000])
        return 0
    why = check_case(r["case"])
    print("replay:", why or "no violation")
    return 1 if why else 0
