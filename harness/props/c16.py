"""C16 - a model inferred from sample data accepts that sample."""
from __future__ import annotations

import csv
import io
import json

from harness import lib, e2e, schemasem as ss, schemamodel as sm

PID = "C16"
PROPS_V = "props/C16.v"
TABLES = ("UnicodeTables", "BaseModelAttrs")
RULE = ("correspondence: for JSON documents with an object at the root (nulls, empty containers, heterogeneous arrays, numbers of either kind, "
        "renamed keys, nesting to depth 4) the extracted infer prints the schema, which must equal what the genson package prints; the extracted "
        "gen of that schema prints the class tree, which must equal the real generate() output for the sample read back from its AST; and the "
        "extracted accepts must say yes, as the exec'd pydantic class does. falsifier: real generate() on the sample as JSON text, YAML text, dict "
        "and CSV x {v1, v2, dataclass, TypedDict}: the generated root model validates the sample and dumps its keys back. non-trivial = distinct sample")
TRUSTED = ["the genson package is third-party: modelled (model/Infer.v) and compared on every run", "harness AST reader", "PyYAML / csv for the other input forms"]
ASSUMPTIONS = ["samples are JSON values whose object keys are pairwise distinct; keys that are their own class name are left out of the structural comparison"]

V2, V1, DC, TD = "pydantic_v2.BaseModel", "pydantic.BaseModel", "dataclasses.dataclass", "typing.TypedDict"
KEYS = ["id", "name", "first-name", "class", "value", "x_y", "data", "n1", "_id", "camelCase", "1st", "a b", "in", "é", "json", "copy", "", "a.b", "x-",
        "日本", "with\ttab", "q\"q", "nel\u0085x", "ls x", "c1\u0090x", "del\u007fx"]
# (a key with a non-BMP character makes generate() fail: the inferred schema is re-read from json.dumps text whose surrogate escapes the YAML
#  scanner rejects - known finding C16-non-bmp-key)
SAFE_KEYS = [k for k in KEYS if k.isprintable()]


def gen_value(rng, depth=0, keys=KEYS):
    r = rng.random()
    if depth >= 4 or r < 0.4:
        return rng.choice([0, 1, -7, 12, 0.5, -2.5, "a", "", "x y", True, False, None, None, 1e-07, 1e+16, 2.5e+20, "1e5", 10 ** 20])
    if r < 0.7:
        q = rng.random()
        if q < 0.15:
            return []
        if q < 0.4:   # one scalar type plus null
            base = rng.choice([["a", "b"], [1, 2], [0.5, 1.5], [True]])
            l = list(base) + [None]
            rng.shuffle(l)
            return l
        return [gen_value(rng, depth + 1, keys) for _ in range(rng.choice([1, 2, 3]))]
    return gen_object(rng, depth + 1, keys)


def gen_object(rng, depth=0, keys=KEYS):
    return {k: gen_value(rng, depth, keys) for k in rng.sample(keys, rng.choice([0, 1, 2, 3, 4]) if depth else rng.choice([1, 2, 3, 4]))}


def own_class_name(v):
    if isinstance(v, dict):
        return any((k[:1].isalpha() and not k[:1].islower() and isinstance(x, (dict, list))) or own_class_name(x) for k, x in v.items())
    if isinstance(v, list):
        return any(own_class_name(x) for x in v)
    return False


def big_int(v):
    if isinstance(v, int) and not isinstance(v, bool):
        return abs(v) > 10 ** 9
    if isinstance(v, dict):
        return any(big_int(x) for x in v.values())
    if isinstance(v, list):
        return any(big_int(x) for x in v)
    return False


def integral_float(v):
    if isinstance(v, float):
        return v == int(v)
    if isinstance(v, dict):
        return any(integral_float(x) for x in v.values())
    if isinstance(v, list):
        return any(integral_float(x) for x in v)
    return False


def required_nullable_member(sch):
    """an inferred object schema with a required member whose type list names null (how it is rendered - required Optional or
    Optional = None - depends on where the object sits: C05's subject; the acceptance theorem covers both renderings)"""
    if isinstance(sch, dict):
        req = set(sch.get("required", []))
        for k, v in (sch.get("properties") or {}).items():
            if k in req and isinstance(v, dict) and ((isinstance(v.get("type"), list) and "null" in v["type"] and len(v["type"]) > 1)
                                                     or any(isinstance(a, dict) and (a.get("type") == "null" or (isinstance(a.get("type"), list) and "null" in a["type"]))
                                                            for a in v.get("anyOf", []))):
                return True
        return any(required_nullable_member(v) for v in sch.values())
    if isinstance(sch, list):
        return any(required_nullable_member(v) for v in sch)
    return False


def correspond(ctx):
    from genson import SchemaBuilder
    drv = lib.Driver()
    rng = ctx.rng("corr")
    docs = []
    while len(docs) < ctx.n(150, 2000):
        d = gen_object(rng, 0, SAFE_KEYS)
        if not own_class_name(d) and not integral_float(d) and sm.exactly_typed(d) and not big_int(d):
            docs.append(d)
    outs = drv.batch(["infer\t" + sm.json_tokens(d) for d in docs])
    bad = 0
    for d, out in zip(docs, outs):
        ctx.count("eval_infer")
        ctx.nontrivial(json.dumps(d, sort_keys=True))
        parts = out.split("\t")
        if len(parts) != 3:
            bad += 1
            ctx.tie_broken("correspondence", "driver answer " + out[:200], json.dumps(d)[:500])
            continue
        b = SchemaBuilder()
        b.add_object(d)
        sch = b.to_schema()
        sch.pop("$schema", None)
        want = sm.tokens(sm.term_of_genson(sch))
        if parts[0] != want:
            bad += 1
            if bad <= 5:
                ctx.tie_broken("correspondence", "inferred schema differs from genson", f"sample {json.dumps(d)[:600]}\nmodel  {parts[0][:600]}\ngenson {want[:600]}")
            continue
        if required_nullable_member(sch):
            ctx.count("class_tree_not_compared_required_nullable")
            if parts[2] != "1":
                bad += 1
                ctx.tie_broken("correspondence", "the model of the generated class does not accept the sample", json.dumps(d)[:600])
            continue
        if parts[2] != "1":
            bad += 1
            ctx.tie_broken("correspondence", "the model of the generated class does not accept the sample (contradicts the theorem: model drift)", json.dumps(d)[:600])
        g = e2e.generate(json.dumps(d), kind=V2, file_type="json")
        if not g.ok:
            bad += 1
            if bad <= 5:
                ctx.tie_broken("correspondence", f"real generate() fails on the sample ({g.error})", json.dumps(d)[:600], hint=d)
            continue
        try:
            real = sm.canon_module(g.text, root="Model")
        except sm.Unmodelled as e:
            real = f"unmodelled: {e}"
        if real != parts[1]:
            bad += 1
            if bad <= 5:
                k = next((i for i, (a, b) in enumerate(zip(parts[1], real)) if a != b), min(len(real), len(parts[1])))
                ctx.tie_broken("correspondence", "generated class tree differs from the model",
                               f"sample {json.dumps(d)[:600]}\nmodel ...{parts[1][max(0, k - 150):k + 200]}\nreal  ...{real[max(0, k - 150):k + 200]}", hint=d)
    ctx.count("disagreements", bad)
    ctx.sample({"sample": docs[0]})


# ---------------------------------------------------------------------------------------------------


def same_json(a, b):
    if isinstance(a, bool) or isinstance(b, bool):
        return a is b
    if isinstance(a, (int, float)) and isinstance(b, (int, float)):
        return a == b
    if type(a) is not type(b):
        return False
    if isinstance(a, dict):
        return a.keys() == b.keys() and all(same_json(a[k], b[k]) for k in a)
    if isinstance(a, list):
        return len(a) == len(b) and all(same_json(x, y) for x, y in zip(a, b))
    return a == b


def check_sample(sample, form, kind, opts=None):
    """form: json | yaml | dict | csv.  -> reason the property fails, or None"""
    opts = opts or {}
    if form == "json":
        inp, ft = json.dumps(sample), "json"
    elif form == "yaml":
        import yaml
        inp, ft = yaml.safe_dump(sample, sort_keys=False), "yaml"
    elif form == "dict":
        inp, ft = sample, "dict"
    else:
        buf = io.StringIO()
        w = csv.writer(buf)
        w.writerow(list(sample.keys()))
        w.writerow(list(sample.values()))
        inp, ft = buf.getvalue(), "csv"
    g = e2e.generate(inp, kind=kind, file_type=ft, **opts)
    if g.timeout:
        return "generate() does not terminate"
    if not g.ok:
        return f"generate() fails on the sample: {g.error}"
    err = e2e.parses(g.text)
    if err:
        return None  # C01's subject
    mod, err = e2e.load_module(g.text, kind)
    if err:
        return None  # C02's subject
    try:
        b = ss.Built(kind, g.text, mod)
        b.root = getattr(mod, "Model", None)
        if b.root is None:
            return "no class Model in the output"
        try:
            obj = b.validate(sample)
        except Exception as e:  # noqa: BLE001
            if type(e).__name__ in ("PydanticUserError", "ConfigError", "NameError", "PydanticUndefinedAnnotation"):
                # a model that cannot be completed accepts nothing - the sample included (C02 generates from schemas, not from samples)
                return f"the model inferred from the sample cannot be completed, so it does not accept the sample ({type(e).__name__}: {str(e)[:160]})"
            return f"the sample is rejected by the model inferred from it ({type(e).__name__}: {str(e)[:200]})"
        if kind in (V1, V2):
            back = b.dump(obj)
            if isinstance(back, dict) and list(back.keys()) != list(sample.keys()) and set(back.keys()) != set(sample.keys()):
                return f"dump by wire name returns keys {list(back.keys())[:8]} for {list(sample.keys())[:8]}"
        return None
    finally:
        e2e.unload(mod)


def needs_rename(sample):
    import keyword
    import pydantic
    import pydantic.v1
    attrs = set(dir(pydantic.BaseModel)) | set(dir(pydantic.v1.BaseModel))

    def walk(v):
        if isinstance(v, dict):
            return any((not k.isidentifier()) or keyword.iskeyword(k) or k.startswith("_") or k[0].isupper() or k in attrs or walk(x) for k, x in v.items())
        if isinstance(v, list):
            return any(walk(x) for x in v)
        return False
    return walk(sample)


def in_known_class(sample, form, kind):
    if kind in (DC, TD) and needs_rename(sample):
        return True  # C03-dataclass-renamed-member
    return False


COLLIDING = [("content-type", "content_type"), ("max.size", "max_size"), ("class", "class_"), ("1x", "field_1x"), ("copy", "copy_"),
             ("a b", "a_b"), ("_id", "field_id"), ("in", "in_"), ("x-", "x_")]


def colliding_samples():
    """two keys of one object whose sanitised spellings coincide, in both orders, at the root and nested"""
    for a, b in COLLIDING:
        for first, second in ((a, b), (b, a)):
            yield {first: 1, second: "x", "id": 2}
            yield {"outer": {first: [1], second: {"k": None}}, "rows": [{first: 1, second: 2}]}


def coincidence_samples():
    """keys spelled exactly like the class generated for them, holding an object here, null / a scalar there and missing elsewhere;
    two objects that want the same class name and differ only in the punctuation of a key"""
    for k in ("Owner", "Runner", "Item"):
        yield {"Pets": [{k: {"Id": 1}}, {k: None}, {}]}
        yield {"rows": [{k: {"Id": 1}}, {k: "text"}, {"other": 1}]}
        yield {"rows": [{k: {"Id": 1}}, {k: {"Id": 2}}, {}]}
        yield {k: {"Id": 1}, "list": [{k: {"Id": 2}}, {k: None}]}
    # null next to an object / an array in places that are not optional members (the only Optional of the module)
    yield {"events": [None, {"a": 1}]}
    yield {"rows": [{"cells": [1, 2]}, {"cells": None}]}
    yield {"grid": [[1, 2], None]}
    yield {"pairs": [{"k": {"v": 1}}, {"k": None}]}
    for a, b in (("content-type", "content_type"), ("tag-id", "tag_id"), ("a b", "a_b")):
        for shared in ({"x-request-id": "1"}, {"plain": "1"}, {}):
            yield {"request": {"headers": {a: "v", **shared}}, "response": {"headers": {b: "w", **shared}}}
            yield {"item": {a: 1, **shared}, "items": [{b: 2, **shared}]}


def falsify(ctx):
    rng = ctx.rng("fals")
    seen = 0

    def run(sample, form, kind):
        nonlocal seen
        if in_known_class(sample, form, kind):
            ctx.count("outside_guard")
            return
        ctx.count("eval_e2e")
        ctx.bucket("form", f"{form}/{kind.split('.')[0]}")
        ctx.nontrivial(json.dumps(sample, sort_keys=True) + form + kind)
        why = check_sample(sample, form, kind)
        if why:
            seen += 1
            if seen <= 6:
                ctx.violation(f"{form}:{kind}:{json.dumps(sample, sort_keys=True)}", f"{form} {kind}: {why}", {"sample": sample, "form": form, "kind": kind})

    for h in ctx.hints:
        run(h, "json", V2)
    for sample in colliding_samples():
        run(sample, rng.choice(["json", "yaml", "dict"]), rng.choice([V2, V2, V1]))
    for sample in coincidence_samples():
        for kind in (V2, V1):
            run(sample, "json", kind)
    for i in range(ctx.n(160, 3000)):
        sample = gen_object(rng)
        form = rng.choice(["json", "json", "yaml", "dict"])
        kind = rng.choice([V2, V2, V1, DC, TD])
        run(sample, form, kind)
    for i in range(ctx.n(30, 400)):
        n = rng.choice([1, 2, 3, 4])
        header = rng.sample([k for k in SAFE_KEYS if "\t" not in k], n)
        row = [rng.choice(["1", "a", "", "x y", "0.5", "true", "é"]) for _ in header]
        run(dict(zip(header, row)), "csv", rng.choice([V2, V1]))
    # header cells with blanks at either end (written the way "a, b, c" style files are) and quoted cells
    for header in ([" full name", "id"], ["id", " e-mail", "x "], ["  a", "b  ", " c "], ["id", "name"]):
        for kind in (V2, V1):
            run(dict(zip(header, ["1", "x", "y"][: len(header)])), "csv", kind)
    ctx.sample({"sample": gen_object(ctx.rng("sample"))})


def replay_finding(ctx, f):
    r = f["replay"]
    return check_sample(r["sample"], r["form"], r["kind"]) is not None


def replay(ctx, payload):
    r = payload.get("replay", payload)
    if "sample" not in r:
        print(json.dumps(payload, indent=1)[:3000])
        return 0
    why = check_sample(r["sample"], r["form"], r["kind"])
    print("replay:", why or "no violation")
    return 1 if why else 0
