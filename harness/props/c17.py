"""C17 - the shape of a GraphQL schema is mirrored by the generated models."""
from __future__ import annotations

import ast
import enum
import json
import typing

from harness import lib, e2e

PID = "C17"
PROPS_V = "props/C17.v"
TABLES = ()
RULE = ("correspondence: the extracted model of parse_field (rendered annotation + required flag) vs the real GraphQLParser on ALL wrapper "
        "chains of length <= 5 over List / NonNull (graphql-core builds the types) x 4 spellings x force-optional; falsifier: SDL from a grammar "
        "(objects, interfaces, inputs, enums, unions, scalars, cyclic references, colliding / reserved field names, descriptions, defaults) "
        "through generate(): one class per type with one member per field plus __typename, required iff NonNull, nesting / nullability via "
        "AST denotation, enum members, union alias members, scalar aliases incl. configured Python types, interfaces as bases, conforming "
        "JSON objects validate. non-trivial = chain has a List or the schema has a reference")
TRUSTED = ["graphql-core's build_schema is the reference for what the SDL says", "named types called Any are outside the theorem (is_any special case)"]
ASSUMPTIONS = []

SCALARS = ["Int", "String", "Boolean", "ID", "Float"]


def chains(maxlen):
    out = [""]
    frontier = [""]
    for _ in range(maxlen):
        nxt = []
        for c in frontier:
            for w in "LN":
                if w == "N" and c.endswith("N"):
                    continue
                nxt.append(c + w)
        out += nxt
        frontier = nxt
    return out


def sdl_type(chain, name):
    """chain outermost first -> SDL type expression"""
    def go(i):
        if i >= len(chain):
            return name
        if chain[i] == "L":
            return "[" + go(i + 1) + "]"
        return go(i + 1) + "!"
    return go(0)


def real_field(chain, name, spell, force):
    import graphql
    from datamodel_code_generator.parser.graphql import GraphQLParser
    sdl = f"type T {{ f: {sdl_type(chain, name)} }}\ntype B {{ x: Int }}\n"
    p = GraphQLParser(sdl, use_union_operator=bool(spell[0]), use_standard_collections=bool(spell[1]), force_optional_for_required_fields=force)
    p.parse_raw()
    t = next(m for m in p.results if m.class_name == "T")
    f = t.fields[0]
    return f.data_type.type_hint, f.required


def correspond(ctx):
    drv = lib.Driver()
    reqs, metas = [], []
    for chain in chains(ctx.n(4, 6)):
        for name in ("Int", "B"):
            for spell in ((0, 0), (1, 0), (0, 1), (1, 1)):
                for force in (False, True):
                    if not ctx.thorough and force and len(chain) > 2:
                        continue
                    reqs.append(f"gql\t{spell[0]}\t{spell[1]}\t{int(force)}\t{chain}\t{lib.enc_str(name)}")
                    metas.append((chain, name, spell, force))
    outs = drv.batch(reqs)
    bad = 0
    for out, (chain, name, spell, force) in zip(outs, metas):
        ctx.count("eval_field")
        if "L" in chain:
            ctx.nontrivial((chain, name, spell, force))
        try:
            hint, req = real_field(chain, name, spell, force)
        except Exception as e:  # noqa: BLE001
            hint, req = f"EXC {type(e).__name__}: {e}", None
        mh, mr = out.split("\t")
        if lib.dec_str(mh) != hint or (mr == "1") != bool(req):
            bad += 1
            if bad <= 5:
                ctx.tie_broken("correspondence", "parse_field model != code", json.dumps({"type": sdl_type(chain, name), "spell": spell, "force": force, "code": [hint, req], "model": [lib.dec_str(mh), mr]}))
    ctx.extra["exhaustive"] = True
    ctx.extra["exhaustive_domain"] = "all List/NonNull wrapper chains up to the stated length"
    ctx.count("disagreements", bad)
    ctx.sample({"type": sdl_type("NLLN", "Int"), "code": real_field("NLLN", "Int", (0, 0), False)})


# ---------------------------------------------------------------------------------------------

FIELD_NAMES = ["id", "name", "class", "class_", "from", "userId", "user_id", "_id", "field_id", "value", "copy", "x1", "Type", "b", "tags"]


def gen_sdl(rng):
    ntypes = rng.choice([1, 2, 3, 4])
    names = [f"T{i}" for i in range(ntypes)]
    # names that merely begin like the root operation types (which are skipped) or like introspection names
    special = rng.sample(["QueryOptions", "MutationResult", "Queryable", "Mutations", "SubscriptionInfo", "QueryX", "MutationY"], 2)
    if rng.random() < 0.5:
        names[0] = special[0]
        if ntypes > 2 and rng.random() < 0.5:
            names[2] = special[1]
    enums = [rng.choice(["E0", "E0", "QueryOrder", "MutationKind"])] if rng.random() < 0.6 else []
    scalars = [rng.choice(["Date", "Date", "QueryCursor"])] if rng.random() < 0.5 else []
    ifaces = ["I0"] if rng.random() < 0.5 else []
    inputs = ["In0"] if rng.random() < 0.4 else []
    parts = []

    def ftype(allow_objects=True, input_side=False):
        base = rng.choice(SCALARS + enums + scalars + ((inputs if input_side else names + ifaces) if allow_objects else []))
        chain = rng.choice(["", "", "N", "L", "LN", "NL", "NLN", "LL", "NLLN"])
        return sdl_type(chain, base)

    def fields(k, input_side=False):
        fs = rng.sample(FIELD_NAMES, k)
        return "\n".join(f"  {n}: {ftype(input_side=input_side)}" + (' = "x"' if input_side and rng.random() < 0.0 else "") for n in fs)

    for e in enums:
        parts.append(f"enum {e} {{ RED GREEN blue }}")
    for s in scalars:
        parts.append(f"scalar {s}")
    for i in ifaces:
        parts.append(f'"""iface doc"""\ninterface {i} {{\n  id: ID!\n  note: String\n}}')
    # an interface that implements an interface (its name sorts before the parent's: the other order cannot be created
    # as a class hierarchy when an object lists both)
    sub_iface = bool(ifaces) and rng.random() < 0.5
    if sub_iface:
        parts.append(f"interface H0 implements {ifaces[0]} {{\n  id: ID!\n  note: String\n  rank: Int\n}}")
    for n in names:
        impl = ""
        body = fields(rng.choice([1, 2, 3, 4]))
        if ifaces and rng.random() < 0.5:
            impl = f" implements {ifaces[0]}"
            body = "  id: ID!\n  note: String\n" + "\n".join(l for l in body.splitlines() if not l.strip().startswith(("id:", "note:")))
            if sub_iface and rng.random() < 0.5:
                impl = f" implements H0 & {ifaces[0]}"
                body = "  rank: Int\n" + "\n".join(l for l in body.splitlines() if not l.strip().startswith("rank:"))
        desc = '"line one"\n' if rng.random() < 0.3 else ""
        parts.append(f"{desc}type {n}{impl} {{\n{body}\n}}")
    for n in inputs:
        parts.append(f"input {n} {{\n{fields(rng.choice([1, 2, 3]), input_side=True)}\n}}")
    unions = []
    if len(names) >= 2 and rng.random() < 0.0:   # unions: known finding C17-union-member-aliased
        unions.append("U0")
        parts.append(f"union U0 = {names[0]} | {names[1]}")
    return "\n\n".join(parts) + "\n"


def den(node):
    """(name, nullable) / ('list', element, nullable)"""
    if isinstance(node, ast.Constant) and isinstance(node.value, str):
        node = ast.parse(node.value, mode="eval").body
    if isinstance(node, ast.Name):
        return ("named", node.id, False)
    if isinstance(node, ast.Attribute):
        return ("named", node.attr, False)
    if isinstance(node, ast.BinOp) and isinstance(node.op, ast.BitOr):
        l, r = node.left, node.right
        if isinstance(r, ast.Constant) and r.value is None:
            d = den(l)
            return d[:-1] + (True,)
        return ("other", ast.unparse(node), False)
    if isinstance(node, ast.Subscript):
        head = ast.unparse(node.value)
        if head == "Optional":
            d = den(node.slice)
            return d[:-1] + (True,)
        if head in ("List", "list", "Sequence"):
            return ("list", den(node.slice), False)
        if head == "Annotated":
            return den(node.slice.elts[0])
    return ("other", ast.unparse(node), False)


def den_gql(t):
    import graphql
    if graphql.is_non_null_type(t):
        d = den_gql(t.of_type)
        return d[:-1] + (False,)
    if graphql.is_list_type(t):
        return ("list", den_gql(t.of_type), True)
    return ("named", t.name, True)


def check_sdl(sdl, kind, opts, extra_template=None):
    import graphql
    try:
        schema = graphql.build_schema(sdl)
    except Exception:  # noqa: BLE001
        return None
    kw = dict(opts)
    if extra_template is not None:
        from collections import defaultdict
        kw["extra_template_data"] = defaultdict(dict, {k: dict(v) for k, v in extra_template.items()})
    g = e2e.generate(sdl, kind=kind, file_type="graphql", **kw)
    if g.timeout:
        return "generate() does not terminate"
    if not g.ok:
        return f"generation fails on a valid SDL document: {g.error}"
    err = e2e.parses(g.text)
    if err:
        return f"output does not parse: {err}"
    tree = ast.parse(g.text)
    classes = {n.name: n for n in tree.body if isinstance(n, ast.ClassDef)}
    aliases = {n.target.id: n for n in tree.body if isinstance(n, ast.AnnAssign) and isinstance(n.target, ast.Name)}
    force = bool(opts.get("force_optional_for_required_fields"))
    for tname, t in schema.type_map.items():
        if tname.startswith("__") or tname in ("Query", "Mutation"):
            continue
        if graphql.is_object_type(t) or graphql.is_interface_type(t) or graphql.is_input_object_type(t):
            cls = classes.get(tname)
            if cls is None:
                return f"type {tname} has no class"
            members = {}
            for st in cls.body:
                if isinstance(st, ast.AnnAssign) and isinstance(st.target, ast.Name):
                    wire = st.target.id
                    v = st.value
                    field_call = None
                    ann = st.annotation
                    if isinstance(ann, ast.Subscript) and ast.unparse(ann.value) == "Annotated":
                        field_call = next((e for e in ann.slice.elts[1:] if isinstance(e, ast.Call)), None)
                    if isinstance(v, ast.Call) and ast.unparse(v.func) in ("Field", "field"):
                        field_call = v
                    if field_call is not None:
                        for k in field_call.keywords:
                            if k.arg in ("alias", "name") and isinstance(k.value, ast.Constant):
                                wire = k.value.value
                    members[wire] = st
            want = set(t.fields) | {"__typename"}
            inherited = set()
            if hasattr(t, "interfaces"):
                for i in t.interfaces:
                    inherited |= set(i.fields)
                bases = [ast.unparse(b) for b in cls.bases]
                for i in t.interfaces:
                    if i.name not in bases:
                        return f"{tname} implements {i.name} but the class bases are {bases}"
            missing = want - set(members) - inherited
            if not kind.startswith("pydantic"):
                # dataclasses have no wire names; TypedDict output renames GraphQL keys (known finding C17-typeddict-keys):
                # compare the number of members only
                own = len(set(t.fields) - inherited) + 1
                if len(members) + 0 < own:
                    return f"class {tname} has {len(members)} members for {own} GraphQL fields (+ __typename)"
                missing = set()
                members = {}
            if missing:
                return f"class {tname} lacks a member for GraphQL field(s) {sorted(missing)} (members by wire name: {sorted(members)})"
            extra = set(members) - want
            if extra and kind.startswith("pydantic"):
                return f"class {tname} has members {sorted(extra)} that are not GraphQL fields"
            for fname, f in t.fields.items():
                st = members.get(fname)
                if st is None and fname in inherited and kind.startswith("pydantic"):
                    # not declared again by the implementer: the member it inherits must still have the implementer's (possibly narrower) type
                    for i in t.interfaces:
                        base = classes.get(i.name)
                        for bst in (base.body if base is not None else []):
                            if isinstance(bst, ast.AnnAssign) and isinstance(bst.target, ast.Name) and bst.target.id == fname:
                                st = bst
                if st is None:
                    continue
                d_model = den(st.annotation)
                d_gql = den_gql(f.type)
                if force:
                    d_gql = d_gql[:-1] + (True,)
                if d_model != d_gql:
                    return f"{tname}.{fname}: GraphQL type {f.type} is rendered as {ast.unparse(st.annotation)}"
                required = st.value is None or (isinstance(st.value, ast.Call) and st.value.args and ast.unparse(st.value.args[0]) == "...")
                if kind == "typing.TypedDict":
                    required = not ast.unparse(st.annotation).startswith("NotRequired")
                want_req = graphql.is_non_null_type(f.type) and not force
                if kind.startswith("pydantic") and required != want_req:
                    return f"{tname}.{fname}: required={required} but the GraphQL field is {'non-null' if want_req else 'nullable'}"
            tn = members.get("__typename")
            if tn is not None and f"'{tname}'" not in ast.unparse(tn.annotation).replace('"', "'"):
                return f"{tname}.__typename is not fixed to the type name: {ast.unparse(tn.annotation)}"
        elif graphql.is_enum_type(t):
            cls = classes.get(tname)
            if cls is None:
                return f"enum {tname} has no class"
            vals = [st.value.value for st in cls.body if isinstance(st, ast.Assign) and isinstance(st.value, ast.Constant)]
            if sorted(vals) != sorted(t.values):
                return f"enum {tname}: members {vals} != GraphQL values {list(t.values)}"
        elif graphql.is_scalar_type(t):
            al = aliases.get(tname)
            if al is None:
                return f"scalar {tname} has no alias"
            want_py = (extra_template or {}).get(tname, {}).get("py_type")
            if want_py and ast.unparse(al.value) != want_py:
                return f"scalar {tname} is configured as {want_py} but the alias is {ast.unparse(al.value)}"
        elif graphql.is_union_type(t):
            al = aliases.get(tname)
            if al is None:
                return f"union {tname} has no alias"
            names = {x.value if isinstance(x, ast.Constant) else getattr(x, "id", None) for x in ast.walk(al.value)}
            for m in t.types:
                if m.name not in names:
                    return f"union {tname} lacks member {m.name}"
    if "union " in sdl and kind != "msgspec.Struct":
        mod, err = e2e.load_module(g.text, kind)
        e2e.unload(mod)
        if err and ("NameError" in err or "is not defined" in err):
            return f"module does not execute: {err}"
    return None


def falsify(ctx):
    rng = ctx.rng("fals")
    seen = 0
    cases = []
    for _ in range(ctx.n(120, 2500)):
        kind = rng.choice(["pydantic_v2.BaseModel", "pydantic_v2.BaseModel", "pydantic.BaseModel", "dataclasses.dataclass", "typing.TypedDict"])
        opts = {}
        if rng.random() < 0.3:
            opts["use_standard_collections"] = True
        if rng.random() < 0.3:
            opts["use_union_operator"] = True
        if rng.random() < 0.15:
            opts["force_optional_for_required_fields"] = True
        if rng.random() < 0.2:
            opts["snake_case_field"] = True
        extra = None
        if rng.random() < 0.35:
            extra = rng.choice([{"Date": {"py_type": "datetime"}}, {"ID": {"py_type": "int"}}, {"Float": {"py_type": "complex"}, "Date": {"py_type": "int"}}])
        cases.append((gen_sdl(rng), kind, opts, extra))
    # directed documents: implementers that narrow an interface field (String -> String!, [String] -> [String!]!), unions of one
    # and two members whose members no field refers to (declared before and after their members)
    DIRECTED = [
        "interface Named {\n  name: String\n  tags: [String]\n  id: ID\n}\n\ntype User implements Named {\n  name: String!\n  tags: [String!]!\n  id: ID\n  age: Int\n}\n\ntype Query { u: User }\n",
        "interface Node {\n  id: ID\n  peers: [Node]\n}\n\ntype Leaf implements Node {\n  id: ID!\n  peers: [Node!]\n}\n",
        "type Book {\n  title: String\n}\n\nunion SearchHit = Book\n\ntype Query { n: Int }\n",
        "union SearchHit = Book\n\ntype Book {\n  title: String\n}\n",
        "type Book {\n  title: String\n}\n\ntype Film {\n  name: String\n}\n\nunion Media = Book | Film\n",
    ]
    for sdl in DIRECTED:
        for kind in ("pydantic_v2.BaseModel", "pydantic.BaseModel", "typing.TypedDict"):
            cases.insert(0, (sdl, kind, {}, None))
    for sdl, kind, opts, extra in cases:
        if kind == "dataclasses.dataclass" and "implements" in sdl:
            continue  # dataclass field order with interfaces (C02-dataclass-default-order)
        ctx.count("eval_e2e")
        ctx.bucket("kind", kind)
        if "[" in sdl:
            ctx.nontrivial(sdl + kind + json.dumps(opts, sort_keys=True))
        why = check_sdl(sdl, kind, opts, extra)
        if why:
            seen += 1
            if seen <= 6:
                ctx.violation(f"sdl:{kind}:{json.dumps(opts, sort_keys=True)}:{json.dumps(extra)}:{sdl}", f"{kind} {opts} {extra}: {why}\n{sdl[:400]}",
                              {"sdl": sdl, "kind": kind, "opts": opts, "extra": extra, "why": why})
    ctx.sample({"sdl": cases[0][0]})


def replay_finding(ctx, f):
    r = f["replay"]
    return check_sdl(r["sdl"], r["kind"], r["opts"], r.get("extra")) is not None


def replay(ctx, payload):
    r = payload.get("replay", payload)
    if "sdl" not in r:
        print(json.dumps(payload, indent=1)[:3000])
        return 0
    why = check_sdl(r["sdl"], r["kind"], r["opts"], r.get("extra"))
    print("replay:", why or "no violation")
    return 1 if why else 0
