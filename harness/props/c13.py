"""C13 - type annotations are well-formed and mean the same in every spelling."""
from __future__ import annotations

import ast
import itertools
import json

from harness import lib, e2e

PID = "C13"
PROPS_V = "props/C13.v"
TABLES = ()
RULE = ("correspondence: the extracted tree model of DataType.type_hint (and the is_optional flag rendering leaves behind) vs real "
        "DataType objects: ALL trees of depth <= 2 over 3 atoms / a literal / a reference with optional flags and containers (sampled "
        "in quick, exhaustive in thorough), random trees to depth 4, x 8 spelling vectors; falsifier: (a) the property itself on the real "
        "type_hint of generated trees - parses as an expression, no Optional directly inside Optional, None at most once per flattened union, "
        "same denotation in all 8 spellings; (b) schemas through generate() in all 8 spellings. non-trivial = tree has a union or an optional below the root")
TRUSTED = ["atoms are identifiers and literal strings are 'clean' (no quotes, brackets, commas, bars or the word None): the code edits rendered text, "
           "so other literal texts are a known finding", "is_func / kwargs (constrained types) and custom dict key types are outside the model"]
ASSUMPTIONS = ["the typing spelling leaves Optional[...] members of a union alone (modelled as the code does; the consequences are the refuted cases)"]

ATOMS = ["int", "str", "float"]
SPELLS = list(itertools.product([0, 1], repeat=3))


class T:
    """Python mirror of the Coq dt, used to build both the driver request and the real DataType."""

    def __init__(self, typ=None, children=(), lits=(), ref=None, opt=False, cont="n", key=None):
        self.typ, self.children, self.lits, self.ref, self.opt, self.cont, self.key = typ, list(children), list(lits), ref, opt, cont, key

    def enc(self):
        E = lib.enc_str
        parts = ["D", E(self.typ) if self.typ else "~", str(len(self.children))]
        for c in self.children:
            parts.append(c.enc())
        parts.append(str(len(self.lits)))
        for l in self.lits:
            if isinstance(l, bool):
                parts.append(f"b:{int(l)}")
            elif isinstance(l, int):
                parts.append("i:" + E(str(l)))
            else:
                parts.append("s:" + E(l))
        parts.append(E(self.ref) if self.ref else "~")
        parts.append("1" if self.opt else "0")
        parts.append(self.cont if not (self.cont == "d" and self.key) else "d:" + E(self.key))
        return " ".join(parts)

    def build(self, spell, refs):
        from datamodel_code_generator.types import DataType
        from datamodel_code_generator.reference import Reference
        uo, sc, gc = spell
        kw = dict(use_union_operator=bool(uo), use_standard_collections=bool(sc), use_generic_container=bool(gc), is_optional=self.opt,
                  is_list=self.cont == "l", is_set=self.cont == "s", is_dict=self.cont == "d")
        if self.typ:
            kw["type"] = self.typ
        if self.children:
            kw["data_types"] = [c.build(spell, refs) for c in self.children]
        if self.lits:
            kw["literals"] = list(self.lits)
        if self.ref:
            if self.ref not in refs:
                refs[self.ref] = Reference(path=self.ref, name=self.ref, original_name=self.ref)
            kw["reference"] = refs[self.ref]
        if self.cont == "d" and self.key:
            kw["dict_key"] = DataType(type=self.key)
        return DataType(**kw)

    def to_json(self):
        return {"typ": self.typ, "children": [c.to_json() for c in self.children], "lits": self.lits, "ref": self.ref, "opt": self.opt, "cont": self.cont, "key": self.key}

    @staticmethod
    def from_json(j):
        return T(j["typ"], [T.from_json(c) for c in j["children"]], j["lits"], j["ref"], j["opt"], j["cont"], j.get("key"))

    def interesting(self):
        return len(self.children) > 1 or any(c.opt or c.interesting() for c in self.children)


def leaves():
    out = [T(typ=a) for a in ATOMS] + [T(ref="Pet"), T(lits=["a", 1]), T(lits=[True])]
    # literal values that are equal in Python but distinct Literal members, repeated values, look-alike strings
    out += [T(lits=[1, True, "on"]), T(lits=[False, 0]), T(lits=[0, 1, False, True]), T(lits=["1", 1]), T(lits=["a", "a", "b"]), T(lits=["None", "a | b"]),
            T(lits=["1,2", "x,  y", "plain"]), T(lits=["a ,b", "[c, d]"])]
    return out


def rand_tree(rng, depth):
    if depth == 0 or rng.random() < 0.25:
        t = rng.choice(leaves())
        t = T(t.typ, [], t.lits, t.ref)
    else:
        n = rng.choice([1, 2, 2, 3])
        t = T(children=[rand_tree(rng, depth - 1) for _ in range(n)])
    t.opt = rng.random() < 0.35
    t.cont = rng.choice(["n", "n", "n", "l", "s", "d"])
    if t.cont == "d" and rng.random() < 0.2:
        t.key = "int"
    if t.typ == "Any":
        pass
    return t


def small_trees():
    """all trees of depth <= 2 over the leaves, optional flags and containers at the two upper levels (children: 1 or 2)"""
    L = leaves()
    lv1 = []
    for l in L[:4]:
        for opt in (False, True):
            for cont in ("n", "l"):
                lv1.append(T(l.typ, [], l.lits, l.ref, opt, cont))
    out = list(lv1)
    for kids in itertools.chain(((a,) for a in lv1), itertools.product(lv1[:10], repeat=2)):
        for opt in (False, True):
            for cont in ("n", "l", "d"):
                out.append(T(children=[T(k.typ, [], k.lits, k.ref, k.opt, k.cont) for k in kids], opt=opt, cont=cont))
    return out


def real_hint(t, spell):
    dt = t.build(spell, {})
    try:
        h = dt.type_hint
    except Exception as e:  # noqa: BLE001
        return f"EXC {type(e).__name__}", None
    return h, dt.is_optional


def correspond(ctx):
    rng = ctx.rng("corr")
    drv = lib.Driver()
    trees = small_trees()
    if not ctx.thorough:
        rng.shuffle(trees)
        trees = trees[:700]
    else:
        ctx.extra["exhaustive"] = True
    trees += [rand_tree(rng, rng.choice([2, 3, 4])) for _ in range(ctx.n(700, 12000))]
    reqs, metas = [], []
    for t in trees:
        spells = SPELLS if ctx.thorough else rng.sample(SPELLS, 3)
        for sp in spells:
            reqs.append(f"th\t{sp[0]}\t{sp[1]}\t{sp[2]}\t{t.enc()}")
            metas.append((t, sp))
    outs = drv.batch(reqs)
    bad = 0
    for (t, sp), out in zip(metas, outs):
        ctx.count("eval_hint")
        if t.interesting():
            ctx.nontrivial(t.enc() + str(sp))
        real, ropt = real_hint(t, sp)
        mh, mopt = out.split("\t") if "\t" in out else (out, "?")
        model = lib.dec_str(mh) if not mh.startswith("EXN") else mh
        if model != real or (ropt is not None and mopt != ("1" if ropt else "0")):
            bad += 1
            if bad <= 5:
                ctx.tie_broken("correspondence", "type_hint model != code", json.dumps({"tree": t.to_json(), "spell": sp, "code": [real, ropt], "model": [model, mopt]}), hint=t.to_json())
    ctx.count("disagreements", bad)
    ctx.sample({"tree": trees[-1].to_json(), "hint": real_hint(trees[-1], (0, 0, 0))[0]})


# ---------------------------------------------------------------------------------------------
# the property, on rendered text

CANON = {"List": "list", "Sequence": "list", "Set": "set", "FrozenSet": "set", "Dict": "dict", "Mapping": "dict"}


def den(node):
    """Denotation of an annotation AST, independent of spelling: nested tuples; unions are (frozenset of alternatives)."""
    if isinstance(node, ast.Constant):
        return ("none",) if node.value is None else ("const", repr(node.value))
    if isinstance(node, ast.Name):
        return ("name", CANON.get(node.id, node.id))
    if isinstance(node, ast.Attribute):
        return ("name", ast.unparse(node))
    if isinstance(node, ast.BinOp) and isinstance(node.op, ast.BitOr):
        return union([den(node.left), den(node.right)])
    if isinstance(node, ast.Subscript):
        head = ast.unparse(node.value)
        args = node.slice.elts if isinstance(node.slice, ast.Tuple) else [node.slice]
        if head == "Optional":
            return union([den(args[0]), ("none",)])
        if head == "Union":
            return union([den(a) for a in args])
        if head == "Literal":
            return ("literal", tuple(sorted(repr(a.value) for a in args)))
        return ("sub", CANON.get(head, head), tuple(den(a) for a in args))
    if isinstance(node, ast.Tuple):
        return ("tuple", tuple(den(a) for a in node.elts))
    return ("other", ast.dump(node))


def union(parts):
    flat = set()
    for p in parts:
        if p[0] == "union":
            flat |= set(p[1])
        else:
            flat.add(p)
    if len(flat) == 1:
        return next(iter(flat))
    return ("union", frozenset(flat))


def shape_problems(node):
    """Optional directly wrapping an optional; None mentioned more than once in one (flattened) union."""
    probs = []

    def alts(n):
        if isinstance(n, ast.BinOp) and isinstance(n.op, ast.BitOr):
            return alts(n.left) + alts(n.right)
        if isinstance(n, ast.Subscript):
            head = ast.unparse(n.value)
            args = n.slice.elts if isinstance(n.slice, ast.Tuple) else [n.slice]
            if head == "Optional":
                return alts(args[0]) + [None]
            if head == "Union":
                return [x for a in args for x in alts(a)]
        if isinstance(n, ast.Constant) and n.value is None:
            return [None]
        return [n]

    def is_unionish(n):
        return (isinstance(n, ast.BinOp) and isinstance(n.op, ast.BitOr)) or (isinstance(n, ast.Subscript) and ast.unparse(n.value) in ("Optional", "Union"))

    def walk(n, parent_unionish):
        if is_unionish(n):
            if not parent_unionish:
                a = alts(n)
                if sum(1 for x in a if x is None) > 1:
                    probs.append("None is mentioned more than once in one union: " + ast.unparse(n))
            if isinstance(n, ast.Subscript) and ast.unparse(n.value) == "Optional":
                inner = n.slice
                if isinstance(inner, ast.Subscript) and ast.unparse(inner.value) == "Optional":
                    probs.append("doubly wrapped optional: " + ast.unparse(n))
            for c in ast.iter_child_nodes(n):
                walk(c, True)
        else:
            for c in ast.iter_child_nodes(n):
                walk(c, False)

    walk(node, False)
    return probs


def check_hint_text(texts_by_spell):
    """texts_by_spell: {spell: annotation text}. Returns violation text or None."""
    dens = {}
    for sp, text in texts_by_spell.items():
        if text is None:
            continue
        if text == "":
            dens[sp] = ("empty",)
            continue
        try:
            node = ast.parse(text, mode="eval").body
        except SyntaxError as e:
            return f"{text!r} (spelling {sp}) is not a valid expression: {e.msg}"
        if text.count("[") != text.count("]"):
            return f"{text!r}: unbalanced brackets"
        p = shape_problems(node)
        if p:
            return f"spelling {sp}: {p[0]}"
        dens[sp] = den(node)
    vals = list(dens.items())
    for sp, d in vals[1:]:
        if d != vals[0][1]:
            return f"denotation differs between spellings: {vals[0][0]} -> {texts_by_spell[vals[0][0]]!r}, {sp} -> {texts_by_spell[sp]!r}"
    return None


def tree_in_guard(t, depth=0, under_union=False, parent_opt=False):
    """Outside: (typing spelling) an optional node directly under an optional or union node - known findings C13-double-optional."""
    multi = len(t.children) > 1
    for c in t.children:
        if c.opt and (multi or (t.opt and len(t.children) == 1 and t.cont == "n")):
            return False
        if not c.opt and len(c.children) == 1 and c.cont == "n":
            # transparent single-child wrappers (any number of them): the optional of what they wrap surfaces here
            if surfaces_opt(c.children[0]) and (multi or t.opt):
                return False
        if not tree_in_guard(c):
            return False
    if len(t.children) == 1 and t.cont == "n" and t.opt and not tree_in_guard_single(t.children[0]):
        return False
    return True


def surfaces_opt(c):
    return c.opt or (len(c.children) == 1 and c.cont == "n" and surfaces_opt(c.children[0]))


def tree_in_guard_single(c):
    # Optional[ <something that renders as Optional[...] or a union containing Optional> ]
    if c.opt:
        return False
    if len(c.children) == 1 and c.cont == "n":
        return tree_in_guard_single(c.children[0])
    return True


def check_tree(t):
    texts = {}
    for sp in SPELLS:
        h, _ = real_hint(t, sp)
        if h is not None and h.startswith("EXC"):
            return f"type_hint raises {h}"
        texts[sp] = h
    return check_hint_text(texts)


SCHEMAS = [
    {"type": "object", "title": "M", "properties": {
        "a": {"anyOf": [{"type": "string"}, {"type": "integer"}, {"type": "null"}]},
        "b": {"type": "array", "items": {"type": ["integer", "null"]}},
        "c": {"type": "object", "additionalProperties": {"anyOf": [{"type": "number"}, {"type": "array", "items": {"type": "string"}}]}},
        "d": {"oneOf": [{"type": "array", "items": {"anyOf": [{"type": "integer"}, {"type": "string"}]}},
                        {"type": "object", "additionalProperties": {"anyOf": [{"type": "integer"}, {"type": "string"}]}}]},
        "d2": {"oneOf": [{"type": "array", "items": {"anyOf": [{"type": "integer"}, {"type": "string"}]}},
                         {"type": "object", "additionalProperties": {"anyOf": [{"type": "integer"}, {"type": "string"}]}}]},
        "e": {"type": ["string", "null"], "enum": ["x", "y", None]},
        "f": {"type": "array", "items": {"anyOf": [{"type": "integer"}, {"type": ["integer", "null"], "format": "int64"}]}},
    }, "required": ["a", "d"]},
    {"definitions": {"Nick": {"type": ["string", "null"]}, "Tag": {"type": "string", "minLength": 1}},
     "type": "object", "title": "M", "properties": {"nick": {"$ref": "#/definitions/Nick"}, "tags": {"type": "array", "items": {"$ref": "#/definitions/Tag"}},
                                                       "u": {"anyOf": [{"$ref": "#/definitions/Tag"}, {"type": "integer"}]}, "req": {"$ref": "#/definitions/Nick"}},
     "required": ["req"]},
    {"definitions": {"N": {"type": ["string", "null"]}}, "type": "object", "title": "M",
     "properties": {"p": {"anyOf": [{"$ref": "#/definitions/N"}]}, "q": {"anyOf": [{"type": ["string", "null"]}, {"anyOf": [{"type": "integer"}, {"type": "null"}]}]}}},
    # required and non-required nullable containers of nullable elements; class names that contain "None" / begin with "Optional"
    {"definitions": {"OptionalExtras": {"type": "object", "properties": {"x": {"type": "integer"}}}, "NoneLike": {"type": "object", "properties": {"y": {"type": "integer"}}},
                     "Unions": {"type": "string", "enum": ["a", "b"]}},
     "type": "object", "title": "M",
     "properties": {"tags": {"type": ["array", "null"], "items": {"type": ["string", "null"]}},
                    "matrix": {"type": ["array", "null"], "items": {"type": "array", "items": {"type": ["integer", "null"]}}},
                    "m": {"type": ["object", "null"], "additionalProperties": {"type": ["number", "null"]}},
                    "opt_tags": {"type": ["array", "null"], "items": {"type": ["string", "null"]}},
                    "nonePolicy": {"type": ["string", "null"], "enum": ["x", "y"]},
                    "optional_extras": {"$ref": "#/definitions/OptionalExtras"}, "req_extras": {"$ref": "#/definitions/OptionalExtras"},
                    "none_like": {"$ref": "#/definitions/NoneLike"}, "none_likes": {"type": "array", "items": {"$ref": "#/definitions/NoneLike"}},
                    "unions": {"anyOf": [{"$ref": "#/definitions/Unions"}, {"type": "null"}]}},
     "required": ["tags", "matrix", "m", "nonePolicy", "req_extras"]},
]


def annotations_of(text):
    out = {}
    tree = ast.parse(text)
    for cls in [n for n in tree.body if isinstance(n, ast.ClassDef)]:
        for st in cls.body:
            if isinstance(st, ast.AnnAssign) and isinstance(st.target, ast.Name):
                out[f"{cls.name}.{st.target.id}"] = ast.unparse(st.annotation)
    return out


def check_schema(i, extra):
    per_field = {}
    for sp in SPELLS:
        g = e2e.generate(json.dumps(SCHEMAS[i]), kind="pydantic_v2.BaseModel", use_union_operator=bool(sp[0]), use_standard_collections=bool(sp[1]),
                         use_generic_container_types=bool(sp[2]), **extra)
        if g.timeout:
            return "generate() does not terminate"
        if not g.ok:
            return None
        err = e2e.parses(g.text)
        if err:
            return f"spelling {sp}: output does not parse: {err}"
        for k, v in annotations_of(g.text).items():
            per_field.setdefault(k, {})[sp] = v
    for k, texts in per_field.items():
        why = check_hint_text(texts)
        if why:
            return f"{k}: {why}"
    return None


def falsify(ctx):
    rng = ctx.rng("fals")
    trees = []
    for h in ctx.hints[:10]:
        if isinstance(h, dict):
            trees.append(T.from_json(h))
    trees += [rand_tree(rng, rng.choice([1, 2, 3])) for _ in range(ctx.n(500, 8000))]
    seen = 0
    for t in trees:
        if not tree_in_guard(t):
            ctx.count("outside_guard")
            continue
        ctx.count("eval_oracle")
        why = check_tree(t)
        if why:
            seen += 1
            if seen <= 6:
                ctx.violation("tree:" + t.enc(), f"type tree {json.dumps(t.to_json())}: {why}", {"tree": t.to_json(), "why": why})
    for i in range(len(SCHEMAS)):
        for extra in ({}, {"collapse_root_models": True}, {"field_constraints": True}):
            if i == 2:
                continue  # known finding C13-double-optional-schema (only replayed)
            ctx.count("eval_e2e")
            why = check_schema(i, extra)
            if why:
                ctx.violation(f"schema:{i}:{sorted(extra)}", f"schema {i} {extra}: {why}", {"schema": i, "extra": extra, "why": why})
    ctx.sample({"tree": trees[-1].to_json()})


def replay_finding(ctx, f):
    r = f["replay"]
    if "tree" in r:
        return check_tree(T.from_json(r["tree"])) is not None
    return check_schema(r["schema"], r["extra"]) is not None


def replay(ctx, payload):
    r = payload.get("replay", payload)
    if "tree" in r:
        why = check_tree(T.from_json(r["tree"]))
    elif "schema" in r:
        why = check_schema(r["schema"], r["extra"])
    else:
        print(json.dumps(payload, indent=1)[:3000])
        return 0
    print("replay:", why or "no violation")
    return 1 if why else 0
