"""C04 - constraints stated in the schema are enforced by the generated model."""
from __future__ import annotations

import ast
import itertools
import json

from harness import lib, e2e, schemasem as ss

PID = "C04"
PROPS_V = "props/C04.v"
TABLES = ("ConstraintTables",)
RULE = ("correspondence: the extracted normalize/translate model vs the keyword arguments the real generator writes for an integer member "
        "(conint(...) and Field(...) styles, pydantic v1 and v2) over ALL combinations of {absent, whole, half} lower/upper bounds x "
        "{absent, draft-4 true/false, draft-6 number} exclusive flags x multipleOf, plus sat_model vs real pydantic on values around the bounds; "
        "falsifier: documents from the supported subset x {v1, v2} x {constrained types, field constraints, annotated, strict types} - the JSON "
        "Schema pydantic reports must carry every keyword of the input at the same place, and every instance that violates exactly one "
        "constraint (checked with the jsonschema package) must be rejected. non-trivial = schema has a constraint keyword")
TRUSTED = ["the jsonschema package (Draft 7) decides which mutated instances are invalid", "pydantic conforms to the JSON Schema it reports (sampled by the accept/reject runs)",
           "binary floating point multipleOf is excluded; number bounds are compared as values only in the reported-schema check"]
ASSUMPTIONS = ["theorem for whole-number bounds; non-integral bounds on integer members are the refuted case (known finding)"]


def extract_kwargs(text):
    """keyword arguments of the member a of class M: from conint(...)/Field(...)"""
    tree = ast.parse(text)
    cls = next(n for n in tree.body if isinstance(n, ast.ClassDef) and n.name == "M")
    st = next(x for x in cls.body if isinstance(x, ast.AnnAssign) and x.target.id == "a")
    kws = {}
    for node in list(ast.walk(st.annotation)) + (list(ast.walk(st.value)) if st.value is not None else []):
        if isinstance(node, ast.Call):
            for k in node.keywords:
                if k.arg in ("ge", "le", "gt", "lt", "multiple_of"):
                    try:
                        kws[k.arg] = ast.literal_eval(k.value)
                    except Exception:  # noqa: BLE001
                        kws[k.arg] = ast.unparse(k.value)
        if isinstance(node, ast.Name) and node.id in ("PositiveInt", "NegativeInt", "NonNegativeInt", "NonPositiveInt"):
            kws.update({"PositiveInt": {"gt": 0}, "NegativeInt": {"lt": 0}, "NonNegativeInt": {"ge": 0}, "NonPositiveInt": {"le": 0}}[node.id])
    return kws


def half(b):
    return b / 2 if b % 2 else b // 2


def correspond(ctx):
    drv = lib.Driver()
    rng = ctx.rng("corr")
    bounds = [None, 2, 3, 10, -4]           # half units: 1, 1.5, 5, -2
    upper = [None, 20, 21]                  # 10, 10.5
    excl = ["~", "t", "f", 6, 7]            # absent, draft-4 true/false, draft-6 3 / 3.5
    cases = []
    for mn, mx, xmn, xmx, mu in itertools.product(bounds, upper, excl, excl, [None, 5]):
        cases.append((mn, mx, xmn, xmx, mu))
    if not ctx.thorough:
        rng.shuffle(cases)
        cases = cases[:260]
    else:
        ctx.extra["exhaustive"] = True
    bad = 0
    for mn, mx, xmn, xmx, mu in cases:
        sch = {"type": "integer"}
        if mn is not None:
            sch["minimum"] = half(mn)
        if mx is not None:
            sch["maximum"] = half(mx)
        for key, x in (("exclusiveMinimum", xmn), ("exclusiveMaximum", xmx)):
            if x == "t":
                sch[key] = True
            elif x == "f":
                sch[key] = False
            elif x != "~":
                sch[key] = half(x)
        if mu is not None:
            sch["multipleOf"] = mu
        doc = {"title": "M", "type": "object", "properties": {"a": sch}, "required": ["a"]}
        v = rng.choice([0, 1, 2, 3, 4, 5, 10, 11, -2, -3])
        f = lambda b: "~" if b is None else str(b)
        out = drv.batch([f"constr\t{f(mn)}\t{f(mx)}\t{xmn}\t{xmx}\t{f(mu)}\t{v}"])[0]
        for kind, opts in (("pydantic_v2.BaseModel", {}), ("pydantic_v2.BaseModel", {"field_constraints": True}), ("pydantic.BaseModel", {}),
                           ("pydantic.BaseModel", {"field_constraints": True, "use_annotated": True})):
            ctx.count("eval_constr")
            ctx.nontrivial((mn, mx, xmn, xmx, mu, kind, json.dumps(opts)))
            g = e2e.generate(json.dumps(doc), kind=kind, **opts)
            if out == "KEYERROR":
                if g.ok:
                    bad += 1
                    ctx.tie_broken("correspondence", "model: KeyError in the pre-validator, code generates", json.dumps(sch))
                continue
            if not g.ok:
                bad += 1
                if bad <= 4:
                    ctx.tie_broken("correspondence", f"code fails ({g.error}) where the model normalises", json.dumps(sch), hint=sch)
                continue
            mk = dict(zip(("ge", "le", "gt", "lt", "multiple_of"), out.split("\t")[0].split(",")))
            model = {k: int(x) for k, x in mk.items() if x != "~"}
            real = extract_kwargs(g.text)
            if model != real:
                bad += 1
                if bad <= 5:
                    ctx.tie_broken("correspondence", f"keyword arguments for {json.dumps(sch)} ({kind}, {opts}): code {real}, model {model}", "", hint=sch)
                continue
            # semantics of the keyword arguments: sat_model vs pydantic
            if kind == "pydantic_v2.BaseModel" and not opts:
                b, err = ss.build(doc.copy() | {"title": "Root"}, kind)
                if b is not None:
                    try:
                        ok, _ = b.accepts({"a": v})
                        if ok != (out.split("\t")[1] == "1"):
                            bad += 1
                            ctx.tie_broken("correspondence", f"sat_model says {out.split(chr(9))[1]} for a={v} under {model}, pydantic says {ok}", json.dumps(sch))
                    finally:
                        b.close()
    ctx.count("disagreements", bad)
    ctx.sample({"schema": {"type": "integer", "minimum": 1.5, "exclusiveMaximum": True, "maximum": 10}})


# ---------------------------------------------------------------------------------------------


def has_non_integral_int_bound(doc):
    def walk(s):
        if isinstance(s, dict):
            if s.get("type") == "integer" and any(isinstance(s.get(k), float) and s[k] != int(s[k]) for k in ("minimum", "maximum", "exclusiveMinimum", "exclusiveMaximum")):
                return True
            return any(walk(v) for v in s.values())
        if isinstance(s, list):
            return any(walk(v) for v in s)
        return False
    return walk(doc)


def check_document(doc, kind, opts, rng):
    b, err = ss.build(doc, kind, **opts)
    if err:
        return err if "does not" in err else None
    if b is None:
        return None
    try:
        # (1) reported schema carries every keyword
        rep = b.json_schema()
        want, got = ss.norm_input(doc), ss.norm_reported(rep)
        for ptr, kws in want.items():
            for k, v in kws.items():
                g = got.get(ptr, {}).get(k)
                if k in ("minimum", "maximum", "exclusiveMinimum", "exclusiveMaximum") and g is not None and float(g) == float(v):
                    continue
                if k == "pattern" and g is not None:
                    continue
                if k == "enum" and g is None and got.get(ptr, {}).get("const") is not None:
                    continue
                if k == "const" and g is None and got.get(ptr, {}).get("enum") == sorted([repr(v)]):
                    continue
                if g != v:
                    return f"keyword {k}={v!r} at {ptr or '/'} is reported by the generated model as {g!r}"
        # (2) violating instances are rejected
        for _ in range(3):
            try:
                inst = ss.valid_instance(rng, doc, doc)
            except ss.NoInstance:
                break
            if not ss.reference_valid(doc, inst):
                continue
            ok, why = b.accepts(inst)
            if not ok:
                continue  # acceptance is C03's subject
            for what, bad in ss.mutations(rng, doc, doc, inst):
                if ss.reference_valid(doc, bad):
                    continue
                acc, _ = b.accepts(bad)
                if acc:
                    return f"instance violating one constraint ({what}) is accepted: {json.dumps(bad)[:200]}"
        return None
    finally:
        b.close()


def required_nullable(doc):
    def walk(s):
        if isinstance(s, dict):
            req = set(s.get("required", []) if isinstance(s.get("required"), list) else [])
            for p, ps in (s.get("properties") or {}).items():
                if p in req and isinstance(ps, dict) and ((isinstance(ps.get("type"), list) and "null" in ps["type"]) or ss.admits_null_alt(ps)):
                    return True
            return any(walk(v) for v in s.values())
        if isinstance(s, list):
            return any(walk(v) for v in s)
        return False
    return walk(doc)


def const_required(doc):
    def walk(s):
        if isinstance(s, dict):
            req = set(s.get("required", []) if isinstance(s.get("required"), list) else [])
            for p, ps in (s.get("properties") or {}).items():
                if p in req and isinstance(ps, dict) and "const" in ps:
                    return True
            return any(walk(v) for v in s.values())
        if isinstance(s, list):
            return any(walk(v) for v in s)
        return False
    return walk(doc)


def nested_constraints(doc, opts):
    """minItems/maxItems on an array that is itself the items of an array; with field_constraints: any constraint below items"""
    CON = ("minimum", "maximum", "exclusiveMinimum", "exclusiveMaximum", "multipleOf", "minLength", "maxLength", "pattern", "minItems", "maxItems")

    def walk(s, under_items):
        if isinstance(s, dict):
            if under_items and (s.get("type") == "array" and ("minItems" in s or "maxItems" in s)):
                return True
            if under_items and "const" in s:
                return True  # C04-const-in-items: const inside array items / anyOf members is dropped
            for k, v in s.items():
                if walk(v, under_items or k in ("items", "additionalProperties", "anyOf")):
                    return True
        elif isinstance(s, list):
            return any(walk(v, under_items) for v in s)
        return False
    return walk(doc, False)


def strict_scalar_constrained(doc):
    CON = ("minimum", "maximum", "exclusiveMinimum", "exclusiveMaximum", "multipleOf", "minLength", "maxLength", "pattern")

    def walk(s):
        if isinstance(s, dict):
            t = s.get("type")
            ts = t if isinstance(t, list) else [t]
            if any(x in ("string", "integer", "number", "boolean") for x in ts) and any(k in s for k in CON):
                return True
            return any(walk(v) for v in s.values())
        if isinstance(s, list):
            return any(walk(v) for v in s)
        return False
    return walk(doc)


STRICT = ["str", "int", "float", "bool"]


def renamed_members(doc):
    import keyword
    names = set()

    def walk(s):
        if isinstance(s, dict):
            names.update(s.get("properties") or {})
            for v in s.values():
                walk(v)
        elif isinstance(s, list):
            for v in s:
                walk(v)
    walk(doc)
    return any((not n.isidentifier()) or keyword.iskeyword(n) or n.startswith("_") or n[0].isupper() for n in names)


def required_of_inherited(doc):
    """an allOf whose required list (own or in a sibling branch) names a member declared only in a $ref'd parent"""
    def walk(s):
        if isinstance(s, dict):
            if "allOf" in s:
                local, req, inherited = set((s.get("properties") or {})), list(s.get("required", [])), set()
                for part in s["allOf"]:
                    if "$ref" in part:
                        inherited |= set(ss.resolve(doc, part).get("properties", {}))
                    else:
                        local |= set(part.get("properties", {}))
                        req += part.get("required", [])
                if any(r in inherited and r not in local for r in req):
                    return True
            return any(walk(v) for v in s.values())
        if isinstance(s, list):
            return any(walk(v) for v in s)
        return False
    return walk(doc)


def in_known_class(doc, kind, opts):
    text = json.dumps(doc)
    flat = ss.flatten(doc)
    if required_nullable(flat):
        return True  # C05-required-nullable-v1/v2: a required member of type [T, null] is not required in the output
    if has_non_integral_int_bound(doc):
        return True  # C04-int-truncation
    if ss.self_referencing_constrained_member(doc):
        return True  # C04-self-reference-drops-constraints
    if ss.overridden_required_member(doc):
        return True  # C04-required-overridden-member
    if required_of_inherited(doc):
        return True  # C04-required-inherited: required stated in the child for a member declared in the parent is lost
    if opts.get("field_constraints") and '"additionalProperties": {' in text:
        return True  # C04-dict-value-constraints: constraints on dict values are dropped with field_constraints
    if kind == "pydantic.BaseModel" and const_required(flat):
        return True  # C04-const-required-v1: a required const member gets its value as default in v1-style output
    if nested_constraints(doc, opts):
        return True  # C04-nested-array-constraints / C04-item-constraints-field-constraints
    if kind == "pydantic.BaseModel" and opts.get("use_annotated") and renamed_members(doc):
        return True  # C04-v1-annotated-alias-lost: pydantic v1 drops Field(alias=...) inside Annotated when the annotation is a forward reference
    if opts.get("strict_types") and opts.get("field_constraints") and strict_scalar_constrained(doc):
        return True  # C04-strict-types-field-constraints (a scalar's own constraints are dropped with --strict-types + --field-constraints)
    return False


NAMES = ["id", "name", "first-name", "class", "value", "count", "tags", "x_y", "Self", "data", "n1", "kind", "_id", "camelCase", "schema", "1st"]


def composition_sweep(rng):
    """every member name of the pool x every way of stating properties/required (side by side, sibling allOf branches, inherited)"""
    for nm in NAMES:
        other = "age" if nm != "age" else "size"
        props = {nm: rng.choice([{"type": "string"}, {"type": "integer", "minimum": 0}]), other: {"type": "integer"}}
        yield {"title": "Root", "type": "object", "properties": props, "required": [nm], "definitions": {}}
        yield {"title": "Root", "allOf": [{"type": "object", "properties": props}, {"required": [nm]}], "definitions": {}}
        yield {"title": "Root", "allOf": [{"$ref": "#/definitions/B"}, {"type": "object", "properties": {other: props[other]}}, {"required": [other]}],
               "definitions": {"B": {"type": "object", "properties": {nm: props[nm]}, "required": [nm]}}}
        yield {"title": "Root", "allOf": [{"$ref": "#/definitions/B"}, {"required": [nm]}],
               "definitions": {"B": {"type": "object", "properties": props}}}


def container_sweep():
    """every scalar item type x item counts on the container x {strict types, strict types + field constraints, plain} x v1/v2"""
    for t in ("string", "integer", "number", "boolean"):
        doc = {"title": "Root", "type": "object", "definitions": {}, "required": ["a"],
               "properties": {"a": {"type": "array", "items": {"type": t}, "minItems": 1, "maxItems": 3},
                              "m": {"type": "object", "additionalProperties": {"type": t}}}}
        for kind in ("pydantic_v2.BaseModel", "pydantic.BaseModel"):
            for opts in ({"strict_types": STRICT}, {"strict_types": STRICT, "field_constraints": True}, {"field_constraints": True}, {}):
                yield doc, kind, opts


def falsify(ctx):
    rng = ctx.rng("fals")
    seen = 0
    sweep = list(composition_sweep(rng))
    if not ctx.thorough:
        sweep = rng.sample(sweep, 24)
    fixed = list(container_sweep())
    if not ctx.thorough:
        fixed = rng.sample(fixed, 12)
    sweep = fixed + sweep
    for i in range(ctx.n(90, 1500) + len(sweep)):
        doc = sweep[i] if i < len(sweep) else ss.gen_document(rng)
        kind = rng.choice(["pydantic_v2.BaseModel", "pydantic_v2.BaseModel", "pydantic.BaseModel"])
        opts = rng.choice([{}, {}, {"field_constraints": True}, {"field_constraints": True, "use_annotated": True}, {"snake_case_field": True}, {"use_standard_collections": True},
                          {"strict_types": STRICT}, {"strict_types": STRICT, "field_constraints": True}])
        if isinstance(doc, tuple):
            doc, kind, opts = doc
        if in_known_class(doc, kind, opts):
            ctx.count("outside_guard")
            continue
        ctx.count("eval_e2e")
        ctx.bucket("kind", kind)
        if any(k in json.dumps(doc) for k in ss.KEYWORDS):
            ctx.nontrivial(json.dumps(doc, sort_keys=True) + kind + json.dumps(opts, sort_keys=True))
        why = check_document(doc, kind, opts, rng)
        if why:
            seen += 1
            if seen <= 6:
                ctx.violation(f"doc:{kind}:{json.dumps(opts, sort_keys=True)}:{json.dumps(doc, sort_keys=True)}", f"{kind} {opts}: {why}",
                              {"doc": doc, "kind": kind, "opts": opts, "why": why})
    ctx.sample({"doc": ss.gen_document(ctx.rng('sample'))})


def replay_finding(ctx, f):
    r = f["replay"]
    return check_document(r["doc"], r["kind"], r["opts"], lib.rng_for(0, "replay")) is not None


def replay(ctx, payload):
    r = payload.get("replay", payload)
    if "doc" not in r:
        print(json.dumps(payload, indent=1)[:3000])
        return 0
    why = check_document(r["doc"], r["kind"], r["opts"], lib.rng_for(0, "replay"))
    print("replay:", why or "no violation")
    return 1 if why else 0
