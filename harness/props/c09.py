"""C09 - enumerations keep exactly the schema's set of values."""
from __future__ import annotations

import ast
import enum
import json
import typing

from harness import lib, e2e

PID = "C09"
PROPS_V = "props/C09.v"
TABLES = ("UnicodeTables", "BaseModelAttrs", "EscapeTables")
RULE = ("correspondence: the extracted model of parse_enum (member names, literals, nullable flag) and of Enum.find_member vs the "
        "real JsonSchemaParser on enum lists over strings from the escape-relevant alphabet, ints, floats, bools, null, mixtures, "
        "sanitisation collisions, mro/name/value, x capitalise-enum-members, type keyword, x-enum-varnames; falsifier: the exec'd "
        "Enum classes / Literal types must hold exactly the non-null schema values (type and content), default rendered as member. "
        "non-trivial = list has a non-identifier value or a collision")
TRUSTED = ["Python's Enum aliases members with equal values (1, 1.0, True): the falsifier's generator keeps values pairwise unequal "
           "under Python equality; that aliasing is a property of the Enum class, recorded as a known finding",
           "repr() of int/float/bool is a literal that evaluates to the same value"]
ASSUMPTIONS = ["special_field_name_prefix satisfies prefix_ok (see C07)"]

STRS = ["a", "b c", "a'b", 'q"', "back\\slash", "new\nline", "", "mro", "name", "value", "class", "1x", "A", "a", "é", "x-y", "x_y", "None", "\0", "tab\t"]


def enc_jv(v):
    if v is None:
        return "n"
    if isinstance(v, bool):
        return f"b:{int(v)}"
    if isinstance(v, int):
        return f"i:{v}"
    if isinstance(v, float):
        return "f:" + lib.enc_str(repr(v))
    return "s:" + lib.enc_str(v)


def real_parse_enum(values, typ, varnames, cap, probe=None):
    """Run the real parser; returns (nullable, [(member name, literal)], find_member result)"""
    import datamodel_code_generator as d
    from datamodel_code_generator.parser.jsonschema import JsonSchemaParser
    from datamodel_code_generator.model.enum import Enum
    sch = {"title": "E", "enum": values}
    if typ is not None:
        sch["type"] = typ
    if varnames is not None:
        sch["x-enum-varnames"] = varnames
    p = JsonSchemaParser(json.dumps(sch), capitalise_enum_members=cap)
    p.parse_raw()
    en = [m for m in p.results if isinstance(m, Enum)]
    if len(en) != 1:
        return None
    e = en[0]
    members = []
    for f in e.fields:
        dv = f.default
        if isinstance(dv, str):
            lit = "q:" + lib.enc_str(dv[1:-1]) if dv.startswith("'") else "r:s?" + dv
        else:
            lit = "r:" + enc_jv(dv)
        members.append((f.name, lit))
    nullable = len([m for m in p.results if not isinstance(m, Enum)]) > 0
    fm = "-"
    if probe is not None:
        r = e.find_member(probe)
        fm = "NONE" if r is None else lib.enc_str(r.field.name)
    return nullable, members, fm


def gen_values(rng):
    kind = rng.choice(["str", "str", "int", "mixed", "float", "bool", "strnull", "collide"])
    if kind == "str":
        vs = rng.sample(STRS, rng.choice([1, 2, 3, 5]))
    elif kind == "int":
        vs = rng.sample([0, 1, 2, -1, 10, 255, -300], rng.choice([1, 2, 4]))
    elif kind == "float":
        vs = rng.sample([0.5, 1.5, -2.25, 100.125, 3.0], rng.choice([1, 2, 3]))  # exponent-form floats: known finding C09-exponent-float
    elif kind == "bool":
        vs = rng.sample([True, False], rng.choice([1, 2]))
    elif kind == "strnull":
        vs = rng.sample(STRS, rng.choice([1, 2, 3])) + [None]
        rng.shuffle(vs)
    elif kind == "collide":
        vs = rng.choice([["a b", "a_b", "a-b"], ["A", "a"], ["x", "x_", "x__1"], ["1", "_1", "field_1"], ["mro", "mro_"], ["", "_", "__"]])
    else:
        vs = rng.sample(["a", "b'", 1, 2, 2.5, True, None, "1"], rng.choice([2, 3, 4]))
    out = []
    for v in vs:
        if not any(type(v) is type(x) and v == x for x in out):
            out.append(v)
    return out


def correspond(ctx):
    rng = ctx.rng("corr")
    drv = lib.Driver()
    cases = []
    for _ in range(ctx.n(600, 8000)):
        vs = gen_values(rng)
        if all(isinstance(v, str) or v is None for v in vs):
            typ = rng.choice(["string", "string", None])
        elif all(isinstance(v, int) and not isinstance(v, bool) for v in vs):
            typ = rng.choice(["integer", None])
        elif all(isinstance(v, float) for v in vs):
            typ = rng.choice(["number", None])
        elif all(isinstance(v, bool) for v in vs):
            typ = rng.choice(["boolean", None])
        else:
            typ = rng.choice([None, "string"]) if rng.random() < 0.3 else None
        cap = rng.random() < 0.3
        n_members = len([v for v in vs if not (v is None and typ == "string")])
        varnames = [f"V{i}" if i % 2 else f"v-{i}" for i in range(n_members)] if rng.random() < 0.15 else None
        probe = rng.choice(vs + [None, "zzz"]) if rng.random() < 0.6 else None
        if isinstance(probe, str) and any(ord(c) < 32 or c in "\\\x7f" for c in probe):
            probe = None  # find_member's second comparison (field.default == repr(value)) is not modelled: escapes coincide there
        if probe is None:
            probe_tok = "-"
        else:
            probe_tok = enc_jv(probe)
        cases.append((vs, typ, varnames, cap, probe, probe_tok))
    reqs = []
    for vs, typ, varnames, cap, probe, probe_tok in cases:
        o = f"0\t-\t{lib.enc_str('field')}\t0\t{int(cap)}\t0\t-"
        ty = "string" if typ == "string" else ("-" if typ is None else lib.enc_str(typ))
        vn = "-" if varnames is None else ";".join(lib.enc_str(x) for x in varnames)
        reqs.append(f"penum\t{o}\t{ty}\t{vn}\t{';'.join(enc_jv(v) for v in vs)}\t{probe_tok}")
    outs = drv.batch(reqs)
    bad = 0
    for (vs, typ, varnames, cap, probe, probe_tok), out in zip(cases, outs):
        ctx.count("eval_enum")
        ctx.bucket("n", len(vs))
        ctx.bucket("type", str(typ))
        if any(isinstance(v, str) and not v.isidentifier() for v in vs) or len(vs) > 1:
            ctx.nontrivial(json.dumps([vs, typ, varnames, cap]))
        try:
            real = lib.call_with_timeout(real_parse_enum, 5.0, vs, typ, varnames, cap, probe if probe_tok != "-" else None)
        except Exception as e:  # noqa: BLE001
            real = f"EXC {type(e).__name__}"
        if real is None or isinstance(real, str):
            if out != "ERROR":
                bad += 1
                if bad <= 4:
                    ctx.tie_broken("correspondence", "parse_enum: code fails, model does not", json.dumps({"values": vs, "type": typ, "code": str(real), "model": out}), hint=(vs, typ))
            continue
        nullable, members, fm = real
        canon = ("1" if nullable else "0") + "\t" + ";".join(lib.enc_str(n) + "=" + l for n, l in members) + "\t" + (fm if probe_tok != "-" else "-")
        if canon != out:
            bad += 1
            if bad <= 4:
                ctx.tie_broken("correspondence", "parse_enum / find_member model != code", json.dumps({"values": vs, "type": typ, "varnames": varnames, "cap": cap, "probe": probe, "code": canon, "model": out}), hint=(vs, typ, probe))
    ctx.count("disagreements", bad)
    ctx.sample({"values": cases[0][0], "type": cases[0][1]})


# ---------------------------------------------------------------------------------------------


def py_equal_somewhere(vs):
    """two different JSON values that Python considers equal (1, 1.0, True): Enum would alias them"""
    for i, a in enumerate(vs):
        for b in vs[i + 1:]:
            if a == b and a is not None and b is not None:
                return True
    return False


def check_enum(vs, typ, opts, default=None):
    """Returns violation text or None."""
    prop = {"enum": vs}
    if typ:
        prop["type"] = typ
    if default is not None:
        prop["default"] = default
    sch = {"title": "M", "type": "object", "properties": {"e": prop}}
    o = dict(opts)
    if o.get("enum_field_as_literal"):
        from datamodel_code_generator.parser import LiteralType
        o["enum_field_as_literal"] = LiteralType.All
    g = e2e.generate(json.dumps(sch), kind="pydantic_v2.BaseModel", **o)
    if g.timeout:
        return "generate() does not terminate"
    if not g.ok:
        return None
    err = e2e.parses(g.text)
    if err:
        return f"output does not parse: {err}"
    mod, err = e2e.load_module(g.text, "pydantic_v2.BaseModel")
    if err:
        return f"module does not execute: {err}"
    try:
        want = [v for v in vs if v is not None]
        ann = mod.M.model_fields["e"].annotation
        enums = [c for c in vars(mod).values() if isinstance(c, type) and issubclass(c, enum.Enum) and c is not enum.Enum and c.__module__ == mod.__name__]

        def flat(a):
            out = []
            for x in typing.get_args(a) or ():
                out += flat(x) if typing.get_origin(x) is typing.Union or typing.get_origin(x) is typing.Literal or typing.get_origin(x) is not None else [x]
            return out

        if o.get("enum_field_as_literal"):
            lits = []
            def collect(a):
                if typing.get_origin(a) is typing.Literal:
                    lits.extend(typing.get_args(a))
                else:
                    for x in typing.get_args(a):
                        collect(x)
            collect(ann)
            got = lits
            null_ok = type(None) in (typing.get_args(ann) or ()) or ann is type(None)
        else:
            if len(enums) != 1:
                return f"expected one Enum class, found {len(enums)}"
            got = [m.value for m in enums[0]]
            names = [m.name for m in enums[0]]
            if len(set(names)) != len(names):
                return "duplicate member names"
            null_ok = None
        key = lambda v: (type(v).__name__, repr(v))
        if sorted(map(key, got)) != sorted(map(key, want)):
            return f"values of the generated {'Literal' if o.get('enum_field_as_literal') else 'Enum'} are {got!r}, the schema lists {want!r}"
        if None in vs:
            try:
                mod.M.model_validate({"e": None})
            except Exception:  # noqa: BLE001
                return "the schema lists null but null is rejected"
        if default is not None and o.get("set_default_enum_member") and not o.get("enum_field_as_literal"):
            d = mod.M().e
            d = getattr(d, "root", d)  # a nullable string enum is wrapped in a root model
            if not isinstance(d, enums[0]) or d.value != default:
                return f"default {default!r} is not rendered as the corresponding member (got {d!r})"
        return None
    finally:
        e2e.unload(mod)


def check_enum_union(form, default, kind="pydantic_v2.BaseModel"):
    """a member that accepts two enumerations (inline or by $ref, directly or as array items) with a default that belongs to the
    first or the second: under --set-default-enum-member the default must be a member of the enumeration that lists it"""
    e1, e2 = {"type": "string", "enum": ["truck", "rail"]}, {"type": "string", "enum": ["counter", "locker"]}
    i1, i2 = {"type": "integer", "enum": [10, 20]}, {"type": "integer", "enum": [30, 40]}
    defs = {"Carrier": e1, "Pickup": e2}
    alts = {"inline": [e1, e2], "refs": [{"$ref": "#/definitions/Carrier"}, {"$ref": "#/definitions/Pickup"}], "ints": [i1, i2],
            "mixed": [{"$ref": "#/definitions/Carrier"}, i2]}[form]
    prop = {"anyOf": alts, "default": default}
    sch = {"title": "M", "type": "object", "properties": {"via": prop}, "definitions": defs}
    g = e2e.generate(json.dumps(sch), kind=kind, set_default_enum_member=True)
    if g.timeout:
        return "generate() does not terminate"
    if not g.ok:
        return None
    if e2e.parses(g.text):
        return "output does not parse"
    mod, err = e2e.load_module(g.text, kind)
    if err:
        return f"module does not execute: {err}"
    try:
        d = mod.M().via
        d = getattr(d, "root", d)
        if not isinstance(d, enum.Enum) or d.value != default:
            line = next((l.strip() for l in g.text.splitlines() if l.strip().startswith("via")), "")
            return f"default {default!r} is not rendered as the member of the enumeration that lists it (got {d!r}; written `{line}`)"
        return None
    finally:
        e2e.unload(mod)


def check_gql_enum(values, opts):
    """a GraphQL enum whose value names coincide after sanitation: the generated Enum has exactly the GraphQL value names as values"""
    sdl = "enum E {\n" + "\n".join("  " + v for v in values) + "\n}\n\ntype Query {\n  e: E\n}\n"
    g = e2e.generate(sdl, kind="pydantic_v2.BaseModel", file_type="graphql", **opts)
    if g.timeout:
        return "generate() does not terminate"
    if not g.ok or e2e.parses(g.text):
        return None
    tree = ast.parse(g.text)
    cls = next((n for n in tree.body if isinstance(n, ast.ClassDef) and n.name == "E"), None)
    if cls is None:
        return None
    got = sorted(st.value.value for st in cls.body if isinstance(st, ast.Assign) and isinstance(st.value, ast.Constant))
    names = [t.id for st in cls.body if isinstance(st, ast.Assign) for t in st.targets if isinstance(t, ast.Name)]
    if len(set(names)) != len(names):
        return f"duplicate member names {names}"
    if got != sorted(values):
        return f"values of the generated Enum are {got}, the GraphQL enum lists {sorted(values)}"
    return None


def falsify(ctx):
    rng = ctx.rng("fals")
    cases = []
    for h in ctx.hints[:8]:
        vs, typ = h[0], h[1]
        probe = h[2] if len(h) > 2 else None
        cases.append((vs, typ, {}, None))
        cases.append((vs, typ, {"enum_field_as_literal": True}, None))
        if probe is not None and probe in vs:
            cases.append((vs, typ, {"set_default_enum_member": True}, probe))
    # enumerations whose type keyword is a list, with values of several JSON types
    for typ, vs in ((["string", "integer"], ["none", 7, "x", 404]), (["integer", "string"], ["heavy", 3]), (["number", "string"], [1.5, "a"]),
                    (["string", "integer"], ["a", "b"]), (["string", "boolean"], ["yes", True]), (["string", "integer", "null"], ["a", 5])):
        for o in ({}, {"use_subclass_enum": True}, {"use_subclass_enum": True, "capitalise_enum_members": True}, {"enum_field_as_literal": True}):
            cases.append((vs, typ, dict(o), None))
    for _ in range(ctx.n(150, 2500)):
        vs = gen_values(rng)
        if all(isinstance(v, str) or v is None for v in vs):
            typ = "string"
        else:
            typ = None
        opts = {}
        for k in ("use_subclass_enum", "capitalise_enum_members", "set_default_enum_member"):
            if rng.random() < 0.3:
                opts[k] = True
        if rng.random() < 0.25:
            opts["enum_field_as_literal"] = True
        if rng.random() < 0.15:
            opts["empty_enum_field_name"] = "empty"
        default = None
        if rng.random() < 0.4:
            cand = [v for v in vs if v is not None]
            if cand:
                default = rng.choice(cand)
        cases.append((vs, typ, opts, default))
    seen = 0
    for vs, typ, opts, default in cases:
        # guards = known findings: null in a non-string enum, [null] alone, Python-equal values, defaults with quotes/backslashes
        if None in vs and typ != "string":
            continue
        if not [v for v in vs if v is not None]:
            continue
        if py_equal_somewhere(vs) and not opts.get("enum_field_as_literal"):
            continue  # Enum aliasing of equal values (known finding); Literal keeps them apart
        if "\0" in "".join(v for v in vs if isinstance(v, str)):
            pass
        if opts.get("enum_field_as_literal") and any(isinstance(v, str) and (" | " in v or "None" in v or "[" in v) for v in vs):
            continue
        if isinstance(default, str) and (default != default.strip("'\"") or any(c in default for c in "'\\\n\t\0\r\b\f")) :
            default = None
        if default is not None and not default:
            default = None  # falsy defaults (0, false, ""): known finding C09-default-member-falsy
        if default is not None and len([v for v in vs if str(v).strip("'\"") == str(default).strip("'\"")]) > 1:
            default = None  # two values with the same str(): known finding C09-default-member-str-clash
        if opts.get("use_subclass_enum") and typ is None:
            pass
        ctx.count("eval_e2e")
        ctx.bucket("opts", ",".join(sorted(opts)) or "-")
        why = check_enum(vs, typ, opts, default)
        if why:
            seen += 1
            if seen <= 6:
                ctx.violation(f"e2e:{json.dumps(vs)}:{typ}:{sorted(opts)}:{default!r}", f"enum {vs!r} type {typ} {opts} default {default!r}: {why}",
                              {"values": vs, "type": typ, "opts": opts, "default": default, "why": why})
    for form, defaults in (("inline", ["truck", "counter", "locker"]), ("refs", ["rail", "counter"]), ("ints", [10, 40]), ("mixed", ["truck", 30])):
        for default in defaults:
            ctx.count("eval_e2e")
            ctx.nontrivial(("enum-union", form, default))
            why = check_enum_union(form, default)
            if why:
                ctx.violation(f"enum-union:{form}:{default!r}", f"member accepting two enumerations ({form}), default {default!r}: {why}",
                              {"enum_union": [form, default], "why": why})
    for values, o in ((["class", "class_", "pass"], {}), (["mro", "mro_", "x"], {}), (["_a", "field__a", "b"], {}), (["red", "RED", "Red"], {"capitalise_enum_members": True}),
                      (["fooBar", "foo_bar"], {"capitalise_enum_members": True}), (["A", "B"], {})):
        ctx.count("eval_e2e")
        ctx.nontrivial(("gql-enum", tuple(values), json.dumps(o)))
        why = check_gql_enum(values, o)
        if why:
            ctx.violation(f"gql-enum:{values}:{sorted(o)}", f"GraphQL enum {values} {o}: {why}", {"gql_enum": [values, o], "why": why})
    ctx.sample({"values": cases[-1][0], "opts": cases[-1][2]})


def replay_finding(ctx, f):
    if "gql_enum" in f["replay"]:
        return check_gql_enum(*f["replay"]["gql_enum"]) is not None
    if "enum_union" in f["replay"]:
        return check_enum_union(*f["replay"]["enum_union"]) is not None
    r = f["replay"]
    return check_enum(r["values"], r["type"], r["opts"], r.get("default")) is not None


def replay(ctx, payload):
    r = payload.get("replay", payload)
    if "enum_union" in r:
        why = check_enum_union(*r["enum_union"])
        print("replay:", why or "no violation")
        return 1 if why else 0
    if "values" not in r:
        print(json.dumps(payload, indent=1)[:3000])
        return 0
    why = check_enum(r["values"], r["type"], r["opts"], r.get("default"))
    print("replay:", why or "no violation")
    return 1 if why else 0
