"""C07 - member names are legal identifiers and wire names are preserved."""
from __future__ import annotations

import json
import keyword
import re
import unicodedata

from harness import lib, e2e

PID = "C07"
PROPS_V = "props/C07.v"
TABLES = ("UnicodeTables", "BaseModelAttrs")
RULE = ("correspondence: model (extracted Ident.v with reflected tables) vs FieldNameResolver/"
        "PydanticFieldNameResolver/EnumFieldNameResolver.get_valid_name and get_valid_field_name_and_alias on "
        "single code points (table boundaries + sample; all 1.1M in thorough), short strings over a "
        "class-representative alphabet, random strings, x option vectors; non-trivial = the name had to be changed")
TRUSTED = [
    "Unicode tables (\\w, isidentifier start/continue, isnumeric, lower/upper, keyword.kwlist) and the hasattr(BaseModel) "
    "name set are reflected from the CPython / pydantic that run the generator",
    "str.lower final-sigma context rule not modelled (both forms are identifier characters); delimiter restricted to one character",
]
ASSUMPTIONS = [
    "special_field_name_prefix is a non-empty identifier that does not start with an underscore (theorem hypothesis prefix_ok)",
    "the target interpreter's Unicode database equals the generator's",
]

ALPHABET = ["_", "#", "1", "a", "B", "if", "²", "①", "ͺ", "ำ", " ", "-", "\0", "É", "ß", "mro", "copy", "ﬁ", "一"]
PREFIXES = [None, "x", "f_", "Fld"]
BAD_PREFIXES = ["", "_", "1"]


def resolver(kind, o):
    from datamodel_code_generator import reference as r

    cls = {"plain": r.FieldNameResolver, "pyd": r.PydanticFieldNameResolver, "enum": r.EnumFieldNameResolver}[kind]
    return cls(
        aliases=o.get("aliases"), snake_case_field=o["snake"], empty_field_name=o["empty"],
        original_delimiter=o["delim"], special_field_name_prefix=o["prefix"],
        remove_special_field_name_prefix=o["remove"], capitalise_enum_members=o["cap"], no_alias=o["noalias"])


def opt_line(kind, o):
    prefix = "field" if o["prefix"] is None else o["prefix"]
    return "\t".join([
        kind, str(int(o["snake"])), "-" if o["delim"] is None else str(ord(o["delim"])), lib.enc_str(prefix),
        str(int(o["remove"])), str(int(o["cap"])), str(int(o["noalias"])), lib.enc_str(o["empty"] or "")])


def real_gvn(res, name, excl, ignore):
    from datamodel_code_generator.reference import camel_to_snake, snake_to_upper_camel
    try:
        v = lib.call_with_timeout(res.get_valid_name, 0.25, name, excludes=set(excl) if excl is not None else None,
                                  ignore_snake_case_field=ignore)
        return "OK\t" + lib.enc_str(v)
    except lib.Timeout:
        return "FUEL"
    except IndexError:
        return "INDEX"


def mk_opts(rng, bad_prefix=False):
    return {
        "snake": rng.random() < 0.35, "delim": rng.choice([None, None, "-", "_", " ", "a"]),
        "prefix": rng.choice(BAD_PREFIXES) if bad_prefix else rng.choice(PREFIXES + [None, None]),
        "remove": rng.random() < 0.35, "cap": rng.random() < 0.3, "noalias": rng.random() < 0.2,
        "empty": rng.choice([None, None, "empty", "#", "9", "_"]),
    }


def default_opts():
    return {"snake": False, "delim": None, "prefix": None, "remove": False, "cap": False, "noalias": False, "empty": None}


def gen_cases(ctx):
    from harness import reflect
    rng = ctx.rng("corr")
    uni = reflect.unicode_tables()
    cases = []  # (kind, opts, name, excl, ignore)
    # 1. single code points: boundaries of every table (+-1), all below 0x3000 in quick, everything in thorough
    pts = set()
    for k in ("word_tbl", "xids_tbl", "xidc_tbl", "numeric_tbl"):
        for lo, hi in uni[k]:
            pts.update((lo - 1, lo, hi, hi + 1))
    for c, _ in uni["lower_map"] + uni["upper_map"]:
        pts.add(c)
    pts = {c for c in pts if 0 <= c < 0x110000}
    boundary = set(pts)
    if ctx.thorough:
        pts = set(range(0x110000))
    else:
        pts.update(range(0x500))
        pts.update(rng.randrange(0x110000) for _ in range(6000))
    optsets = [("plain", default_opts()), ("pyd", dict(default_opts(), remove=True)),
               ("enum", dict(default_opts(), cap=True)), ("pyd", dict(default_opts(), snake=True, delim="-"))]
    pts = sorted(pts)
    ctx.extra["single_code_points"] = len(pts)
    for c in pts:
        ch = chr(c)
        # thorough: every code point under one option set (rotating), the table boundaries and everything below 0x3000 under all four
        if ctx.thorough:
            chosen = optsets if (c in boundary or c < 0x3000) else [optsets[c % 4]]
        else:
            chosen = optsets if (c < 0x3000 or c % 7 == 0) else optsets[:2]
        for kind, o in chosen:
            cases.append((kind, o, ch, None, False))
            cases.append((kind, o, "a" + ch, None, False))
    # 2. short strings over the class alphabet x random option vectors
    import itertools
    shorts = [""] + ["".join(t) for n in (1, 2, 3) for t in itertools.product(ALPHABET, repeat=n)]
    rng.shuffle(shorts)
    for s in shorts[: ctx.n(3000, len(shorts))]:
        kind = rng.choice(["plain", "pyd", "enum"])
        o = mk_opts(rng)
        excl = rng.choice([None, None, [], [s], ["field_" + s, s + "_1", "a", s.upper()]])
        cases.append((kind, o, s, excl, rng.random() < 0.2))
    # 3. random longer strings, collisions with excludes
    for _ in range(ctx.n(3000, 40000)):
        n = rng.choice([1, 2, 4, 8, 16])
        s = "".join(rng.choice(ALPHABET + ["fooBar", "HTTPServer", "x1Y", "__", "class", "None", "model_fields"]) for _ in range(n))
        kind = rng.choice(["plain", "pyd", "enum"])
        o = mk_opts(rng)
        base = None
        excl = rng.choice([None, [], "auto"])
        cases.append((kind, o, s, excl, rng.random() < 0.1))
    # 4. malformed stream: prefixes outside the theorem's hypothesis (may not terminate)
    for _ in range(ctx.n(40, 200)):
        s = "".join(rng.choice(ALPHABET) for _ in range(rng.choice([1, 2, 3])))
        cases.append((rng.choice(["plain", "pyd"]), mk_opts(rng, bad_prefix=True), s, None, False))
    return cases


def correspond(ctx):
    cases = gen_cases(ctx)
    drv = lib.Driver()
    reqs, reals, metas = [], [], []
    rcache = {}
    for kind, o, name, excl, ignore in cases:
        key = (kind, json.dumps(o, sort_keys=True))
        res = rcache.get(key)
        if res is None:
            res = rcache[key] = resolver(kind, o)
        if excl == "auto":  # exclude the first answer so the retry loop runs
            first = real_gvn(res, name, None, ignore)
            excl = [lib.dec_str(first.split("\t")[1])] if first.startswith("OK") else []
            if excl and ctx.rng("x" + name).random() < 0.5:
                excl.append(excl[0] + "_1")
        real = real_gvn(res, name, excl, ignore)
        fuel = 40 + len(excl or [])
        reqs.append("gvn\t" + opt_line(kind, o) + f"\t{int(ignore)}\t{fuel}\t{lib.enc_str(name)}\t" + ";".join(lib.enc_str(x) for x in (excl or [])))
        reals.append(real)
        metas.append((kind, o, name, excl, ignore))
        ctx.bucket("len", min(len(name), 20))
        ctx.bucket("kind", kind)
        ctx.bucket("result", real.split("\t")[0])
        if real.startswith("OK") and lib.dec_str(real.split("\t")[1]) != name:
            ctx.nontrivial((kind, name, json.dumps(o, sort_keys=True)))
    outs = drv.batch(reqs)
    bad = 0
    for req, real, out, meta in zip(reqs, reals, outs, metas):
        ctx.count("eval_gvn")
        if "\u03a3" in meta[2]:  # str.lower's final-sigma context rule is not modelled: compare up to sigma form
            real, out = re.sub(r"\b962\b", "963", real), re.sub(r"\b962\b", "963", out)
            ctx.count("final_sigma_canonicalised")
        if real != out:
            bad += 1
            if bad <= 5:
                ctx.tie_broken("correspondence", "get_valid_name model != code",
                               json.dumps({"case": meta, "code": real, "model": out}, default=str, ensure_ascii=True), hint=meta)
    ctx.count("disagreements", bad)
    for m, r in list(zip(metas, reals))[:: max(1, len(metas) // 6)][:6]:
        ctx.sample({"kind": m[0], "name": m[2], "opts": {k: v for k, v in m[1].items() if v}, "excludes": m[3], "code": r})
    # field name + alias; resolver objects are shared along the whole history (the model is a
    # function of its arguments only, so any dependence on earlier calls shows up as a disagreement)
    rng = ctx.rng("fna")
    reqs, reals, metas = [], [], []
    shared = {}
    pool = ["".join(rng.choice(ALPHABET + ["ab", "fooBar", "trace-id", "trace_id"]) for _ in range(rng.choice([0, 1, 2, 3]))) for _ in range(60)]
    for _ in range(ctx.n(2500, 15000)):
        kind = rng.choice(["plain", "pyd"])
        o = mk_opts(rng) if rng.random() < 0.5 else dict(default_opts(), snake=rng.random() < 0.5)
        name = rng.choice(pool)
        aliases = rng.choice([None, None, None, {name: "renamed"}, {"other": "x"}])
        o2 = dict(o, aliases=aliases)
        key = (kind, json.dumps(o2, sort_keys=True))
        res = shared.get(key)
        if res is None:
            res = shared[key] = resolver(kind, o2)
        excl = rng.choice([None, [name], [], "prev"])
        if excl == "prev":  # what an earlier member of the same class may have been given
            try:
                excl = [lib.call_with_timeout(res.get_valid_name, 0.25, name)]
            except Exception:  # noqa: BLE001
                excl = []
        try:
            v, a = lib.call_with_timeout(res.get_valid_field_name_and_alias, 0.25, name, excludes=set(excl) if excl is not None else None)
            real = "OK\t" + lib.enc_str(v) + "\t" + ("NONE" if a is None else "SOME " + lib.enc_str(a))
        except lib.Timeout:
            real = "FUEL"
        except IndexError:
            real = "INDEX"
        al = ";".join(f"{lib.enc_str(k)}={lib.enc_str(v)}" for k, v in (aliases or {}).items())
        reqs.append("fna\t" + opt_line(kind, o) + f"\t60\t{lib.enc_str(name)}\t" + ";".join(lib.enc_str(x) for x in (excl or [])) + "\t" + al)
        reals.append(real)
        metas.append((kind, o2, name, excl))
    outs = drv.batch(reqs)
    bad = 0
    for real, out, meta in zip(reals, outs, metas):
        ctx.count("eval_fna")
        if real != out:
            bad += 1
            if bad <= 3:
                ctx.tie_broken("correspondence", "get_valid_field_name_and_alias model != code",
                               json.dumps({"case": meta, "code": real, "model": out}, default=str, ensure_ascii=True), hint=meta)
    ctx.count("disagreements", bad)


# ---------------------------------------------------------------------------------------------
# falsifier: the property, checked on the real code


def prefix_ok(p):
    p = "field" if p is None else p
    return p.isidentifier() and not p.startswith("_")


def check_name(kind, o, name, excl, ignore=False):
    """Returns a description of the violation or None."""
    from datamodel_code_generator import reference as r
    res = resolver(kind, o)
    try:
        v, alias = lib.call_with_timeout(res.get_valid_field_name_and_alias, 1.0, name, excludes=set(excl) if excl else None)
    except lib.Timeout:
        return "does not terminate"
    except Exception as e:  # noqa: BLE001
        return f"raises {type(e).__name__}: {e}"
    if not v.isidentifier():
        return f"result {v!r} is not an identifier"
    if keyword.iskeyword(v):
        return f"result {v!r} is a keyword"
    if excl and v in excl:
        return f"result {v!r} is in excludes"
    if kind == "pyd" and v.startswith("_"):
        return f"pydantic field name {v!r} starts with an underscore"
    if kind == "pyd" and hasattr(r.BaseModel, v):
        return f"{v!r} collides with a BaseModel attribute"
    if kind == "enum" and v == "mro":
        return "enum member named mro"
    if v != name and not o["noalias"] and alias != name:
        return f"name changed to {v!r} but alias is {alias!r}"
    return None


FORMS = {"int": {"type": "integer"}, "true": True, "empty": {}, "ref": {"$ref": "#/definitions/IntDef"}, "nullable": {"type": ["integer", "null"]},
         "union": {"anyOf": [{"type": "integer"}, {"type": "string"}]}}


def e2e_roundtrip(ctx, names, kind_out, opts, second=None, forms=None):
    """Schema with the given property names -> generate -> exec -> validate -> dump by alias.
    `second`: property names of a nested object (a second class in the same run); `forms`: how each member of the
    outer object is declared (integer schema by default; boolean schema, empty schema, $ref, nullable, union)."""
    schema = {"type": "object", "title": "M", "properties": {n: FORMS[(forms or {}).get(n, "int")] for n in names},
              "definitions": {"IntDef": {"type": "integer"}}}
    data = {n: i for i, n in enumerate(names)}
    if second:
        schema["properties"]["zz_inner"] = {"type": "object", "title": "Inner", "properties": {n: {"type": "integer"} for n in second}}
        data["zz_inner"] = {n: 10 + i for i, n in enumerate(second)}
    g = e2e.generate(json.dumps(schema), kind=kind_out, **opts)
    if g.timeout:
        return "generate() does not terminate"
    if not g.ok:
        return None  # a reported error is allowed by the property
    err = e2e.parses(g.text)
    if err:
        return f"output does not parse: {err}"
    for cname, cls in e2e.classes_of(g.text).items():
        fields = [f[0] for f in e2e.class_fields(cls)]
        if len(set(fields)) != len(fields):
            return f"class {cname} has duplicate member names {fields}"
    if kind_out not in ("pydantic_v2.BaseModel", "pydantic.BaseModel"):
        return None
    m, err = e2e.load_module(g.text, kind_out)
    try:
        if err:
            return f"module does not execute: {err}"
        M = getattr(m, "M", None)
        if M is None:
            return None
        try:
            obj = M.model_validate(data) if kind_out.startswith("pydantic_v2") else M.parse_obj(data)
            back = obj.model_dump(by_alias=True) if kind_out.startswith("pydantic_v2") else obj.dict(by_alias=True)
        except Exception as e:  # noqa: BLE001
            return f"valid data rejected: {type(e).__name__}: {str(e)[:200]}"
        if back != data:
            return f"dump by alias {back!r} != input {data!r}"
        return None
    finally:
        e2e.unload(m)


def typeddict_inheritance(base_key, own_key, extra_key):
    """TypedDict output: a class that inherits a key from a base and declares a key of its own whose sanitised spelling is the same;
    every wire name must be a key of the subclass"""
    import typing
    doc = {"definitions": {"Base": {"type": "object", "properties": {base_key: {"type": "integer"}, "plain": {"type": "string"}}},
                           "Child": {"allOf": [{"$ref": "#/definitions/Base"}], "type": "object",
                                     "properties": {own_key: {"type": "integer"}, extra_key: {"type": "integer"}}}}}
    g = e2e.generate(json.dumps(doc), kind="typing.TypedDict")
    if g.timeout:
        return "generate() does not terminate"
    if not g.ok:
        return None
    if e2e.parses(g.text):
        return "output does not parse"
    m, err = e2e.load_module(g.text, "typing.TypedDict")
    try:
        if err:
            return None
        C = getattr(m, "Child", None)
        if C is None:
            return None
        keys = set(getattr(C, "__required_keys__", ())) | set(getattr(C, "__optional_keys__", ()))
        missing = [k for k in (base_key, own_key, extra_key, "plain") if k not in keys]
        if missing:
            return f"TypedDict Child (inherits {base_key!r}, declares {own_key!r} and {extra_key!r}) has no key for the wire names {missing}"
        return None
    finally:
        e2e.unload(m)


def typeddict_keys(names, opts):
    """TypedDict output: whatever the options, the keys of the TypedDict are the wire names"""
    doc = {"title": "Item", "type": "object", "properties": {n: {"type": "integer"} for n in names}}
    g = e2e.generate(json.dumps(doc), kind="typing.TypedDict", **opts)
    if g.timeout:
        return "generate() does not terminate"
    if not g.ok or e2e.parses(g.text):
        return None
    m, err = e2e.load_module(g.text, "typing.TypedDict")
    try:
        if err:
            return None
        C = getattr(m, "Item", None)
        if C is None:
            return None
        keys = set(getattr(C, "__required_keys__", ())) | set(getattr(C, "__optional_keys__", ()))
        missing = [k for k in names if k not in keys]
        if missing:
            return f"TypedDict Item ({opts}) has keys {sorted(keys)}: no key for the wire names {missing}"
        return None
    finally:
        e2e.unload(m)


def discriminator_roundtrip(pname, declared, kind_out, opts):
    """a discriminated union whose discriminator property needs renaming; members declare the property or leave it to the generator"""
    def member(tag):
        props = {"name": {"type": "string"}}
        if declared:
            props[pname] = {"type": "string"}
        return {"type": "object", "properties": props, "required": ["name"] + ([pname] if declared else [])}
    doc = {"openapi": "3.0.0", "info": {"title": "t", "version": "1"}, "paths": {},
           "components": {"schemas": {"Cat": member("Cat"), "Dog": member("Dog"),
                                      "Owner": {"type": "object", "required": ["pet"],
                                                "properties": {"pet": {"oneOf": [{"$ref": "#/components/schemas/Cat"}, {"$ref": "#/components/schemas/Dog"}],
                                                                       "discriminator": {"propertyName": pname}}}}}}}
    g = e2e.generate(json.dumps(doc), kind=kind_out, file_type="openapi", **opts)
    if g.timeout:
        return "generate() does not terminate"
    if not g.ok:
        return None
    if e2e.parses(g.text):
        return "output does not parse"
    m, err = e2e.load_module(g.text, kind_out)
    try:
        if err:
            return None
        O = getattr(m, "Owner", None)
        if O is None:
            return None
        for tag in ("Cat", "Dog"):
            data = {"pet": {pname: tag, "name": "rex"}}
            try:
                obj = O.model_validate(data) if kind_out.startswith("pydantic_v2") else O.parse_obj(data)
                back = obj.model_dump(by_alias=True) if kind_out.startswith("pydantic_v2") else obj.dict(by_alias=True)
            except Exception as e:  # noqa: BLE001
                return f"an object tagged {pname!r}: {tag!r} is rejected: {str(e)[:120]}"
            if back != data:
                return f"dump by alias {back!r} != input {data!r}"
        return None
    finally:
        e2e.unload(m)


def falsify(ctx):
    rng = ctx.rng("fals")
    todo = []
    for h in ctx.hints:  # disagreements first
        kind, o, name, excl = h[0], h[1], h[2], h[3]
        if prefix_ok(o.get("prefix")):
            todo.append((kind, {k: o.get(k) for k in default_opts()} | {"aliases": None}, name, excl if isinstance(excl, list) else None))
    import itertools
    shorts = [""] + ["".join(t) for n in (1, 2) for t in itertools.product(ALPHABET, repeat=n)]
    for s in shorts:
        for kind in ("plain", "pyd", "enum"):
            todo.append((kind, dict(default_opts(), aliases=None), s, None))
            todo.append((kind, dict(mk_opts(rng), aliases=None), s, rng.choice([None, [s], ["a"]])))
    for _ in range(ctx.n(3000, 60000)):
        n = rng.choice([1, 2, 3, 5, 9])
        s = "".join(rng.choice(ALPHABET + [chr(rng.randrange(0x110000)), chr(rng.randrange(0x3000))]) for _ in range(n))
        todo.append((rng.choice(["plain", "pyd", "enum"]), dict(mk_opts(rng), aliases=None), s, rng.choice([None, [s], ["field_" + s]])))
    seen = 0
    for kind, o, name, excl in todo:
        ctx.count("eval_oracle")
        why = check_name(kind, o, name, excl)
        if why:
            seen += 1
            if seen <= 10:
                ctx.violation(f"gvn:{kind}:{name!r}:{json.dumps({k: v for k, v in o.items() if v}, sort_keys=True)}",
                              f"get_valid_field_name_and_alias({name!r}) [{kind}, {o}]: {why}",
                              {"kind": kind, "opts": o, "name": name, "excludes": excl, "why": why})
    # uniqueness within a class + end-to-end round trip
    for i in range(ctx.n(25, 300)):
        names = list(dict.fromkeys("".join(rng.choice(ALPHABET[:15]) for _ in range(rng.choice([1, 2, 3]))) for _ in range(rng.choice([2, 4, 7]))))
        if any("\0" in n for n in names):
            continue
        # guard (known finding C07-nfkc): Python NFKC-normalises identifiers, the generator does not
        names = [n for n in names if unicodedata.normalize("NFKC", n) == n]
        if not names:
            continue
        kind_out = rng.choice(["pydantic_v2.BaseModel", "pydantic_v2.BaseModel", "pydantic.BaseModel", "dataclasses.dataclass", "typing.TypedDict"])
        opts = {}
        if rng.random() < 0.3:
            opts["snake_case_field"] = True
        if rng.random() < 0.2:
            opts["remove_special_field_name_prefix"] = True
        second = None
        if rng.random() < 0.6:  # a second class that meets the same names in another order / sanitised form
            second = list(reversed(names)) + [n.replace("-", "_").replace(" ", "_") for n in names if n.replace("-", "_").replace(" ", "_") not in names]
            second = list(dict.fromkeys(x for x in second if x and x != "zz_inner"))
            rng.shuffle(second)
        ctx.count("eval_e2e")
        why = e2e_roundtrip(ctx, names, kind_out, opts, second)
        if why:
            ctx.violation(f"e2e:{kind_out}:{names!r}:{second!r}:{opts}", f"property names {names!r} / inner {second!r} ({kind_out}, {opts}): {why}",
                          {"names": names, "second": second, "kind": kind_out, "opts": opts, "why": why})
    for base_key, own_key in (("content-type", "content_type"), ("content_type", "content-type"), ("a b", "a_b"), ("class", "class_"), ("x.y", "x-y"), ("n", "m")):
        for extra_key in ("x-rate", "plain2"):
            ctx.count("eval_e2e")
            ctx.nontrivial(("td-inherit", base_key, own_key, extra_key))
            why = typeddict_inheritance(base_key, own_key, extra_key)
            if why:
                ctx.violation(f"td-inherit:{base_key}:{own_key}:{extra_key}", why, {"td_inherit": [base_key, own_key, extra_key], "why": why})
    # the empty property name; TypedDict output without aliases (the keys must still be the wire names)
    for kind_out in ("pydantic_v2.BaseModel", "pydantic.BaseModel"):
        for names in (["", "plain"], ["plain", ""], ["", "field_"]):
            ctx.count("eval_e2e")
            ctx.nontrivial(("empty-name", tuple(names), kind_out))
            why = e2e_roundtrip(ctx, names, kind_out, {})
            if why:
                ctx.violation(f"e2e:{kind_out}:{names!r}:None:{{}}", f"property names {names!r} ({kind_out}): {why}", {"names": names, "second": None, "kind": kind_out, "opts": {}, "why": why})
    for opts in ({"no_alias": True}, {}, {"no_alias": True, "snake_case_field": True}):
        ctx.count("eval_e2e")
        ctx.nontrivial(("td-keys", json.dumps(opts, sort_keys=True)))
        why = typeddict_keys(["foo-bar", "class", "plain", "fooBar"], opts)
        if why:
            ctx.violation(f"td-keys:{sorted(opts)}", why, {"td_keys": [["foo-bar", "class", "plain", "fooBar"], opts], "why": why})
    for pname in ("pet-type", "@type", "class", "_kind", "petType", "kind"):
        for declared in (False, True):
            for kind_out in ("pydantic_v2.BaseModel", "pydantic.BaseModel"):
                opts = {"snake_case_field": True} if pname == "petType" else {}
                ctx.count("eval_e2e")
                ctx.nontrivial(("disc", pname, declared, kind_out))
                why = discriminator_roundtrip(pname, declared, kind_out, opts)
                if why:
                    ctx.violation(f"disc:{pname}:{declared}:{kind_out}", f"discriminator {pname!r} (declared by the members: {declared}, {kind_out}, {opts}): {why}",
                                  {"disc": [pname, declared, kind_out, opts], "why": why})
    # names that coincide after sanitation x how each of the two members is declared x both orders
    pairs = [("a-b", "a_b"), ("x y", "x_y"), ("class", "class_"), ("1a", "field_1a"), ("copy", "copy_"), ("A", "a"), ("a.b", "a_b")]
    fams = []
    for p1, p2 in pairs:
        for f1 in FORMS:
            for f2 in ("int", "true", "ref"):
                for order in ((p1, p2), (p2, p1)):
                    fams.append((list(order) + ["plain"], {order[0]: f1, order[1]: f2}))
    if not ctx.thorough:
        fams = [f for i, f in enumerate(fams) if f[1][f[0][0]] in ("true", "empty", "ref") or i % 3 == 0]
    for i, (names, forms) in enumerate(fams):
        for kind_out in (["pydantic_v2.BaseModel", "pydantic.BaseModel"] if ctx.thorough else [["pydantic_v2.BaseModel", "pydantic.BaseModel"][i % 2]]):
            opts = {"snake_case_field": True} if names[0] in ("A", "a") else {}
            ctx.count("eval_e2e")
            ctx.nontrivial(("collide", tuple(names), json.dumps(forms, sort_keys=True), kind_out))
            why = e2e_roundtrip(ctx, names, kind_out, opts, None, forms)
            if why:
                ctx.violation(f"e2e:{kind_out}:{names!r}:{json.dumps(forms, sort_keys=True)}:{opts}", f"property names {names!r} declared as {forms} ({kind_out}, {opts}): {why}",
                              {"names": names, "second": None, "forms": forms, "kind": kind_out, "opts": opts, "why": why})


def replay_finding(ctx, f):
    r = f["replay"]
    if "td_keys" in r:
        return typeddict_keys(*r["td_keys"]) is not None
    if "td_inherit" in r:
        return typeddict_inheritance(*r["td_inherit"]) is not None
    if "disc" in r:
        return discriminator_roundtrip(*r["disc"]) is not None
    if "names" in r:
        return e2e_roundtrip(ctx, r["names"], r["kind"], r["opts"], r.get("second"), r.get("forms")) is not None
    return check_name(r["kind"], r["opts"], r["name"], r.get("excludes")) is not None


def replay(ctx, payload):
    r = payload.get("replay", payload)
    if "td_keys" in r:
        why = typeddict_keys(*r["td_keys"])
    elif "td_inherit" in r:
        why = typeddict_inheritance(*r["td_inherit"])
    elif "disc" in r:
        why = discriminator_roundtrip(*r["disc"])
    elif "names" in r:
        why = e2e_roundtrip(ctx, r["names"], r["kind"], r["opts"], r.get("second"), r.get("forms"))
    elif "name" in r:
        why = check_name(r["kind"], r["opts"], r["name"], r.get("excludes"))
    else:
        print(json.dumps(payload, indent=1)[:3000])
        return 0
    print("replay:", why or "no violation")
    return 1 if why else 0
