"""C01 - generation terminates and every emitted module is valid Python."""
from __future__ import annotations

import ast
import csv
import io
import json

from harness import lib, e2e, schemasem as ss
from harness.props import c03, c10, c12, c15, c16, c17

PID = "C01"
PROPS_V = "props/C01.v"
TABLES = ("SkeletonTable", "UnicodeTables", "BaseModelAttrs", "EscapeTables")
RULE = ("correspondence: a sample of the skeleton rows is rendered again under every target Python version and with the default formatters and "
        "parsed with ast.parse(feature_version=target); falsifier: real generate() under a watchdog on JSON Schema documents (grammar of C03/C04 with "
        "texts from a hostile alphabet in titles, descriptions, enum values, defaults, member names; applicator and x- keys in member schemas), OpenAPI "
        "documents (discriminators), GraphQL SDL, raw JSON / YAML / dict / CSV samples and multi-module definition sets x the 5 output model types x "
        "random vectors over the boolean / enum options of generate(), formatters off (mostly) and on: a run must end (no timeout), and either report an "
        "error or write only modules that parse for the target version; documents built from supported keywords must succeed. "
        "non-trivial = distinct (input, kind, options)")
TRUSTED = ["CPython's ast.parse(feature_version=...) is the reference parser", "watchdog: SIGALRM after 20 s counts as does-not-terminate",
           "Jinja2, black and isort are third-party"]
ASSUMPTIONS = ["the module-level claim is decided per run, not proved; the theorems cover the modelled loops, the lexical slots and the class skeletons"]

KINDS = e2e.KINDS
BOOL_OPTS = ["field_constraints", "snake_case_field", "strip_default_none", "allow_population_by_field_name", "allow_extra_fields",
             "apply_default_values_for_required_fields", "force_optional_for_required_fields", "use_standard_collections", "use_schema_description",
             "use_field_description", "use_default_kwarg", "reuse_model", "use_one_literal_as_default", "set_default_enum_member", "use_subclass_enum",
             "strict_nullable", "use_generic_container_types", "enable_faux_immutability", "disable_appending_item_suffix", "field_include_all_keys", "use_title_as_name", "use_unique_items_as_set", "use_annotated",
             "use_non_positive_negative_number_constrained_types", "use_double_quotes", "use_union_operator", "collapse_root_models",
             "remove_special_field_name_prefix", "capitalise_enum_members", "use_exact_imports", "keyword_only", "no_alias", "parent_scoped_naming",
             "enable_version_header", "use_pendulum"]
MILD = ["a", "B", " ", "-", "_", "1", "é", "'", '"', "\\", "\n", "#", ":", "{", "}", "(", ")", "%", "\t", "日"]


def rand_opts(rng, kind):
    opts = {o: True for o in BOOL_OPTS if rng.random() < 0.12}
    if opts.get("use_annotated"):
        opts["field_constraints"] = True
    if kind == "msgspec.Struct":
        opts.pop("field_constraints", None)
        opts.pop("use_annotated", None)
    if rng.random() < 0.2:
        from datamodel_code_generator.parser import LiteralType
        opts["enum_field_as_literal"] = rng.choice([LiteralType.All, LiteralType.One])
    if rng.random() < 0.3:
        opts["target_python_version"] = rng.choice(["3.9", "3.10", "3.11", "3.12", "3.13"])
    if rng.random() < 0.1:
        opts["special_field_name_prefix"] = rng.choice(["f", "field", "x_"])
    if rng.random() < 0.1:
        opts["original_field_name_delimiter"] = rng.choice(["-", " "])
        opts["snake_case_field"] = True
    if rng.random() < 0.1:
        opts["field_extra_keys"] = {"x-ext", "not", "if"}
    if rng.random() < 0.08:
        opts["empty_enum_field_name"] = "empty"
    if rng.random() < 0.08:
        opts["field_extra_keys_without_x_prefix"] = {"x-ext"}
    if opts.get("use_union_operator") and opts.get("target_python_version") == "3.9":
        opts.pop("target_python_version")
    return opts


def conv(opts):
    o = dict(opts)
    if "target_python_version" in o and isinstance(o["target_python_version"], str):
        from datamodel_code_generator.format import PythonVersion
        o["target_python_version"] = PythonVersion(o["target_python_version"])
    if isinstance(o.get("enum_field_as_literal"), str):
        from datamodel_code_generator.parser import LiteralType
        o["enum_field_as_literal"] = LiteralType(o["enum_field_as_literal"])
    for k in ("field_extra_keys", "field_extra_keys_without_x_prefix"):
        if isinstance(o.get(k), list):
            o[k] = set(o[k])
    return o


def jsonable(opts):
    out = {}
    for k, v in opts.items():
        if isinstance(v, set):
            v = sorted(v)
        elif not isinstance(v, (bool, str, int, list)):
            v = getattr(v, "value", str(v))
        out[k] = v
    return out


def run(input_, file_type, kind, opts, formatters=(), modular=False, must_succeed=True):
    """-> reason the property fails, or None"""
    g = e2e.generate(input_, kind=kind, file_type=file_type, formatters=formatters, modular=modular, timeout=20.0, **conv(opts))
    if g.timeout:
        return "generate() does not return within 20 s"
    if not g.ok:
        if must_succeed:
            return f"generate() fails on a document built from supported keywords: {str(g.error)[:300]}"
        return None
    minor = int(str(jsonable(opts).get("target_python_version", "3.9")).split(".")[1])
    for name, text in g.files.items():
        try:
            ast.parse(text, feature_version=(3, max(minor, 9)))
        except SyntaxError as e:
            line = (text.splitlines()[e.lineno - 1] if e.lineno and e.lineno <= len(text.splitlines()) else "")[:160]
            return f"written module {name} does not parse ({e.msg}, line {e.lineno}: {line!r})"
    return None


def sprinkle(rng, doc):
    """hostile-but-mild texts in the textual slots of a JSON Schema document; applicator / extension keys in member schemas"""
    def text():
        return "".join(rng.choice(MILD) for _ in range(rng.choice([1, 2, 4, 7])))

    def walk(s, depth=0):
        if isinstance(s, dict):
            if "properties" in s or s.get("type") in ("string", "integer", "object"):
                if rng.random() < 0.3:
                    s["description"] = text()
                if rng.random() < 0.15:
                    s["title"] = "T" + text().replace("\n", " ")
            if s.get("type") == "string" and "enum" not in s and rng.random() < 0.25:
                s["default"] = text()
            if s.get("type") == "string" and "enum" in s and rng.random() < 0.4 and all(isinstance(e, str) for e in s["enum"]):
                s["enum"] = list(dict.fromkeys(s["enum"] + [text()]))
            if s.get("type") in ("string", "integer") and rng.random() < 0.12:
                s[rng.choice(["not", "if", "else", "x-ext", "$comment", "examples"])] = rng.choice([{"type": "null"}, ["e"], "c"])
            for k, v in list(s.items()):
                if k == "properties" and isinstance(v, dict):
                    if rng.random() < 0.25:
                        v[text().strip() or "p q"] = {"type": "integer"}
                    for ps in v.values():
                        walk(ps, depth + 1)
                elif k not in ("enum", "const", "default", "required", "not", "if", "else", "x-ext", "$comment", "examples"):
                    walk(v, depth + 1)
        elif isinstance(s, list):
            for v in s:
                walk(v, depth + 1)
    walk(doc)
    return doc


def modular_schema(rng):
    classes, edges, opts = c12.gen_case(rng)
    sch = c12.build_schema(classes, edges)
    # named scalars (root models) in some modules, referenced from sibling modules
    keys = list(sch["definitions"])
    for i, k in enumerate(keys[:2]):
        mod = k.rsplit(".", 1)[0] if "." in k else ""
        alias = (mod + "." if mod else "") + f"Code{i}"
        sch["definitions"][alias] = rng.choice([{"type": "string", "minLength": 1}, {"type": "integer", "minimum": 0}, {"type": "array", "items": {"type": "string"}}])
        user = rng.choice(keys)
        sch["definitions"][user]["properties"][f"c{i}"] = {"$ref": "#/definitions/" + alias}
    return sch, opts


def dup_root_models(payload):
    """two named scalars / arrays that are the same type once constraints are left out (they are left out of dataclass / TypedDict / msgspec types)"""
    CON = ("minimum", "maximum", "exclusiveMinimum", "exclusiveMaximum", "multipleOf", "minLength", "maxLength", "pattern", "minItems", "maxItems",
           "description", "title", "default")

    def strip(v):
        if isinstance(v, dict):
            return {k: strip(x) for k, x in v.items() if k not in CON}
        if isinstance(v, list):
            return [strip(x) for x in v]
        return v
    doc = payload[0] if isinstance(payload, tuple) else payload
    if not isinstance(doc, dict):
        return False
    roots = [v for v in (doc.get("definitions") or {}).values()
             if isinstance(v, dict) and v.get("type") != "object" and "properties" not in v and "allOf" not in v]

    def walk(x):   # constrained scalars below items become root models of their own
        if isinstance(x, dict):
            it = x.get("items")
            if isinstance(it, dict) and it.get("type") in ("string", "integer", "number") and any(k in it for k in CON):
                roots.append(it)
            for v in x.values():
                walk(v)
        elif isinstance(x, list):
            for v in x:
                walk(v)
    walk(doc)
    keys = [json.dumps(strip(v), sort_keys=True) for v in roots]
    return len(keys) != len(set(keys))


def in_known_class(family, payload, kind, opts, formatters):
    if opts.get("keep_model_order") and family != "keep-order-modular":
        return True  # C11-keep-model-order (the reordering loop may not terminate; C01_keep_order_loop_refuted)
    if opts.get("reuse_model") and not kind.startswith("pydantic") and dup_root_models(payload):
        return True  # C01-reuse-model-duplicate-root: the second of two identical named scalars/arrays becomes a class without members, the template reads fields[0]
    return False


def families(ctx, rng):
    """yields (family, payload, input, file_type, modular, must_succeed)"""
    n = ctx.n
    for _ in range(n(70, 1200)):
        doc = ss.gen_document(rng)
        fuzzed = rng.random() < 0.6
        if fuzzed:
            doc = sprinkle(rng, doc)
        yield "jsonschema", doc, json.dumps(doc), "jsonschema", False, not fuzzed
    for _ in range(n(12, 150)):
        doc, _, _ = c03.gen_openapi(rng)
        yield "openapi", doc, json.dumps(doc), "openapi", False, True
    for _ in range(n(10, 150)):
        doc = c15.gen_discriminated(rng)
        yield "openapi", doc, json.dumps(doc), "openapi", False, True
    for _ in range(n(20, 300)):
        sdl = c17.gen_sdl(rng)
        yield "graphql", sdl, sdl, "graphql", False, True
    for _ in range(n(25, 400)):
        sample = c16.gen_object(rng)
        form = rng.choice(["json", "yaml", "dict"])
        if form == "json":
            yield "raw-json", sample, json.dumps(sample), "json", False, True
        elif form == "yaml":
            import yaml
            yield "raw-yaml", sample, yaml.safe_dump(sample, sort_keys=False), "yaml", False, True
        else:
            yield "raw-dict", sample, sample, "dict", False, True
    for _ in range(n(8, 100)):
        header = rng.sample([k for k in c16.SAFE_KEYS if "\t" not in k], rng.choice([1, 2, 3]))
        buf = io.StringIO()
        w = csv.writer(buf)
        w.writerow(header)
        w.writerow([rng.choice(["1", "a", ""]) for _ in header])
        yield "raw-csv", buf.getvalue(), buf.getvalue(), "csv", False, True
    for _ in range(n(25, 400)):
        sch, mopts = modular_schema(rng)
        yield "modular", (sch, mopts), json.dumps(sch), "jsonschema", True, True


EXTRA_KEYS = ["not", "if", "else", "then", "class", "in", "lambda", "x-ext", "x-class", "$comment", "examples", "a b", "1st"]


def extras_sweep():
    """a member schema carrying one more key x the three ways of forwarding keys to Field(...) x the 5 model types"""
    for key in EXTRA_KEYS:
        doc = {"title": "Root", "type": "object", "properties": {"name": {"type": "string", "description": "display name", key: {"const": "root"}},
                                                                  "n": {"type": "integer", key: True}}, "required": ["name"]}
        for opts in ({"field_include_all_keys": True}, {"field_extra_keys": [key]}, {"field_extra_keys_without_x_prefix": [key]}):
            for kind in KINDS:
                yield doc, kind, opts


KEYWORDISH = ["none", "None", "nones", "Nones", "true", "True", "trues", "falses", "False", "class", "classes", "import", "imports", "asyncs", "awaits",
              "lambdas", "yields", "matches", "types", "passes", "nonlocals", "fors", "ifs", "is", "ises", "def", "defs"]


def keyword_sweep():
    """a word that is, or whose singular / capitalised form is, a Python keyword - at every place a class name is derived from a
    name: inline object member, array of inline objects, array of inline enums, enum member, named definition, title"""
    for w in KEYWORDISH:
        obj = {"type": "object", "properties": {"a": {"type": "integer"}}}
        enum = {"type": "string", "enum": ["x", "y"]}
        shapes = {
            "object-member": {"title": "Root", "type": "object", "properties": {w: obj}},
            "array-of-objects": {"title": "Root", "type": "object", "properties": {w: {"type": "array", "items": obj}}},
            "array-of-enums": {"title": "Root", "type": "object", "properties": {w: {"type": "array", "items": enum}}},
            "enum-member": {"title": "Root", "type": "object", "properties": {w: enum}},
            "definition": {"title": "Root", "type": "object", "properties": {"m": {"$ref": "#/definitions/" + w}}, "definitions": {w: obj}},
            "title": {"title": w, "type": "object", "properties": {"a": {"type": "integer"}}},
        }
        for shape, doc in shapes.items():
            yield "keyword-" + shape, doc, json.dumps(doc), "jsonschema"
        if w[:1].isalpha():
            for decl in ("type {w} {{ a: Int }}", "enum {w} {{ X Y }}", "interface {w} {{ a: Int }}", "input {w} {{ a: Int }}"):
                sdl = decl.format(w=w) + "\ntype Query { q: " + ("Int" if decl.startswith("input") else w) + " }\n"
                yield "keyword-graphql", sdl, sdl, "graphql"


RUNS = ([c * n for c in ('"', "'", "\\") for n in (1, 2, 3, 4, 5, 6, 7)]
        + ['"""' + "'''", '\\"', '\\\\"""', 'x = """"\nimport os\ny = """"', "a\nb", "\r", "\x0c", " ", "{{ 7*7 }}", "{% raw %}", "#", "\t'",
           "'''" + '"""' + "'''", 'end"', "'end", "end\\"])
DIGITISH = ["⁰", "₂", "①", "½", "٣", "ⅷ", "²", "๓", "́", "‿", "‍", " ", "€", "\U0001f600", "ª",
            "℘", "℮", "゛", "፩", "᧚", "·", "·", "１", "\U0001d7ce", "〇", "ↈ", "ꛦ", "༳", "↉"]


def text_sweep():
    """runs of quotes / backslashes of every short length and a few mixed texts in every textual slot at once, with the options
    that turn descriptions into docstrings"""
    for t in RUNS:
        doc = {"title": "Root", "type": "object", "description": t,
               "properties": {"a": {"type": "string", "description": t, "default": t, "title": "T " + t.replace("\n", " ")}, "e": {"type": "string", "enum": [t, "plain"]},
                              "c": {"const": t}, "o": {"type": "object", "description": t, "properties": {"x": {"type": "integer", "description": t}}}},
               "definitions": {"E": {"type": "string", "enum": ["v"], "description": t}}}
        yield "text-sweep", doc, json.dumps(doc), "jsonschema"
    for t in RUNS[:21:3] + RUNS[21:]:
        clean = t.replace('"""', "'").replace("\\", "/")   # GraphQL strings have their own escapes: keep the text legal SDL
        one_line = clean.replace('"', "").replace("\n", " ").replace("\r", " ").replace(" ", " ").replace("\x0c", " ")
        sdl = f'"""\n{clean}\n"""\ntype A {{\n  "{one_line}"\n  a: Int\n}}\n"""\n{clean}\n"""\nenum E {{ X }}\ntype Query {{ q: A, e: E }}\n'
        yield "text-sweep-graphql", sdl, sdl, "graphql"


def keep_order_modular():
    """--keep-model-order on multi-module definition sets whose inheritance stays inside one sub-module (bases defined in the same
    module, so the reordering pass has everything it waits for): generation must terminate"""
    obj = lambda i: {"type": "object", "properties": {f"m{i}": {"type": "integer"}}}
    for mod in ("zoo", "a.b"):
        for nd in (1, 2, 3):
            defs = {f"{mod}.Animal": obj(0), "Flat": obj(9)}
            for i in range(nd):
                defs[f"{mod}.{['Cat', 'Dog', 'Eel'][i]}"] = {"allOf": [{"$ref": f"#/definitions/{mod}.Animal"}], **obj(i + 1)}
            defs["Keeper"] = {"type": "object", "properties": {"pet": {"$ref": f"#/definitions/{mod}.Cat"}}}
            yield "keep-order-modular", {"definitions": defs}, json.dumps({"definitions": defs}), "jsonschema"
            rev = dict(reversed(list(defs.items())))
            yield "keep-order-modular", {"definitions": rev}, json.dumps({"definitions": rev}), "jsonschema"


def name_sweep():
    """one character of every kind that is digit-like, combining, connecting, invisible or otherwise special to identifiers, at the
    start, inside and at the end of a property name, an enum value, a definition name and a title"""
    for c in DIGITISH:
        for name in ("x" + c, c + "x", "CO" + c + "y", c):
            doc = {"title": "Root", "type": "object", "properties": {name: {"type": "integer"}, "e": {"type": "string", "enum": [name, "plain"]},
                                                                     "r": {"$ref": "#/definitions/" + name}},
                   "definitions": {name: {"type": "object", "title": "T" + name, "properties": {"k": {"type": "string"}}}}}
            yield "name-sweep", doc, json.dumps(doc), "jsonschema"


def correspond(ctx):
    from harness import reflect
    rng = ctx.rng("corr")
    rows = [(k, nf, d, b, c, u) for k in KINDS for nf in (0, 1, 2) for d in (0, 1, 2) for b in (0, 1) for c in (0, 1) for u in (0, 1)]
    bad = 0
    for kind, nf, desc, base, closed, usd in rng.sample(rows, ctx.n(40, 360)):
        props = {f"m{i}": {"type": "integer", **({"description": "member text"} if desc else {})} for i in range(nf)}
        root = {"title": "Root", "type": "object", "properties": props, "definitions": {"E": {"type": "string", "enum": ["a", "b"]}}}
        if desc:
            root["description"] = "one line" if desc == 1 else "line one\nline two"
        if closed:
            root["additionalProperties"] = False
        if base:
            root["definitions"]["B"] = {"type": "object", "properties": {"b": {"type": "string"}}}
            root["allOf"] = [{"$ref": "#/definitions/B"}]
        tv = rng.choice(["3.9", "3.10", "3.11", "3.12", "3.13"])
        opts = {"target_python_version": tv}
        if usd:
            opts.update(use_schema_description=True, use_field_description=True)
        fm = ("black", "isort") if rng.random() < 0.5 else ()
        ctx.count("eval_skeleton")
        ctx.nontrivial(("sk", kind, nf, desc, base, closed, usd, tv, fm))
        why = run(json.dumps(root), "jsonschema", kind, opts, fm)
        if why:
            bad += 1
            if bad <= 5:
                ctx.tie_broken("correspondence", f"skeleton row ({kind}, members={nf} description={desc} base={base} closed={closed}, {opts}, {fm}): {why}", "",
                               hint=("jsonschema", root, kind, opts, list(fm)))
    ctx.count("disagreements", bad)


def falsify(ctx):
    rng = ctx.rng("fals")
    seen = 0

    def go(family, payload, inp, ft, modular, must, kind, opts, fm):
        nonlocal seen
        if in_known_class(family, payload, kind, opts, fm):
            ctx.count("outside_guard")
            return
        ctx.count("eval_e2e")
        ctx.bucket("family", family)
        ctx.bucket("kind", kind)
        ctx.nontrivial(json.dumps(payload, sort_keys=True, default=str) + kind + json.dumps(jsonable(opts), sort_keys=True) + str(fm))
        why = run(inp, ft, kind, opts, fm, modular, must)
        if why:
            seen += 1
            if seen <= 6:
                ctx.violation(f"{family}:{kind}:{json.dumps(jsonable(opts), sort_keys=True)}:{json.dumps(payload, sort_keys=True, default=str)}",
                              f"{family} {kind} {jsonable(opts)} formatters={list(fm)}: {why}",
                              {"family": family, "input": inp if isinstance(inp, (str, dict)) else str(inp), "file_type": ft, "modular": modular, "must_succeed": must,
                               "kind": kind, "opts": jsonable(opts), "formatters": list(fm)})

    for h in ctx.hints:
        go(h[0], h[1], json.dumps(h[1]), "jsonschema", False, True, h[2], h[3], tuple(h[4]))
    sweep = list(extras_sweep())
    for doc, kind, opts in (sweep if ctx.thorough else rng.sample(sweep, 70)):
        go("extras", doc, json.dumps(doc), "jsonschema", False, True, kind, dict(opts), ())
    for i, (family, payload, inp, ft) in enumerate(list(text_sweep())):
        for kind in (KINDS if ctx.thorough else [KINDS[i % len(KINDS)], KINDS[(i + 2) % len(KINDS)]]):
            for o in ({"use_schema_description": True, "use_field_description": True}, {"use_schema_description": True, "use_double_quotes": True}):
                go(family, payload, inp, ft, False, family != "text-sweep-graphql", kind, dict(o), ())
    from harness.props import c10
    for i, t in enumerate(RUNS):
        for pn, k1, k2 in (("kind", t, t + "2"), (t if t.strip() else "x-1", "cat", "dog")):
            doc = c10.disc_schema(pn, k1, k2)
            for kind in (KINDS if ctx.thorough else [KINDS[-1], KINDS[i % 4]]):   # msgspec writes tags into the class header: always
                go("discriminator-text", doc, json.dumps(doc), "jsonschema", False, False, kind, {}, ())
    for i, (family, payload, inp, ft) in enumerate(list(keep_order_modular())):
        for kind in (KINDS if ctx.thorough else [KINDS[i % len(KINDS)], KINDS[(i + 3) % len(KINDS)]]):
            go(family, payload, inp, ft, True, True, kind, {"keep_model_order": True}, ())
    for i, (family, payload, inp, ft) in enumerate(list(name_sweep())):
        for kind in (KINDS if ctx.thorough else [KINDS[i % len(KINDS)]]):
            go(family, payload, inp, ft, False, False, kind, {}, ())
    ksweep = list(keyword_sweep())
    for i, (family, payload, inp, ft) in enumerate(ksweep):
        for kind in (KINDS if ctx.thorough else [KINDS[i % len(KINDS)], KINDS[(i // 2 + 2) % len(KINDS)]]):
            # a title that is itself a keyword is refused with InvalidClassNameError: a reported error, which the property allows
            go(family, payload, inp, ft, False, family != "keyword-title", kind, {}, ())
    for family, payload, inp, ft, modular, must in families(ctx, rng):
        kind = rng.choice(KINDS)
        opts = rand_opts(rng, kind)
        if family == "modular":
            opts.update(payload[1])
            if rng.random() < 0.5:
                opts["collapse_root_models"] = True
        fm = ("black", "isort") if rng.random() < 0.15 else ()
        if opts.get("field_include_all_keys") or opts.get("field_extra_keys"):
            pass
        go(family, payload, inp, ft, modular, must, kind, opts, fm)
    ctx.sample({"options": BOOL_OPTS})


def _replay(r):
    return run(r["input"], r["file_type"], r["kind"], r["opts"], tuple(r.get("formatters", ())), r.get("modular", False), r.get("must_succeed", True))


def replay_finding(ctx, f):
    return _replay(f["replay"]) is not None


def replay(ctx, payload):
    r = payload.get("replay", payload)
    if "input" not in r:
        print(json.dumps(payload, indent=1)[:3000])
        return 0
    why = _replay(r)
    print("replay:", why or "no violation")
    return 1 if why else 0
