"""C05 - required, nullable and default semantics of each member are carried over."""
from __future__ import annotations

import dataclasses
import itertools
import json

from harness import lib, e2e

PID = "C05"
PROPS_V = "props/C05.v"
TABLES = ("FieldTable",)
RULE = ("correspondence: (1) flags_of (extracted) vs the real JsonSchemaParser for EVERY member state (required x default in "
        "{none given, null, value} x type-null x nullable keyword x constraints) x option vector (strict-nullable, force-optional, "
        "use-default, strip-default-none, use-annotated, field-constraints, use-default-kwarg) x 5 model types; (2) the meaning "
        "functions (required / admits null / reads default) vs real pydantic v2, pydantic.v1, dataclasses and TypedDict on every distinct "
        "rendered line of the table; falsifier: object schemas with several members in random states through generate(), "
        "construct with member omitted / null / present, default values (mutable ones must not be shared). non-trivial = cell inside the guard")
TRUSTED = ["msgspec is not installed: msgspec lines are checked structurally only (meaning taken from its documentation)",
           "a member-level line means the same whatever other members the class has (cells are rendered one member at a time)"]
ASSUMPTIONS = ["force-optional is excluded from the statement (the option asks for every member to be optional)"]

KINDS = ["pydantic.BaseModel", "pydantic_v2.BaseModel", "dataclasses.dataclass", "typing.TypedDict", "msgspec.Struct"]
DF = {"no": 0, "none": 1, "val": 2}


def member_schema(m):
    s = {"type": ["integer", "null"] if m["type_null"] else "integer"}
    if m["dflt"] == "none":
        s["default"] = None
    elif m["dflt"] == "val":
        s["default"] = 1
    if m["nullable_kw"]:
        s["nullable"] = True
    if m["constr"]:
        s["minimum"] = 1
    return s


def parser_opts(o):
    return dict(strict_nullable=o["strict"], force_optional_for_required_fields=o["force"], apply_default_values_for_required_fields=o["usedef"],
                strip_default_none=o["sdn"], use_annotated=o["ua"], field_constraints=o["fc"] or o["ua"], use_default_kwarg=o["udk"])


def real_flags(kind, m, o):
    """Run the real parser on a one-member object and read the arguments the field object received."""
    import datamodel_code_generator as d
    from datamodel_code_generator.format import PythonVersion
    from datamodel_code_generator.model import get_data_model_types
    from datamodel_code_generator.parser.jsonschema import JsonSchemaParser
    ms = get_data_model_types(d.DataModelType(kind), PythonVersion.PY_312)
    sch = {"title": "M", "type": "object", "properties": {"a": member_schema(m)}, "required": ["a"] if m["required"] else []}
    po = parser_opts(o)
    if kind == "msgspec.Struct":
        po["use_annotated"] = True
        po["field_constraints"] = True
    p = JsonSchemaParser(json.dumps(sch), data_model_type=ms.data_model, data_model_root_type=ms.root_model, data_model_field_type=ms.field_model,
                         data_type_manager_type=ms.data_type_manager, **po)
    p.parse_raw()
    f = next(x for x in p.results if x.class_name == "M").fields[0]
    from harness import reflect
    r = dict(kind=kind, req=f.required, dflt=("no" if not f.has_default else ("none" if f.default is None else "val")), nullable=f.nullable,
             thn=bool(f.type_has_null), dtopt=bool(f.data_type.is_optional), sdn=f.strip_default_none, ua=f.use_annotated,
             constr=bool(f.constraints is not None and getattr(f.constraints, "has_constraints", False)), udk=f.use_default_kwarg)
    if kind in ("dataclasses.dataclass", "typing.TypedDict"):
        r["ua"] = False
        r["constr"] = False
    if not kind.startswith("pydantic"):
        r["udk"] = False
    return reflect.field_key(r)


def all_members():
    for req, dflt, tn, nk, c in itertools.product([True, False], ["no", "none", "val"], [True, False], [True, False], [True, False]):
        yield dict(required=req, dflt=dflt, type_null=tn, nullable_kw=nk, constr=c)


def all_opts():
    for a, b, c, d_, e, f, g in itertools.product([True, False], repeat=7):
        yield dict(strict=a, force=b, usedef=c, sdn=d_, ua=e, fc=f, udk=g)


def req_line(ki, m, o):
    b = lambda x: "1" if x else "0"
    return "\t".join(["flagsof", str(ki), b(m["required"]), str(DF[m["dflt"]]), b(m["type_null"]), b(m["nullable_kw"]), b(m["constr"]),
                      b(o["strict"]), b(o["force"]), b(o["usedef"]), b(o["sdn"]), b(o["ua"]), b(o["fc"]), b(o["udk"])])


def observe_meaning(kind, hint, val):
    """What the real library does with `a: <hint> [= <val>]`: (required?, admits None?, omitted reads default?)"""
    assign = f" = {val}" if val else ""
    if kind == "pydantic_v2.BaseModel":
        src = f"from __future__ import annotations\nfrom typing import Optional, Annotated\nfrom pydantic import BaseModel, Field\nclass M(BaseModel):\n    a: {hint}{assign}\n"
    elif kind == "pydantic.BaseModel":
        src = f"from __future__ import annotations\nfrom typing import Optional\nfrom typing_extensions import Annotated\nfrom pydantic import BaseModel, Field\nclass M(BaseModel):\n    a: {hint}{assign}\n"
    elif kind == "dataclasses.dataclass":
        src = f"from __future__ import annotations\nfrom typing import Optional\nfrom dataclasses import dataclass, field\n@dataclass\nclass M:\n    a: {hint}{assign}\n"
    elif kind == "typing.TypedDict":
        src = f"from __future__ import annotations\nfrom typing import Optional\nfrom typing_extensions import TypedDict, NotRequired\nclass M(TypedDict):\n    a: {hint}\n"
    else:
        return None
    m, err = e2e.load_module(src, kind)
    if err:
        return ("error", err)
    try:
        M = m.M
        if kind == "pydantic_v2.BaseModel":
            try:
                obj = M()
                required, reads = False, obj.a
            except Exception:  # noqa: BLE001
                required, reads = True, None
            try:
                M(a=None)
                null_ok = True
            except Exception:  # noqa: BLE001
                null_ok = False
        elif kind == "pydantic.BaseModel":
            try:
                obj = M()
                required, reads = False, obj.a
            except Exception:  # noqa: BLE001
                required, reads = True, None
            try:
                M(a=None)
                null_ok = True
            except Exception:  # noqa: BLE001
                null_ok = False
        else:
            from pydantic import TypeAdapter
            ta = TypeAdapter(M)
            try:
                obj = ta.validate_python({})
                required = False
                reads = obj.get("a") if isinstance(obj, dict) else obj.a
            except Exception:  # noqa: BLE001
                required, reads = True, None
            try:
                ta.validate_python({"a": None})
                null_ok = True
            except Exception:  # noqa: BLE001
                null_ok = False
        return (required, null_ok, (None if required else ("default" if reads == 1 else "none")))
    finally:
        e2e.unload(m)


def correspond(ctx):
    from harness import reflect
    drv = lib.Driver()
    rows = reflect.field_table()
    # (2) meaning of every distinct rendered line
    distinct = {}
    for r in rows:
        distinct.setdefault((r["kind"], r["hint"], r["val"], r["opt_hint"], r["notreq"], r["eff"]), r)
    bad = 0
    reqs, keys = [], []
    for (kind, hint, val, opt, notreq, eff) in distinct:
        reqs.append(f"meaning\t{KINDS.index(kind)}\t{int(opt)}\t{int(notreq)}\t{eff}")
        keys.append((kind, hint, val))
    outs = drv.batch(reqs)
    for (kind, hint, val), out in zip(keys, outs):
        ctx.count("eval_meaning")
        hint_full = hint
        obs = observe_meaning(kind, hint_full, val)
        if obs is None:
            ctx.count("meaning_not_executable")
            continue
        if obs[0] == "error":
            ctx.tie_broken("correspondence", f"rendered line does not execute: {kind}: a: {hint_full} = {val}", obs[1])
            bad += 1
            continue
        mreq, mnull, mreads = out.split("\t")
        model = (mreq == "1", mnull == "1", None if mreq == "1" else (None if mreads == "-" else mreads))
        obs_cmp = (obs[0], obs[1], obs[2])
        if model[0] != obs_cmp[0] or model[1] != obs_cmp[1] or (not model[0] and model[2] != obs_cmp[2]):
            bad += 1
            if bad <= 5:
                ctx.tie_broken("correspondence", f"meaning of `a: {hint_full}{' = ' + val if val else ''}` for {kind}: model (required, null ok, reads) = {model}, library = {obs_cmp}", "")
    # (1) flags_of vs the real parser, exhaustively
    members, optss = list(all_members()), list(all_opts())
    rng = ctx.rng("flags")
    reqs, metas = [], []
    for ki, kind in enumerate(KINDS):
        for m in members:
            for o in optss:
                if not ctx.thorough and rng.random() < 0.85:
                    continue
                reqs.append(req_line(ki, m, o))
                metas.append((kind, m, o))
    outs = drv.batch(reqs)
    inside = 0
    for (kind, m, o), out in zip(metas, outs):
        ctx.count("eval_flags")
        k_model, g = out.split("\t")
        if g == "1":
            inside += 1
            ctx.nontrivial((kind, json.dumps(m, sort_keys=True), json.dumps(o, sort_keys=True)))
        try:
            k_real = real_flags(kind, m, o)
        except Exception as e:  # noqa: BLE001
            k_real = f"ERR {type(e).__name__}: {e}"
        if str(k_real) != k_model:
            bad += 1
            if bad <= 6:
                ctx.tie_broken("correspondence", "flags_of model != the arguments the real parser passes to the field class",
                               json.dumps({"kind": kind, "member": m, "opts": o, "model_key": k_model, "real_key": k_real}), hint=(kind, m, o))
    ctx.extra["exhaustive"] = bool(ctx.thorough)
    ctx.extra["cells"] = len(rows)
    ctx.extra["distinct_rendered_lines"] = len(distinct)
    ctx.count("inside_guard", inside)
    ctx.count("disagreements", bad)
    ctx.sample({"cell": {k: v for k, v in rows[100].items()}})


def distinct_notreq(distinct, kind, hint, val):
    return any(k[0] == kind and k[1] == hint and k[2] == val and k[4] for k in distinct)


# ---------------------------------------------------------------------------------------------
# falsifier


def py_guard(kind, m, o):
    nullable_schema = m["type_null"] or m["nullable_kw"]
    hasdef = m["dflt"] != "no"
    sreq = m["required"] and not (o["usedef"] and hasdef)
    if o["force"]:
        return False
    if sreq and not hasdef and nullable_schema and kind in ("pydantic.BaseModel", "pydantic_v2.BaseModel", "msgspec.Struct"):
        return False
    if m["nullable_kw"] and not m["type_null"] and (not o["strict"] or kind == "typing.TypedDict"):
        return False
    if o["sdn"] and not sreq and m["dflt"] != "val":
        return False
    return True


DEFAULTS = [1, "x", [1, 2], {"k": [1]}, [], {}, 1.5, True, None, "a'b\\", [{"n": None}]]


def check_object(kind, members, o, defaults):
    """members: list of member dicts (in guard); returns violation text or None."""
    props, required = {}, []
    for i, m in enumerate(members):
        s = member_schema(m)
        if m["dflt"] == "val":
            dv = defaults[i]
            s["default"] = dv
            s["type"] = ({int: "integer", str: "string", list: "array", dict: "object", float: "number", bool: "boolean"}[type(dv)])
            if m["type_null"]:
                s["type"] = [s["type"], "null"]
            s.pop("minimum", None)
        props[f"f{i}"] = s
        if m["required"]:
            required.append(f"f{i}")
    sch = {"title": "M", "type": "object", "properties": props, "required": required}
    g = e2e.generate(json.dumps(sch), kind=kind, **parser_opts(o))
    if g.timeout:
        return "generate() does not terminate"
    if not g.ok:
        return None
    if kind == "msgspec.Struct":
        return e2e.parses(g.text) and f"output does not parse: {e2e.parses(g.text)}"
    mod, err = e2e.load_module(g.text, kind)
    if err:
        return f"module does not execute: {err}"
    try:
        M = mod.M
        if kind.startswith("pydantic"):
            def make(d):
                return M.model_validate(d) if kind.startswith("pydantic_v2") else M.parse_obj(d)
            def get(obj, n):
                return getattr(obj, n)
        else:
            from pydantic import TypeAdapter
            ta = TypeAdapter(M)
            def make(d):
                return ta.validate_python(d)
            def get(obj, n):
                return obj.get(n) if isinstance(obj, dict) else getattr(obj, n)
        base = {}
        for i, m in enumerate(members):
            if m["required"] and not (o["usedef"] and m["dflt"] != "no"):
                base[f"f{i}"] = defaults[i] if m["dflt"] == "val" else 5
        try:
            obj0 = make(dict(base))
            obj1 = make(dict(base))
        except Exception as e:  # noqa: BLE001
            return f"an instance with exactly the required members is rejected: {str(e)[:150]}"
        for i, m in enumerate(members):
            n = f"f{i}"
            hasdef = m["dflt"] != "no"
            sreq = m["required"] and not (o["usedef"] and hasdef)
            if sreq and not hasdef:
                d = dict(base)
                d.pop(n)
                try:
                    make(d)
                    return f"required member {n} ({m}) can be omitted"
                except Exception:  # noqa: BLE001
                    pass
            if not sreq:
                v = get(obj0, n)
                if m["dflt"] == "val" and kind != "typing.TypedDict":
                    if v != defaults[i]:
                        return f"omitted member {n} reads {v!r}, schema default is {defaults[i]!r}"
                    if isinstance(v, (list, dict)) and v is get(obj1, n):
                        return f"mutable default of {n} is shared between instances"
                elif m["dflt"] != "val" and v is not None:
                    return f"omitted member {n} without default reads {v!r}"
            if m["type_null"] or m["nullable_kw"]:
                d = dict(base)
                d[n] = None
                try:
                    make(d)
                except Exception as e:  # noqa: BLE001
                    return f"member {n} admits null in the schema but null is rejected: {str(e)[:100]}"
        return None
    finally:
        e2e.unload(mod)


def make_api(kind, mod, name="M"):
    M = getattr(mod, name)
    if kind.startswith("pydantic"):
        make = (lambda d: M.model_validate(d)) if kind.startswith("pydantic_v2") else (lambda d: M.parse_obj(d))
        get = lambda obj, n: getattr(obj, n)
    else:
        from pydantic import TypeAdapter
        ta = TypeAdapter(M)
        make = lambda d: ta.validate_python(d)
        get = lambda obj, n: obj.get(n) if isinstance(obj, dict) else getattr(obj, n)
    return make, get


def check_ref_default(kind, o, def_default, own_default):
    """A member that is a $ref to a scalar definition; "absent" means the keyword is not given."""
    defs = {"D": {"type": ["integer", "string", "boolean", "null"]}}
    if def_default != "absent":
        defs["D"]["default"] = def_default
    member = {"$ref": "#/definitions/D"}
    if own_default != "absent":
        member["default"] = own_default
    sch = {"title": "M", "type": "object", "properties": {"a": member, "z": {"type": "integer"}}, "definitions": defs}
    g = e2e.generate(json.dumps(sch), kind=kind, **parser_opts(o))
    if not g.ok or kind in ("msgspec.Struct", "typing.TypedDict"):
        return None
    mod, err = e2e.load_module(g.text, kind)
    if err:
        return f"module does not execute: {err}"
    try:
        make, get = make_api(kind, mod)
        try:
            obj = make({})
        except Exception as e:  # noqa: BLE001
            return f"non-required $ref member cannot be omitted: {str(e)[:120]}"
        v = get(obj, "a")
        v = getattr(v, "root", getattr(v, "__root__", v))
        want = own_default if own_default != "absent" else (def_default if def_default != "absent" else None)
        if kind == "pydantic.BaseModel" and isinstance(want, bool) and v == want:
            return None  # pydantic v1 coerces left to right through Union[int, str, bool]: True reads back as 1 (C03-v1-union-coercion), the default itself is the right one
        if v != want or type(v) is not type(want):
            return f"omitted $ref member reads {v!r}; its own default is {own_default!r}, the referenced definition's default is {def_default!r}"
        return None
    finally:
        e2e.unload(mod)


def check_inherited_required(kind, o, key="x-id"):
    """Child = allOf[Base] + own member with a non-identifier name + required naming inherited members."""
    sch = {"definitions": {
        "Base": {"type": "object", "properties": {"p": {"type": "integer"}, "q": {"type": ["integer", "null"]}, "r": {"type": "integer"}}},
        "Child": {"allOf": [{"$ref": "#/definitions/Base"}], "type": "object", "properties": {key: {"type": "integer"}}, "required": ["p", key]},
    }}
    g = e2e.generate(json.dumps(sch), kind=kind, **parser_opts(o))
    if not g.ok or kind == "msgspec.Struct":
        return None
    mod, err = e2e.load_module(g.text, kind)
    if err:
        return None  # execution problems are C02's subject
    try:
        make, get = make_api(kind, mod, "Child")
        full = {"p": 1, key: 2}
        try:
            make(dict(full))
        except Exception as e:  # noqa: BLE001
            return f"Child instance with exactly the required members is rejected: {str(e)[:120]}"
        for n in ("p", key):
            d = dict(full)
            d.pop(n)
            try:
                make(d)
                return f"Child lists {n!r} in required (inherited or own) but omitting it is accepted"
            except Exception:  # noqa: BLE001
                pass
        return None
    finally:
        e2e.unload(mod)


PLAIN = dict(strict=False, force=False, usedef=False, sdn=False, ua=False, fc=False, udk=False)


def check_required_part(kind, key, with_base, placement):
    """the member is declared in one place of an allOf composition and listed as required in another"""
    decl = {"type": "object", "properties": {key: {"type": "integer"}, "other": {"type": "string"}}}
    parts = [{"$ref": "#/definitions/Base"}] if with_base else []
    child = {"type": "object"}
    if placement == "separate-part":        # allOf: [.., {properties}, {required}]
        parts += [decl, {"required": [key]}]
    elif placement == "same-part":          # allOf: [.., {properties, required}]
        parts += [dict(decl, required=[key])]
    elif placement == "beside-allOf":       # allOf: [.., {properties}], required next to allOf
        parts += [decl]
        child["required"] = [key]
    else:                                   # properties next to allOf, required in a part
        child["properties"] = decl["properties"]
        parts += [{"required": [key]}]
    child["allOf"] = parts
    sch = {"definitions": {"Base": {"type": "object", "properties": {"b": {"type": "integer"}}}, "Child": child}}
    g = e2e.generate(json.dumps(sch), kind=kind, **parser_opts(PLAIN))
    if not g.ok or kind == "msgspec.Struct":
        return None
    mod, err = e2e.load_module(g.text, kind)
    if err:
        return None
    try:
        make, get = make_api(kind, mod, "Child")
        try:
            make({key: 1})
        except Exception:  # noqa: BLE001
            return None  # the member cannot be supplied under its wire name at all (C03 / C07 territory)
        try:
            make({})
        except Exception:  # noqa: BLE001
            return None
        return f"member {key!r} is required by the composition ({placement}{', with a $ref base' if with_base else ''}) but omitting it is accepted"
    finally:
        e2e.unload(mod)


NEAR_DEFAULTS = [(["name", "date"], ["date", "name"]), (None, ""), (0, False), (1, True), (1, 1.0), ("", []), ({}, []), ("a", "A"), ([1, [2, 3]], [1, [3, 2]])]


def check_lookalike_defaults(kind, d1, d2, reuse):
    """two inline objects of the same member name under two parents, the same in everything but one default"""
    def settings(d):
        t = {list: "array", str: "string", bool: "boolean", int: "integer", float: "number", dict: "object", type(None): "string"}[type(d)]
        return {"type": "object", "properties": {"order": {"type": [t, "null"], "default": d}, "size": {"type": "integer"}}}
    sch = {"definitions": {"Box": {"type": "object", "properties": {"settings": settings(d1)}, "required": ["settings"]},
                           "Crate": {"type": "object", "properties": {"settings": settings(d2)}, "required": ["settings"]}}}
    g = e2e.generate(json.dumps(sch), kind=kind, **({"reuse_model": True} if reuse else {}))
    if not g.ok:
        return None
    mod, err = e2e.load_module(g.text, kind)
    if err:
        return None
    try:
        for owner, want in (("Box", d1), ("Crate", d2)):
            make, get = make_api(kind, mod, owner)
            try:
                obj = make({"settings": {}})
            except Exception:  # noqa: BLE001
                return None
            v = get(get(obj, "settings"), "order")
            if v != want or type(v) is not type(want):
                return f"{owner}.settings.order: omitted member reads {v!r}, the schema default is {want!r} (the other look-alike class has {d1 if owner == 'Crate' else d2!r})"
        return None
    finally:
        e2e.unload(mod)


def check_multi_base(kind):
    """Item = allOf [A, B] (B itself extends G) with required next to the allOf naming members of the first base, the second base
    and the grandparent, among them a nullable array and a nullable enum: omitting a required plain member is rejected, null for
    the nullable ones is accepted, the full instance is accepted"""
    defs = {"A": {"type": "object", "properties": {"a": {"type": "integer"}}},
            "G": {"type": "object", "properties": {"g": {"type": "integer"}}},
            "B": {"allOf": [{"$ref": "#/definitions/G"}], "type": "object",
                  "properties": {"tag": {"type": "string"}, "labels": {"type": ["array", "null"], "items": {"type": "string"}},
                                 "level": {"type": ["string", "null"], "enum": ["lo", "hi", None]}}},
            "Item": {"allOf": [{"$ref": "#/definitions/A"}, {"$ref": "#/definitions/B"}], "required": ["a", "tag", "g", "labels", "level"]}}
    g = e2e.generate(json.dumps({"definitions": defs}), kind=kind, **parser_opts(PLAIN))
    if not g.ok or kind == "msgspec.Struct":
        return None
    mod, err = e2e.load_module(g.text, kind)
    if err:
        return None
    try:
        make, get = make_api(kind, mod, "Item")
        full = {"a": 1, "tag": "t", "g": 2, "labels": ["x"], "level": "lo"}
        try:
            make(dict(full))
        except Exception as e:  # noqa: BLE001
            return f"Item instance with all required members is rejected: {str(e)[:120]}"
        for n in ("a", "tag", "g"):
            d = dict(full)
            d.pop(n)
            try:
                make(d)
                return f"Item lists {n!r} (declared by {'the first base' if n == 'a' else 'the second base' if n == 'tag' else 'the base of the second base'}) in required but omitting it is accepted"
            except Exception:  # noqa: BLE001
                pass
        for n in ("labels", "level"):
            d = dict(full)
            d[n] = None
            try:
                make(d)
            except Exception as e:  # noqa: BLE001
                return f"Item: null for the nullable inherited member {n!r} (re-listed as required) is rejected: {str(e)[:100]}"
        return None
    finally:
        e2e.unload(mod)


def check_union_default(kind, first_required, default, order):
    """a non-required member that accepts two object models (and possibly a scalar) with a default that belongs to the second
    alternative: leaving the member out reads the schema's default"""
    cat = {"type": "object", "properties": {"name": {"type": "string"}}, **({"required": ["name"]} if first_required else {})}
    dog = {"type": "object", "properties": {"bark": {"type": "integer"}}}
    alts = [{"$ref": "#/definitions/Cat"}, {"$ref": "#/definitions/Dog"}]
    if order == "scalar-first":
        alts = [{"type": "string"}] + alts
    sch = {"title": "M", "type": "object", "properties": {"one": {"anyOf": alts, "default": default}, "z": {"type": "integer"}}, "definitions": {"Cat": cat, "Dog": dog}}
    g = e2e.generate(json.dumps(sch), kind=kind, **parser_opts(PLAIN))
    if not g.ok:
        return None
    mod, err = e2e.load_module(g.text, kind)
    if err:
        return None
    try:
        make, get = make_api(kind, mod)
        try:
            obj = make({})
        except Exception as e:  # noqa: BLE001
            return f"the non-required member with default {default!r} cannot be left out: {str(e)[:120]}"
        v = get(obj, "one")
        for attr in ("model_dump", "dict"):
            if hasattr(v, attr):
                v = {k: x for k, x in getattr(v, attr)().items() if x is not None}
                break
        if v != default:
            line = next((l.strip() for l in g.text.splitlines() if l.strip().startswith("one")), "")
            return f"omitted member reads {v!r}, the schema default is {default!r} (written `{line}`)"
        return None
    finally:
        e2e.unload(mod)


def check_shared_primitive(kind):
    """OpenAPI, --strict-nullable: one nullable string / integer somewhere in the document must not make the other string / integer
    members of the document nullable or optional"""
    doc = {"openapi": "3.0.0", "info": {"title": "t", "version": "1"}, "paths": {},
           "components": {"schemas": {"Note": {"type": "object", "properties": {"text": {"type": "string", "nullable": True}, "size": {"type": "integer", "nullable": True}}},
                                      "M": {"type": "object", "required": ["name", "count"],
                                            "properties": {"name": {"type": "string"}, "count": {"type": "integer"}, "label": {"type": "string", "default": "x"},
                                                           "note": {"$ref": "#/components/schemas/Note"}}}}}}
    g = e2e.generate(json.dumps(doc), kind=kind, file_type="openapi", strict_nullable=True)
    if not g.ok:
        return None
    mod, err = e2e.load_module(g.text, kind)
    if err:
        return None
    try:
        make, get = make_api(kind, mod)
        try:
            make({"name": "n", "count": 1})
        except Exception as e:  # noqa: BLE001
            return f"M instance with exactly the required members is rejected: {str(e)[:100]}"
        for n in ("name", "count"):
            for d in ({k: v for k, v in {"name": "n", "count": 1}.items() if k != n}, {"name": "n", "count": 1, n: None}):
                try:
                    make(d)
                    return f"required non-nullable member {n!r} may be {'left out' if n not in d else 'null'} (another member of the same primitive type is nullable)"
                except Exception:  # noqa: BLE001
                    pass
        try:
            make({"name": "n", "count": 1, "label": None})
            return "non-nullable member 'label' (with a default) accepts null"
        except Exception:  # noqa: BLE001
            pass
        return None
    finally:
        e2e.unload(mod)


def falsify(ctx):
    rng = ctx.rng("fals")
    for kind in KINDS[:2]:
        for first_required in (False, True):
            for default in ({"bark": 3}, {"name": "tom"}, {"bark": 0}):
                for order in ("models", "scalar-first"):
                    if first_required and "name" in default:
                        pass
                    ctx.count("eval_e2e")
                    ctx.nontrivial(("union-default", kind, first_required, json.dumps(default), order))
                    why = check_union_default(kind, first_required, default, order)
                    if why:
                        ctx.violation(f"union-default:{kind}:{first_required}:{json.dumps(default)}:{order}", f"{kind}: {why}",
                                      {"union_default": [first_required, default, order], "kind": kind, "why": why})
        ctx.count("eval_e2e")
        ctx.nontrivial(("shared-primitive", kind))
        why = check_shared_primitive(kind)
        if why:
            ctx.violation(f"shared-primitive:{kind}", f"{kind} OpenAPI --strict-nullable: {why}", {"shared_primitive": True, "kind": kind, "why": why})
    for kind in KINDS[:2]:   # pydantic v2 / v1 (dataclass inheritance with defaults is C02-dataclass-default-order)
        ctx.count("eval_e2e")
        ctx.nontrivial(("multi-base", kind))
        why = check_multi_base(kind)
        if why:
            ctx.violation(f"multi-base:{kind}", f"{kind}: {why}", {"multi_base": True, "kind": kind, "why": why})
    for kind in KINDS[:4]:
        for key in ("first-name", "@type", "class", "_x", "plain"):
            for with_base in (False, True):
                for placement in ("separate-part", "same-part", "beside-allOf", "properties-beside"):
                    ctx.count("eval_e2e")
                    ctx.nontrivial(("required-part", kind, key, with_base, placement))
                    why = check_required_part(kind, key, with_base, placement)
                    if why:
                        ctx.violation(f"required-part:{kind}:{key}:{with_base}:{placement}", f"{kind}: {why}",
                                      {"required_part": [key, with_base, placement], "kind": kind, "why": why})
    for kind in ("pydantic_v2.BaseModel", "pydantic.BaseModel", "dataclasses.dataclass"):
        for d1, d2 in NEAR_DEFAULTS:
            for a, b in ((d1, d2), (d2, d1)):
                for reuse in (False, True):
                    ctx.count("eval_e2e")
                    ctx.nontrivial(("lookalike", kind, json.dumps([a, b]), reuse))
                    why = check_lookalike_defaults(kind, a, b, reuse)
                    if why:
                        ctx.violation(f"lookalike:{kind}:{json.dumps([a, b])}:{reuse}", f"{kind} reuse_model={reuse}: {why}",
                                      {"lookalike": [a, b, reuse], "kind": kind, "why": why})
    members_all, opts_all = list(all_members()), list(all_opts())
    cases = []
    for h in ctx.hints[:8]:
        if isinstance(h, tuple) and len(h) == 3:
            kind, m, o = h
            cases.append((kind, [m], o))
    for _ in range(ctx.n(220, 4000)):
        kind = rng.choice(KINDS[:4] * 3 + KINDS[4:])
        o = rng.choice(opts_all)
        ms = [rng.choice(members_all) for _ in range(rng.choice([1, 2, 3, 4]))]
        cases.append((kind, ms, o))
    seen = 0
    for kind, ms, o in cases:
        ms = [m for m in ms if py_guard(kind, m, o)]
        if not ms or o["force"]:
            continue
        # dataclass / msgspec: a required member after a defaulted one is a TypeError of the class model (C02 territory): keep order legal
        defaults = [rng.choice(DEFAULTS[:8]) for _ in ms]
        ctx.count("eval_e2e")
        ctx.bucket("kind", kind)
        why = check_object(kind, ms, o, defaults)
        if why:
            seen += 1
            if seen <= 6:
                ctx.violation(f"e2e:{kind}:{json.dumps(ms, sort_keys=True)}:{json.dumps(o, sort_keys=True)}:{defaults}", f"{kind} {o} members {ms} defaults {defaults}: {why}",
                              {"kind": kind, "members": ms, "opts": o, "defaults": defaults, "why": why})
    # $ref members: own default vs the referenced definition's default (falsy values included)
    vals = ["absent", 0, 3, "", "s", False, True, None]
    for _ in range(ctx.n(40, 600)):
        kind = rng.choice(["pydantic_v2.BaseModel", "pydantic.BaseModel", "dataclasses.dataclass"])
        o = dict(rng.choice(opts_all), force=False, sdn=False, strict=False)
        dd, od = rng.choice(vals), rng.choice(vals)
        if dd is None and od == "absent":
            continue
        ctx.count("eval_e2e")
        why = check_ref_default(kind, o, dd, od)
        if why:
            ctx.violation(f"ref-default:{kind}:{dd!r}:{od!r}:{json.dumps(o, sort_keys=True)}", f"{kind} {o}: {why}", {"ref_default": [dd, od], "kind": kind, "opts": o, "why": why})
            break
    for kind in KINDS[:4]:
        for o in [dict(strict=False, force=False, usedef=False, sdn=False, ua=False, fc=False, udk=False), dict(rng.choice(opts_all), force=False, sdn=False)]:
            for key in ("x-id", "xid"):
                ctx.count("eval_e2e")
                why = check_inherited_required(kind, o, key)
                if why:
                    ctx.violation(f"inherited-required:{kind}:{key}:{json.dumps(o, sort_keys=True)}", f"{kind} {o}: {why}", {"inherited_required": key, "kind": kind, "opts": o, "why": why})
    ctx.sample({"kind": cases[-1][0], "members": cases[-1][1], "opts": cases[-1][2]})


def replay_finding(ctx, f):
    r = f["replay"]
    if "union_default" in r:
        return check_union_default(r["kind"], *r["union_default"]) is not None
    if "shared_primitive" in r:
        return check_shared_primitive(r["kind"]) is not None
    if "multi_base" in r:
        return check_multi_base(r["kind"]) is not None
    if "required_part" in r:
        return check_required_part(r["kind"], *r["required_part"]) is not None
    if "lookalike" in r:
        return check_lookalike_defaults(r["kind"], *r["lookalike"]) is not None
    return check_object(r["kind"], r["members"], r["opts"], r["defaults"]) is not None


def replay(ctx, payload):
    r = payload.get("replay", payload)
    if "ref_default" in r:
        why = check_ref_default(r["kind"], r["opts"], *r["ref_default"])
        print("replay:", why or "no violation")
        return 1 if why else 0
    if "inherited_required" in r:
        why = check_inherited_required(r["kind"], r["opts"], r["inherited_required"])
        print("replay:", why or "no violation")
        return 1 if why else 0
    if "union_default" in r or "shared_primitive" in r:
        why = check_union_default(r["kind"], *r["union_default"]) if "union_default" in r else check_shared_primitive(r["kind"])
        print("replay:", why or "no violation")
        return 1 if why else 0
    if "multi_base" in r:
        why = check_multi_base(r["kind"])
        print("replay:", why or "no violation")
        return 1 if why else 0
    if "required_part" in r:
        why = check_required_part(r["kind"], *r["required_part"])
        print("replay:", why or "no violation")
        return 1 if why else 0
    if "lookalike" in r:
        why = check_lookalike_defaults(r["kind"], *r["lookalike"])
        print("replay:", why or "no violation")
        return 1 if why else 0
    if "members" not in r:
        print(json.dumps(payload, indent=1)[:3000])
        return 0
    why = check_object(r["kind"], r["members"], r["opts"], r["defaults"])
    print("replay:", why or "no violation")
    return 1 if why else 0
